#!/usr/bin/env python3
"""Record the shape skeleton of every function of the confirmed tree (see sverif/shape.py).  Run only when the rule instances have
been re-confirmed by hand on the tree in /repo:  /venv/bin/python tools/gen_skeleton.py [repo]"""
import json
import os
import sys
sys.path.insert(0, os.path.dirname(os.path.dirname(os.path.abspath(__file__))))
from sverif.loader import Program
from sverif import shape

prog = Program(sys.argv[1] if len(sys.argv) > 1 else "/repo")
d = shape.build(prog)
json.dump(d, open(shape.SKELETON, "w"), indent=0, sort_keys=True)
print("skeleton of %d functions, %d defined names -> %s" % (len(d["functions"]), len(d["defined"]), shape.SKELETON))
