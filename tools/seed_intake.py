#!/usr/bin/env python3
"""Intake of a seeded change produced by an independent sub-agent.

    tools/seed_intake.py <property id> <dir with patch.diff + demo.py [+ notes.md]> <seed name>

1. confirms, in a fresh scratch worktree of /repo (outside /repo and /verif, removed afterwards):
   the patch applies, the demo FAILS with it, the existing suite still passes with it (104 tests),
   and the demo PASSES on the clean tree;
2. applies the patch to /repo itself, runs every registered quick check, records which fire,
   and restores /repo (git checkout -- .);
3. stores patch, demo and meta.json under /verif/seeded/<seed name>/ when (1) holds.
"""
import json
import os
import shutil
import subprocess
import sys
import tempfile

VERIF = os.path.dirname(os.path.dirname(os.path.abspath(__file__)))
PY = "/venv/bin/python"
FAKE = "/root/sempler_probes/fake_rpy2"


def sh(cmd, cwd=None, env=None, timeout=1800):
    p = subprocess.run(cmd, shell=True, cwd=cwd, env=env, capture_output=True, text=True, timeout=timeout)
    return p.returncode, (p.stdout + p.stderr)


def main():
    pid, src, name = sys.argv[1:4]
    skip_suite = "--skip-suite" in sys.argv
    patch = os.path.join(src, "patch.diff")
    demo = os.path.join(src, "demo.py")
    demo_orig = demo
    if not (os.path.exists(patch) and os.path.exists(demo)):
        print("missing patch.diff / demo.py in", src)
        return 2
    wt = tempfile.mkdtemp(prefix="seedwt_")
    os.rmdir(wt)
    meta = {"seed": name, "property": pid, "source": "independent sub-agent given only the property text and a scratch worktree"}
    rc, out = sh("git -C /repo worktree add -q --detach %s HEAD" % wt)
    if rc:
        print(out)
        return 2
    try:
        env = dict(os.environ, PYTHONPATH=("%s:%s" % (wt, FAKE)) if pid == "C19" else wt)
        rc, out = sh("git -C %s apply --check %s && git -C %s apply %s" % (wt, patch, wt, patch))
        meta["applies"] = rc == 0
        if rc:
            print("patch does not apply:", out)
            return 2
        # demos written by the sub-agents may assert their own worktree path: substitute the scratch path
        txt = open(demo).read().replace("/tmp/wt_%s" % pid, wt)
        demo_run = os.path.join(wt, "_demo_seed.py")
        with open(demo_run, "w") as fh:
            fh.write(txt)
        demo = demo_run
        rc_demo_with, out1 = sh("%s %s" % (PY, demo), cwd=wt, env=env, timeout=900)
        if rc_demo_with == 0 and "def test_" in open(demo).read():
            rc_demo_with, out1 = sh("%s -m pytest -q -p no:cacheprovider %s" % (PY, demo), cwd=wt, env=env, timeout=900)
            meta["demo_runner"] = "pytest"
        meta["demo_fails_with_change"] = rc_demo_with != 0
        if not skip_suite:
            rc_suite, out2 = sh("%s -m pytest sempler/test -q -p no:cacheprovider -n 8 --timeout=900 --continue-on-collection-errors" % PY, cwd=wt, env=env)
            tail = out2.strip().splitlines()[-1] if out2.strip() else ""
            meta["suite_with_change"] = tail
            meta["suite_passes_with_change"] = ("104 passed" in tail or "105 passed" in tail) and "failed" not in tail
        sh("git -C %s checkout -- sempler drf" % wt)
        runner = "%s -m pytest -q -p no:cacheprovider %s" % (PY, demo) if meta.get("demo_runner") == "pytest" else "%s %s" % (PY, demo)
        rc_demo_without, out3 = sh(runner, cwd=wt, env=env, timeout=900)
        meta["demo_passes_without_change"] = rc_demo_without == 0
        meta["demo_output_with_change"] = out1[-600:]
    finally:
        sh("git -C /repo worktree remove --force %s" % wt)
        shutil.rmtree(wt, ignore_errors=True)
    ok = meta["demo_fails_with_change"] and meta["demo_passes_without_change"] and (skip_suite or meta["suite_passes_with_change"])
    meta["confirmed"] = bool(ok)
    # run the checks against the change: in a second scratch worktree (SVERIF_REPO), so that /repo itself is never
    # left modified while other work (or a sandbox snapshot) is going on; equivalent to apply / run / checkout in /repo
    fired = {}
    wt2 = tempfile.mkdtemp(prefix="seedchk_")
    os.rmdir(wt2)
    rc, out = sh("git -C /repo worktree add -q --detach %s HEAD && git -C %s apply %s" % (wt2, wt2, patch))
    try:
        if rc == 0:
            man = json.load(open(os.path.join(VERIF, "MANIFEST.json")))
            for c in man["checks"]:
                p = c["property_id"]
                rc2, o = sh("%s -m sverif %s --tier quick --no-write --repo %s" % (PY, p, wt2), cwd=VERIF)
                if rc2 != 0:
                    lines = [l.strip() for l in o.splitlines() if l.strip().startswith(("violation:", "ANALYSIS-ERROR", "inconclusive:"))]
                    fired[p] = {"exit": rc2, "reports": lines[:6]}
    finally:
        sh("git -C /repo worktree remove --force %s" % wt2)
        shutil.rmtree(wt2, ignore_errors=True)
    meta["checks_fired"] = fired
    meta["detected_by_own_property"] = pid in fired and fired[pid]["exit"] == 1
    meta["detected_by_any"] = any(v["exit"] == 1 for v in fired.values())
    meta["what_ran"] = ["git worktree add <scratch> HEAD; git apply patch.diff", "demo with change (must fail)",
                        "pytest sempler/test -n 8 with change (must report 104 passed)", "git checkout -- . ; demo without change (must pass)",
                        "scratch worktree of /repo HEAD + git apply patch.diff ; every quick check with --repo <scratch> ; worktree removed"]
    notes = os.path.join(src, "notes.md")
    if os.path.exists(notes):
        meta["needs_to_manifest"] = open(notes).read()[:3000]
    print(json.dumps({k: v for k, v in meta.items() if k not in ("needs_to_manifest", "demo_output_with_change")}, indent=1))
    if ok:
        dst = os.path.join(VERIF, "seeded", name)
        os.makedirs(dst, exist_ok=True)
        shutil.copy(patch, os.path.join(dst, "patch.diff"))
        shutil.copy(demo_orig, os.path.join(dst, "demo.py"))
        if os.path.exists(notes):
            shutil.copy(notes, os.path.join(dst, "notes.md"))
        with open(os.path.join(dst, "meta.json"), "w") as f:
            json.dump(meta, f, indent=1)
    return 0 if ok else 1


if __name__ == "__main__":
    sys.exit(main())
