#!/usr/bin/env python3
"""Every stored seeded change, re-spelled: the patch is applied to a scratch copy of /repo's tracked sources, then the whole-tree
spelling transforms of the self-validation catalogue (small idioms, flipped comparisons, logic spellings, local aliases, method,
statement, constructor, literal, arithmetic and import spellings) are applied on top, and the seed's own property is checked.
A seeded defect must not become a PASS because it is written differently: the run fails (exit 1) if any seed that is reported on
the plain patch (exit 1 or 2) is accepted (exit 0) on the re-spelled one.  Nothing is written to /verif or /repo.

    tools/recheck_seeds_transformed.py [--jobs 16] [name ...]
"""
import ast
import glob
import json
import os
import shutil
import subprocess
import sys
import tempfile
from concurrent.futures import ProcessPoolExecutor

VERIF = os.path.dirname(os.path.dirname(os.path.abspath(__file__)))
sys.path.insert(0, VERIF)
PY = "/venv/bin/python"
REPO = os.environ.get("SVERIF_REPO_SRC", "/repo")
TRANSFORMS = ["@small_idioms", "@flip_comparisons", "@logic_spellings", "@local_aliases", "@method_spellings", "@statement_spellings", "@np_constructors",
              "@literal_spellings", "@arith_spellings", "@import_styles"]


def sh(cmd, cwd=None):
    p = subprocess.run(cmd, shell=True, cwd=cwd, capture_output=True, text=True)
    return p.returncode, p.stdout + p.stderr


def one(d):
    from sverif import selftest as st
    name = os.path.basename(d)
    meta = json.load(open(os.path.join(d, "meta.json")))
    pid = meta["property"]
    wt = tempfile.mkdtemp(prefix="seedtr_")
    try:
        rc, out = sh("git -C %s archive HEAD sempler drf | tar -x -C %s" % (REPO, wt))
        if rc:
            return name, pid, None, None, "archive failed"
        rc, out = sh("git apply %s" % os.path.join(d, "patch.diff"), cwd=wt)
        if rc:
            return name, pid, None, None, "patch does not apply"
        rc0, _ = sh("%s -m sverif %s --tier quick --no-write --repo %s" % (PY, pid, wt), cwd=VERIF)
        skipped = []
        for t in TRANSFORMS:
            srcs = {}
            for pkg in ("sempler",):
                for fn in os.listdir(os.path.join(wt, pkg)):
                    if fn.endswith(".py"):
                        pth = os.path.join(wt, pkg, fn)
                        srcs[pth] = ast.parse(open(pth).read())
            try:
                st.TREE_TRANSFORMS[t](srcs)
                texts = {}
                for pth, tree in srcs.items():
                    ast.fix_missing_locations(tree)
                    texts[pth] = ast.unparse(tree) + "\n"
                    compile(texts[pth], pth, "exec")
            except Exception as e:
                skipped.append("%s (%s)" % (t, type(e).__name__))
                continue
            for pth, txt in texts.items():
                open(pth, "w").write(txt)
        rc1, o = sh("%s -m sverif %s --tier quick --no-write --repo %s" % (PY, pid, wt), cwd=VERIF)
        lines = [l.strip()[:200] for l in o.splitlines() if l.strip().startswith(("violation:", "ANALYSIS-ERROR", "inconclusive:"))]
        return name, pid, rc0, rc1, "; ".join(skipped) + (" | " + lines[0] if lines else "")
    finally:
        shutil.rmtree(wt, ignore_errors=True)


def main():
    args = [a for a in sys.argv[1:] if not a.startswith("--")]
    jobs = 16
    if "--jobs" in sys.argv:
        jobs = int(sys.argv[sys.argv.index("--jobs") + 1])
        args = [a for a in args if a != str(jobs)]
    dirs = sorted(glob.glob(os.path.join(VERIF, "seeded", "*")))
    dirs = [d for d in dirs if os.path.exists(os.path.join(d, "meta.json")) and (not args or os.path.basename(d) in args)]
    tally = {}
    lost = []
    with ProcessPoolExecutor(max_workers=jobs) as ex:
        for name, pid, rc0, rc1, note in ex.map(one, dirs):
            tally[(rc0, rc1)] = tally.get((rc0, rc1), 0) + 1
            flag = ""
            if rc0 in (1, 2) and rc1 == 0:
                lost.append(name)
                flag = "  <-- ACCEPTED AFTER RE-SPELLING"
            if rc0 != rc1 or flag:
                print("%-14s %s plain=%s respelled=%s %s%s" % (name, pid, rc0, rc1, note[:160], flag))
    print("plain -> re-spelled exit codes:", {"%s->%s" % k: v for k, v in sorted(tally.items(), key=str)})
    print("seeds accepted after re-spelling: %d %s" % (len(lost), lost))
    sys.exit(1 if lost else 0)


if __name__ == "__main__":
    main()
