#!/usr/bin/env python3
"""Intake of a behaviour-preserving refactoring produced by an independent sub-agent (the false-alarm side of the evaluation).

    tools/refactor_intake.py <property id> <dir with patch.diff + equiv.py [+ notes.md]> <name>

1. confirms, in a fresh scratch worktree of /repo (outside /repo and /verif, removed afterwards): the patch applies, the
   existing suite still passes with it (104 tests) and the agent's differential test `equiv.py` (changed code against a
   pristine copy of the package) exits 0 with it;
2. runs every registered quick check on a scratch copy with the patch applied and records the exit codes: 0 is the wanted
   outcome, 2 an honest "idiom not read", 1 a false alarm to be fixed in the machinery;
3. stores patch, equiv.py, notes and meta.json under /verif/refactors/<name>/ when (1) holds.
"""
import json
import os
import shutil
import subprocess
import sys
import tempfile

VERIF = os.path.dirname(os.path.dirname(os.path.abspath(__file__)))
PY = "/venv/bin/python"
FAKE = "/root/sempler_probes/fake_rpy2"


def sh(cmd, cwd=None, env=None, timeout=1800):
    p = subprocess.run(cmd, shell=True, cwd=cwd, env=env, capture_output=True, text=True, timeout=timeout)
    return p.returncode, (p.stdout + p.stderr)


def run_checks(patch):
    wt = tempfile.mkdtemp(prefix="refchk_")
    fired = {}
    try:
        rc, out = sh("git -C /repo archive HEAD sempler drf | tar -x -C %s" % wt)
        rc, out = sh("git apply %s" % patch, cwd=wt)
        if rc:
            return None
        man = json.load(open(os.path.join(VERIF, "MANIFEST.json")))
        for c in man["checks"]:
            p = c["property_id"]
            rc2, o = sh("%s -m sverif %s --tier quick --no-write --repo %s" % (PY, p, wt), cwd=VERIF)
            if rc2 != 0:
                lines = [l.strip() for l in o.splitlines() if l.strip().startswith(("violation:", "ANALYSIS-ERROR", "inconclusive:"))]
                fired[p] = {"exit": rc2, "reports": lines[:6]}
    finally:
        shutil.rmtree(wt, ignore_errors=True)
    return fired


def main():
    pid, src, name = sys.argv[1:4]
    patch = os.path.join(src, "patch.diff")
    equiv = os.path.join(src, "equiv.py")
    if not (os.path.exists(patch) and os.path.exists(equiv)):
        print("missing patch.diff / equiv.py in", src)
        return 2
    meta = {"name": name, "property": pid, "source": "independent sub-agent asked for a behaviour-preserving refactoring, given only the property text and a scratch worktree"}
    wt = tempfile.mkdtemp(prefix="refwt_")
    os.rmdir(wt)
    rc, out = sh("git -C /repo worktree add -q --detach %s HEAD" % wt)
    if rc:
        print(out)
        return 2
    try:
        env = dict(os.environ, PYTHONPATH=("%s:%s" % (wt, FAKE)) if pid == "C19" else wt)
        # pristine copy for the differential test, where the agent's script expects it: the agent's own `orig` directory when it is there (it may hold
        # more than the package copy: a package root with symlinks, a copy of drf/), otherwise a fresh copy of the package
        refdir = os.path.basename(os.path.dirname(os.path.normpath(src)))            # _refactor / _refactor2
        agent_orig = os.path.join(os.path.dirname(os.path.normpath(src)), "orig")
        os.makedirs(os.path.join(wt, refdir), exist_ok=True)
        if os.path.isdir(agent_orig):
            shutil.copytree(agent_orig, os.path.join(wt, refdir, "orig"), symlinks=True)
        else:
            os.makedirs(os.path.join(wt, refdir, "orig"), exist_ok=True)
            shutil.copytree(os.path.join(wt, "sempler"), os.path.join(wt, refdir, "orig", "sempler_orig_pkg"))
        # whatever else the agent keeps next to its per-change directories (a shared harness module, a stub package)
        parent_ = os.path.dirname(os.path.normpath(src))
        shared = []
        for e_ in sorted(os.listdir(parent_)):
            pe_ = os.path.join(parent_, e_)
            if e_ == "orig" or e_.isdigit() or e_ == "__pycache__":
                continue
            if os.path.isdir(pe_):
                shutil.copytree(pe_, os.path.join(wt, refdir, e_), symlinks=True, ignore=shutil.ignore_patterns("*.pkl", "__pycache__", "*.log"))
                shared.append(e_)
            elif os.path.isfile(pe_) and os.path.getsize(pe_) < 200000:
                shutil.copy(pe_, os.path.join(wt, refdir, e_))
                shared.append(e_)
        # symbolic links of the agent's pristine copy that point into the agent's worktree point into this one
        for root_, dirs_, files_ in os.walk(os.path.join(wt, refdir)):
            for nm_ in dirs_ + files_:
                pth_ = os.path.join(root_, nm_)
                if os.path.islink(pth_) and os.readlink(pth_).startswith("/tmp/wt_%s" % pid):
                    tgt_ = os.readlink(pth_).replace("/tmp/wt_%s" % pid, wt, 1)
                    os.unlink(pth_)
                    os.symlink(tgt_, pth_)
        rc, out = sh("git -C %s apply --check %s && git -C %s apply %s" % (wt, patch, wt, patch))
        meta["applies"] = rc == 0
        if rc:
            print("patch does not apply:", out)
            return 2
        k = os.path.basename(os.path.normpath(src))
        # the agent's directory for this change (helper modules next to equiv.py included), with its absolute paths pointed at the scratch worktree
        shutil.copytree(src, os.path.join(wt, refdir, k), symlinks=True, ignore=shutil.ignore_patterns("*.pkl", "__pycache__", "*.log"))
        for root_, _, files_ in os.walk(os.path.join(wt, refdir)):
            for fn_ in files_:
                if fn_.endswith(".py") and not os.path.islink(os.path.join(root_, fn_)) and "sempler_orig_pkg" not in root_:
                    pth_ = os.path.join(root_, fn_)
                    t_ = open(pth_).read()
                    if "/tmp/wt_%s" % pid in t_:
                        with open(pth_, "w") as fh:
                            fh.write(t_.replace("/tmp/wt_%s" % pid, wt))
        run = os.path.join(wt, refdir, k, "equiv.py")
        rc_e, out_e = sh("%s %s" % (PY, run), cwd=wt, env=env, timeout=1800)
        meta["equivalence_test_passes"] = rc_e == 0
        meta["equivalence_output"] = out_e[-500:]
        rc_s, out_s = sh("%s -m pytest sempler/test -q -p no:cacheprovider -n 8 --timeout=900 --continue-on-collection-errors" % PY, cwd=wt, env=env)
        tail = out_s.strip().splitlines()[-1] if out_s.strip() else ""
        meta["suite_with_change"] = tail
        meta["suite_passes_with_change"] = ("104 passed" in tail or "105 passed" in tail) and "failed" not in tail
    finally:
        sh("git -C /repo worktree remove --force %s" % wt)
        shutil.rmtree(wt, ignore_errors=True)
    meta["confirmed"] = bool(meta["equivalence_test_passes"] and meta["suite_passes_with_change"])
    fired = run_checks(patch)
    meta["checks_not_passing"] = fired
    meta["accepted_by_all_checks"] = fired == {}
    meta["false_alarms"] = sorted(p for p, v in (fired or {}).items() if v["exit"] == 1)
    meta["inconclusive"] = sorted(p for p, v in (fired or {}).items() if v["exit"] == 2)
    print(json.dumps(meta, indent=1))
    if meta["confirmed"]:
        dst = os.path.join(VERIF, "refactors", name)
        os.makedirs(dst, exist_ok=True)
        shutil.copy(patch, os.path.join(dst, "patch.diff"))
        shutil.copy(equiv, os.path.join(dst, "equiv.py"))
        if os.path.exists(os.path.join(src, "notes.md")):
            shutil.copy(os.path.join(src, "notes.md"), os.path.join(dst, "notes.md"))
        for e_ in shared:
            pe_ = os.path.join(parent_, e_)
            if os.path.isfile(pe_) and e_.endswith(".py"):
                os.makedirs(os.path.join(dst, "shared"), exist_ok=True)
                shutil.copy(pe_, os.path.join(dst, "shared", e_))
        with open(os.path.join(dst, "meta.json"), "w") as f:
            json.dump(meta, f, indent=1)
    return 0 if meta["confirmed"] else 1


if __name__ == "__main__":
    sys.exit(main())
