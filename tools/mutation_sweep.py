"""Operator-mutation sweep: every single-token mutant (comparison / boolean / set operators, sibling helpers, 0 <-> 1, True <-> False, swapped indices, dropped `not` / `.copy()`)
of the named functions is run against one check on a scratch copy; prints each mutant with the check's exit status.  Exit-0 mutants are to be triaged by hand: equivalent, or a gap.

    tools/mutation_sweep.py <property> <file relative to /repo> <function> [<function> ...]
"""
import re, os, subprocess, sys, shutil, json
from concurrent.futures import ThreadPoolExecutor
FILE = sys.argv[2]
src = open('/repo/' + FILE).read().split('\n')
def frange(name):
    start = 0
    if '.' in name:
        cls, name = name.split('.', 1)
        start = next(i for i, l in enumerate(src) if l.startswith('class %s' % cls))
    s = next(i for i,l in enumerate(src) if i >= start and l.lstrip().startswith('def %s(' % name))
    ind = len(src[s]) - len(src[s].lstrip())
    e = next((i for i in range(s+1, len(src)) if src[i].strip() and not src[i].lstrip().startswith('#') and len(src[i]) - len(src[i].lstrip()) <= ind and not src[i].lstrip().startswith(')')), len(src))
    return s, e
funcs = sys.argv[3:]
SWAPS = [(r' == ', ' != '), (r' != ', ' == '), (r' <= ', ' < '), (r' < ', ' <= '), (r' >= ', ' > '), (r' > ', ' >= '), (r' and ', ' or '), (r' or ', ' and '),
         (r'\bch\(', 'pa('), (r'\bpa\(', 'ch('), (r'\bneighbors\(', 'adj('), (r'\badj\(', 'neighbors('), (r' & ', ' | '), (r' \| ', ' & '), (r' - \{', ' | {'),
         (r'= 0$', '= 1'), (r'= 1$', '= 0'), (r'\bTrue\b', 'False'), (r'\bFalse\b', 'True'), (r'\bnot ', ''), (r'>= 2', '>= 1'), (r'>= 2', '>= 3'), (r'\bi, j\b', 'j, i'), (r'\[j, i\]', '[i, j]'), (r'\[i, j\]', '[j, i]'),
         (r'np\.all\(', 'np.any('), (r'axis=0', 'axis=1'), (r'axis=1', 'axis=0'), (r'\[:, (\w+)\]', r'[\1, :]'), (r'\[(\w+), :\]', r'[:, \1]'), (r'\.T\b', ''), (r' \+ ', ' - '), (r' - ', ' + '), (r' \* ', ' / '), (r' / ', ' * '),
         (r'\bmin\(', 'max('), (r'\bmax\(', 'min('), (r'sorted\(', 'list('), (r', replace=False', ''), (r' \+ 1\b', ''), (r' - 1\b', ''), (r'\*\*0\.5', ''), (r'k=1', 'k=0'), (r'\.all\(\)', '.any()'), (r'\.any\(\)', '.all()'), (r'i \+= 1', 'i += 2'), (r'i = 0$', 'i = 1'), (r'> 0', '> 1'), (r'\.copy\(\)', '')]
muts = []
for fn in funcs:
    s, e = frange(fn)
    indoc = False
    for ln in range(s+1, e):
        l = src[ln]
        if '"""' in l:
            if l.count('"""') == 1: indoc = not indoc
            continue
        if indoc or l.strip().startswith('#') or 'print(' in l or not l.strip(): continue
        for pat, rep in SWAPS:
            for m in re.finditer(pat, l):
                nl = l[:m.start()] + re.sub(pat, rep, l[m.start():m.end()], count=1) + l[m.end():]
                if nl != l: muts.append((fn, ln, l.strip(), nl.strip(), nl))
pid = sys.argv[1]
def run(k):
    fn, ln, old, new, nl = muts[k]
    d = '/tmp/mut/w%d' % k
    shutil.rmtree(d, ignore_errors=True); os.makedirs(d + '/sempler'); 
    subprocess.run('git -C /repo archive HEAD sempler drf | tar -x -C %s' % d, shell=True)
    t = list(src); t[ln] = nl
    open(d + '/' + FILE, 'w').write('\n'.join(t))
    try:
        compile('\n'.join(t), 'u', 'exec')
    except SyntaxError:
        shutil.rmtree(d); return (k, 'syntax')
    r = subprocess.run('/venv/bin/python -m sverif %s --tier quick --no-write --repo %s' % (pid, d), shell=True, cwd='/verif', capture_output=True, text=True)
    shutil.rmtree(d)
    return (k, r.returncode)
with ThreadPoolExecutor(12) as ex:
    res = list(ex.map(run, range(len(muts))))
cnt = {}
for k, rc in res:
    cnt[rc] = cnt.get(rc, 0) + 1
    if True:
        fn, ln, old, new, nl = muts[k]
        print('rc=%s %s:%d  %s   ->   %s' % (rc, fn, ln+1, old[:70], new[:70]))
print(cnt)
