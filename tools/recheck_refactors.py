#!/usr/bin/env python3
"""Re-run every registered quick check against every stored behaviour-preserving refactoring (/verif/refactors/*/patch.diff) and refresh
`checks_not_passing` / `accepted_by_all_checks` / `false_alarms` / `inconclusive` in its meta.json.  Each refactoring gets a scratch copy of
/repo's tracked sources (outside /repo and /verif, removed afterwards) with the patch applied; /repo itself is never touched.

    tools/recheck_refactors.py [--jobs 16] [name ...]

Exit 1 if any check reports a violation (exit 1) on a refactoring: that is a false alarm to be fixed in the machinery.
"""
import glob
import json
import os
import shutil
import subprocess
import sys
import tempfile
from concurrent.futures import ThreadPoolExecutor

VERIF = os.path.dirname(os.path.dirname(os.path.abspath(__file__)))
PY = "/venv/bin/python"
REPO = os.environ.get("SVERIF_REPO_SRC", "/repo")


def sh(cmd, cwd=None):
    p = subprocess.run(cmd, shell=True, cwd=cwd, capture_output=True, text=True)
    return p.returncode, p.stdout + p.stderr


def one(d):
    name = os.path.basename(d)
    meta_p = os.path.join(d, "meta.json")
    meta = json.load(open(meta_p))
    wt = tempfile.mkdtemp(prefix="refchk_")
    try:
        rc, out = sh("git -C %s archive HEAD sempler drf | tar -x -C %s" % (REPO, wt))
        if rc:
            return name, "archive failed: " + out
        rc, out = sh("git apply %s" % os.path.join(d, "patch.diff"), cwd=wt)
        if rc:
            return name, "patch does not apply: " + out[:200]
        man = json.load(open(os.path.join(VERIF, "MANIFEST.json")))
        fired = {}
        for c in man["checks"]:
            p = c["property_id"]
            rc2, o = sh("%s -m sverif %s --tier quick --no-write --repo %s" % (PY, p, wt), cwd=VERIF)
            if rc2 != 0:
                lines = [l.strip() for l in o.splitlines() if l.strip().startswith(("violation:", "ANALYSIS-ERROR", "inconclusive:"))]
                fired[p] = {"exit": rc2, "reports": lines[:6]}
    finally:
        shutil.rmtree(wt, ignore_errors=True)
    meta["checks_not_passing"] = fired
    meta["accepted_by_all_checks"] = fired == {}
    meta["false_alarms"] = sorted(p for p, v in fired.items() if v["exit"] == 1)
    meta["inconclusive"] = sorted(p for p, v in fired.items() if v["exit"] == 2)
    with open(meta_p, "w") as f:
        json.dump(meta, f, indent=1)
    return name, "accepted" if not fired else ("FALSE ALARM " + ",".join(meta["false_alarms"]) if meta["false_alarms"] else "not read (exit 2): " + ",".join(meta["inconclusive"]))


def main():
    args = [a for a in sys.argv[1:] if not a.startswith("--")]
    jobs = 16
    if "--jobs" in sys.argv:
        jobs = int(sys.argv[sys.argv.index("--jobs") + 1])
        args = [a for a in args if a != str(jobs)]
    dirs = sorted(d for d in glob.glob(os.path.join(VERIF, "refactors", "*")) if os.path.exists(os.path.join(d, "patch.diff")) and (not args or os.path.basename(d) in args))
    bad = 0
    with ThreadPoolExecutor(jobs) as ex:
        for name, res in ex.map(one, dirs):
            print("%-12s %s" % (name, res))
            bad += res.startswith("FALSE ALARM")
    return 1 if bad else 0


if __name__ == "__main__":
    sys.exit(main())
