#!/usr/bin/env python3
"""Regenerate /verif/MANIFEST.json from the table below (kept in one place so that the
claims, their notes and the not_applicable list stay consistent)."""
import json, os, subprocess, sys

HERE = os.path.dirname(os.path.dirname(os.path.abspath(__file__)))
PY = "/venv/bin/python"

CLAIMS = {}      # filled from sverif/props/claims.py
sys.path.insert(0, HERE)
from sverif.props.claims import CLAIMS, NOT_APPLICABLE   # noqa

def main():
    fixes = subprocess.run(["git", "-C", "/repo", "log", "--format=%H %s", "44edaa8..HEAD"], capture_output=True, text=True).stdout.split("\n")
    fix_commits = [l.split()[0] for l in fixes if l.strip() and l.split(" ", 1)[1].startswith("fix:")]
    checks = []
    for pid in sorted(CLAIMS):
        c = CLAIMS[pid]
        if not os.path.exists(os.path.join(HERE, "sverif", "props", pid + ".py")):
            continue
        checks.append({
            "property_id": pid,
            "quick_cmd": "%s -m sverif %s --tier quick" % (PY, pid),
            "thorough_cmd": "%s -m sverif %s --tier thorough" % (PY, pid),
            "evidence_file": "evidence/%s.json" % pid,
            "replay_cmd_template": "%s -m sverif %s --replay {path}" % (PY, pid),
            "engine": "sverif",
            "level_claimed": {"category": "other", "text": c["text"], "design_ref": c.get("design_ref", "DESIGN.md §4 " + pid)},
            "level_note": c["note"],
            "technique": c["technique"],
        })
    claimed = {c["property_id"] for c in checks}
    na = [{"property_id": k, "reason": v} for k, v in sorted(NOT_APPLICABLE.items())]
    for pid in sorted(CLAIMS):
        if pid not in claimed:
            na.append({"property_id": pid, "reason": "check not built yet in this revision (static rule set designed in DESIGN.md §4, not yet implemented)"})
    m = {
        "version": 1,
        "setup_cmd": "true",
        "hooks": {"guard": "SEMPLER_VERIF_UNUSED", "enable": "no hooks: the checks analyse /repo's source text only and never import or build it",
                  "baseline_off_cmd": "cd /repo && /venv/bin/python -m pytest -ra -q -p no:cacheprovider --timeout=900 --continue-on-collection-errors",
                  "source_commits": fix_commits, "add_only": True},
        "engines": [{"name": "sverif", "path": "sverif/", "serves_properties": sorted(claimed),
                     "kind_free_text": "repository-specific static analyser: AST abstract interpreter (zero-pattern taint, ownership/alias, RNG effects), symbolic value numbering with polynomial / matrix normal forms, pointwise sign-domain tables; stdlib only"}],
        "checks": checks,
        "not_applicable": sorted(na, key=lambda d: d["property_id"]),
        "notes": "All checks are static (source of /repo's working tree parsed with ast; nothing imported or executed). exit 0 pass, exit 1 + VIOLATION line, exit 2 + ANALYSIS-ERROR when the analysed slice leaves the modelled fragment or an anchor vanished. Level 'other' = sound structural necessary conditions decided exhaustively over the source, not behaviour; each level_note lists the decided and undecided clauses. Genuine defects found and repaired: see known_findings.json ('fixed' entries) and DESIGN.md §5.",
    }
    with open(os.path.join(HERE, "MANIFEST.json"), "w") as f:
        json.dump(m, f, indent=1)
    print("MANIFEST.json: %d checks, %d not_applicable" % (len(checks), len(na)))

main()
