#!/usr/bin/env python3
"""Print the markdown table 'which check catches which seeded change' from /verif/seeded/*/meta.json"""
import glob, json, os, re
HERE = os.path.dirname(os.path.dirname(os.path.abspath(__file__)))
rows = []
for f in sorted(glob.glob(os.path.join(HERE, "seeded", "*", "meta.json"))):
    m = json.load(open(f))
    name = m["seed"]
    fired = m.get("checks_fired", {})
    v = []
    for p, d in sorted(fired.items()):
        rules = sorted({m_ for r in d["reports"] for m_ in re.findall(r"\[([A-Z][A-Za-z0-9]*(?:\.[A-Za-z0-9_\-.]+)?)\]", r) if len(m_) > 1 and (m_.isupper() or "." in m_)})
        v.append("%s%s: %s" % (p, "" if d["exit"] == 1 else " (inconclusive)", ", ".join(rules[:3]) or "-"))
    first = ""
    notes = m.get("needs_to_manifest", "")
    patch = open(os.path.join(os.path.dirname(f), "patch.diff")).read()
    files = sorted(set(re.findall(r"^\+\+\+ b/(\S+)", patch, re.M)))
    rows.append("| %s | %s | %s | %s |" % (name, ", ".join(files), "yes" if m.get("detected_by_own_property") else ("other property" if m.get("detected_by_any") else "**no**"), "; ".join(v) or "-"))
print("| seed | files touched | caught by its own property's check | checks that report it (rules) |")
print("|---|---|---|---|")
print("\n".join(rows))
