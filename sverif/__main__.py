"""CLI:  python -m sverif <property id> [--tier quick|thorough] [--replay path]

exit 0  every rule instance of the property passed on /repo's current working tree
exit 1  VIOLATION property=<id> replay=<path>   (a violation not listed in known_findings.json)
exit 2  ANALYSIS-ERROR  (inconclusive: unmodelled construct on a relevant slice, vanished anchor, crash)
"""
import argparse
import importlib
import json
import os
import sys
import traceback

from .loader import Program, Inconclusive, AnchorMissing, repo_root
from .report import Report, analysis_error

PROPS = ["C%02d" % i for i in range(1, 21)]


def run_property(pid, tier, write=True, root=None):
    rep = Report(pid, tier)
    try:
        prog = Program(root)
    except Inconclusive as e:
        analysis_error(pid, "cannot load repository: %s" % e)
        return 2, rep
    except SyntaxError as e:
        analysis_error(pid, "repository does not parse: %s" % e)
        return 2, rep
    try:
        mod = importlib.import_module("sverif.props.%s" % pid)
    except ModuleNotFoundError:
        analysis_error(pid, "no check registered for this property")
        return 2, rep
    from . import shape as _shape
    rep.shape_gate = _shape.Gate(prog).changed
    from . import core as _core
    from . import sym as _sym
    _sym.OPAQUE_GENERATORS.clear()
    del _core.ALL_INTERPS[:]
    _core.DECORATED_ENTRIES.clear()
    _core.CALL_FORM[:] = [None, False]

    def one_form():
        run_stepwise(mod, prog, rep, tier)
    try:
        one_form()
        # entry points behind decorators: a wrapper that re-packs *args / **kwargs can treat positional and keyword arguments
        # differently, so the whole check is repeated for every way of passing the arguments (first k by position, the others by
        # keyword, in signature order and reversed); verdicts accumulate in the same report
        if _core.DECORATED_ENTRIES:
            nmax = max(_core.DECORATED_ENTRIES.values())
            forms = [(k, rev) for k in range(nmax - 1, -1, -1) for rev in (False, True) if not (rev and nmax - k < 2)]
            rep.analysed["decorated_entry_points"] = sorted(_core.DECORATED_ENTRIES)
            rep.analysed["call_forms"] = 1 + len(forms)
            for k, rev in forms:
                _core.CALL_FORM[:] = [k, rev]
                rep.form = "called with the first %d argument(s) by position and the others by keyword%s" % (k, " (reverse order)" if rev else "")
                one_form()
            rep.form = None
            _core.CALL_FORM[:] = [None, False]
            from .props.common import decorator_slots
            decorator_slots(rep, prog, _core.ALL_INTERPS)
    except Exception:
        traceback.print_exc()
        analysis_error(pid, "checker crashed: see traceback")
        return 2, rep
    finally:
        _core.CALL_FORM[:] = [None, False]
    if tier == "thorough":
        try:
            from . import selftest, sweeps
            res = selftest.run_catalogue(pid)
            summ = selftest.summarise(res)
            summ["variants"] = [{"id": r["id"], "expect": r["expect"], "outcome": r["outcome"], "fired": r.get("fired")} for r in res]
            rep.selftest = summ
            base_clean = not any(i.verdict != "PASS" for i in rep.instances)
            if summ["failed"] and base_clean:
                for vid in summ["failed"]:
                    rep.unk("SELFTEST", {"file": "sverif/catalogue.py", "line": 0, "function": "-", "construct": vid},
                            "checker self-validation failed on variant %s: the rule set does not behave as documented" % vid)
            # rewrites that keep another property intact keep this one intact as well: no alarm on any of them
            cross = selftest.run_cross(pid)
            alarms = [r["id"] for r in cross if r["outcome"] == "FAILED"]
            summ["cross_silent"] = {"applied": sum(1 for r in cross if r["outcome"] != "skipped"), "alarms": alarms,
                                    "inconclusive": [r["id"] for r in cross if r.get("code") == 2]}
            for vid in alarms:
                if base_clean:
                    rep.unk("SELFTEST", {"file": "sverif/catalogue.py", "line": 0, "function": "-", "construct": vid},
                            "false alarm: the behaviour-preserving variant %s (written for another property) makes this check report a violation" % vid)
            # detection regression: every stored seeded change that this property's check caught must still be caught
            try:
                lost, n_seed = seed_regression(pid, prog.root)
                rep.analysed["seeded_changes_rechecked"] = n_seed
                for name in lost:
                    if base_clean:
                        rep.unk("SELFTEST", {"file": "seeded/%s/patch.diff" % name, "line": 0, "function": "-", "construct": name},
                                "the stored seeded change %s is no longer reported by this check" % name)
            except Exception as e:      # never let the self-validation harness decide the property
                rep.notes.append("seed regression not run: %s" % e)
            for note in sweeps.run(prog, pid):
                rep.notes.append(note)
                print("  NOTE " + note)
        except Inconclusive as e:
            rep.unk("SELFTEST", {"file": "-", "line": 0, "function": "-", "construct": "catalogue"}, "self-validation could not run: %s" % e.why)
    # a generator of the repository whose object ended up inside a term was consumed by something the engine does not read as a loop (zip with a
    # range, list(...) of it, next(...)): what it yields, draws and raises was not seen. Rules that then found something missing decided from an
    # incomplete picture: their verdicts are withdrawn, the run is undecided
    for m__ in prog.modules.values():
        for fn_, ln_, p_ in getattr(m__, "domain_assumed", ()):
            rep.assume("%s:%d %s: the parameter %s is a square two-dimensional numpy array (a test of its shape / type alone is read as the branch taken on that domain)"
                       % (m__.relpath, ln_, fn_, p_))
    if _sym.OPAQUE_GENERATORS:
        from .report import VIOLATION, INCONCLUSIVE
        for g_ in sorted(_sym.OPAQUE_GENERATORS):
            gf = prog.funcs.get(g_)
            rep.unk("GENERATOR.consumed", {"file": gf.module.relpath if gf else "-", "line": gf.node.lineno if gf else 0, "function": g_, "construct": "def " + g_.rsplit(".", 1)[-1]},
                    "the generator %s is consumed in a way that is not read as a loop: what it yields, draws and raises is not part of the analysis" % g_)
        for i_ in rep.instances:
            if i_.verdict == VIOLATION:
                i_.verdict = INCONCLUSIVE
                i_.msg = "(not decided: a generator of the repository was consumed unread) " + i_.msg
    # unmodelled constructs matter only where the check looked: inside the functions it analysed, or at module level of a
    # module one of them lives in (star imports, decorated definitions it resolved names through)
    visited, decorated_ok = set(), set()
    for it in _core.ALL_INTERPS:
        visited |= set(it.visited_funcs)
        decorated_ok |= set(it.decorated_ok)
    try:
        from .props.common import python_traps, dtype_store_sweep, input_assertions, index_truthiness
        linted = set(visited)
        for it in _core.ALL_INTERPS:
            linted |= set(getattr(it, "fused_funcs", ()))
        python_traps(rep, prog, linted)
        input_assertions(rep, prog, linted)
        index_truthiness(rep, prog, linted)
        dtype_store_sweep(rep, prog, _core.ALL_INTERPS)
    except Exception:
        traceback.print_exc()
        analysis_error(pid, "checker crashed: see traceback")
        return 2, rep
    vmods = {q.rsplit(".", 2)[0] if q.rsplit(".", 1)[0] not in prog.modules else q.rsplit(".", 1)[0] for q in visited}
    forb = []
    for m in prog.modules.values():
        if m.name in ("sempler.plot",):
            continue
        for ln, what, owner in m.forbidden_in:
            if what.startswith("decorator @") and owner in decorated_ok:
                continue        # the decorator was applied by evaluating it: the check analysed the function through its wrapper
            if owner is not None and owner.endswith(".*"):
                if any(v.startswith(owner[:-1]) for v in visited):
                    forb.append((m.relpath, ln, what))
                continue
            if (owner is not None and owner in visited) or (owner is None and m.name in vmods and what == "star import"):
                forb.append((m.relpath, ln, what))
    for rel, ln, what, affected in prog.rebinds:
        if any(v == affected or v.startswith(affected + ".") for v in visited):
            forb.append((rel, ln, what + " (the analysed function is not what its name refers to at run time)"))
    for rel, ln, what in forb:
        rep.unk("DYNAMIC-FEATURE", {"file": rel, "line": ln, "function": "-", "construct": what},
                "construct outside the modelled Python subset")
    info = dict(prog.stats(), repo=prog.root, files=prog.digest())
    code = rep.finish(info, getattr(mod, "EXPLANATION", mod.__doc__ or pid), write=write)
    return code, rep


def run_stepwise(mod, prog, rep, tier):
    """Execute `mod.run(prog, rep, tier)` one top-level statement at a time.  A rule group that leaves the modelled fragment
    (Inconclusive) is recorded as such and the *other* rule groups still run: an unreadable idiom in one place must not hide a
    violation that an independent rule can decide (the verdict is still at best "inconclusive" unless such a violation is found)."""
    import ast
    import inspect
    import textwrap
    try:
        src = inspect.getsource(mod.run)
        fn = ast.parse(textwrap.dedent(src)).body[0]
        first = inspect.getsourcelines(mod.run)[1]
    except (OSError, TypeError, SyntaxError):
        fn = None
    if fn is None or [a.arg for a in fn.args.args] != ["prog", "rep", "tier"]:
        try:
            mod.run(prog, rep, tier)
        except Inconclusive as e:
            w = e.where or {"file": "?", "line": getattr(e.node, "lineno", 0), "function": "?", "construct": str(e.why)[:160]}
            rep.unk("ENGINE", w, "analysis left the modelled fragment: %s" % e.why)
        return
    from .core import Interp

    class _StopRun(Exception):
        pass

    class _Ret(ast.NodeTransformer):
        """`return` inside a compound statement of run(): stop the run"""
        def visit_FunctionDef(self, node):
            return node

        def visit_Lambda(self, node):
            return node

        def visit_Return(self, node):
            return ast.copy_location(ast.Raise(exc=ast.Call(func=ast.Name(id="_StopRun", ctx=ast.Load()), args=[], keywords=[]), cause=None), node)
    ns = dict(vars(mod))
    ns.update(prog=prog, rep=rep, tier=tier, _StopRun=_StopRun)
    poisoned = set()       # variables of run() that an inconclusive step left unset or half-filled
    for st in fn.body:
        if isinstance(st, ast.Return):
            break
        loaded = {x.id for x in ast.walk(st) if isinstance(x, ast.Name) and isinstance(x.ctx, ast.Load)}
        stored = {x.id for x in ast.walk(st) if isinstance(x, ast.Name) and isinstance(x.ctx, ast.Store)}
        if loaded & poisoned:
            # this step reads what an inconclusive step should have produced: it decides nothing (and must not report anything)
            poisoned |= stored
            rep.notes.append("step at line %d skipped: it depends on an inconclusive step (%s)" % (first + st.lineno - 1, ", ".join(sorted(loaded & poisoned))))
            continue
        m = ast.fix_missing_locations(ast.Module(body=[_Ret().visit(st)], type_ignores=[]))
        ast.increment_lineno(m, first - 1)
        try:
            exec(compile(m, getattr(mod, "__file__", "<check>"), "exec"), ns)
        except _StopRun:
            break
        except Inconclusive as e:
            poisoned |= stored
            poisoned |= {x for x in loaded if isinstance(ns.get(x), Interp)}        # an interpreter that stopped half-way
            w = e.where or {"file": "?", "line": getattr(e.node, "lineno", 0), "function": "?", "construct": str(e.why)[:160]}
            rep.unk("ENGINE", w, "analysis left the modelled fragment: %s" % e.why)
            tb = e.__traceback__
            while tb is not None and tb.tb_next is not None:
                tb = tb.tb_next
            if tb is not None and tb.tb_frame.f_code.co_name == "<module>":
                # raised by run() itself ("this is not the structure my rules read"): what follows in run() builds on it
                rep.notes.append("run() stopped at line %d: %s" % (first + st.lineno - 1, e.why))
                break


def seed_regression(pid, root):
    """apply each stored seeded change of this property (seeded/<name>/patch.diff, recorded as caught by this property's check)
    to a scratch copy of the analysed sources and re-run the quick check on it -> (names no longer caught, number applied)"""
    import glob
    import json
    import shutil
    import subprocess
    import tempfile
    from .loader import PACKAGES
    here = os.path.dirname(os.path.dirname(os.path.abspath(__file__)))
    lost, n = [], 0
    for meta_p in sorted(glob.glob(os.path.join(here, "seeded", "*", "meta.json"))):
        meta = json.load(open(meta_p))
        if meta.get("property") != pid or not meta.get("detected_by_own_property"):
            continue
        d = tempfile.mkdtemp(prefix="sverif_seed_")
        try:
            for pkg in PACKAGES:
                shutil.copytree(os.path.join(root, pkg), os.path.join(d, pkg), ignore=shutil.ignore_patterns("__pycache__", "test", "*.pyc"))
            r = subprocess.run(["git", "apply", "--unsafe-paths", os.path.join(os.path.dirname(meta_p), "patch.diff")], cwd=d, capture_output=True, text=True)
            if r.returncode != 0:
                continue            # the repository moved on: the stored patch no longer applies
            n += 1
            import contextlib
            import io
            buf = io.StringIO()
            with contextlib.redirect_stdout(buf), contextlib.redirect_stderr(buf):
                code, _ = run_property(pid, "quick", write=False, root=d)
            if code != 1:
                lost.append(meta["seed"])
        finally:
            shutil.rmtree(d, ignore_errors=True)
    return lost, n


class _SafeOut:
    """stdout that survives a closed pipe (`... | head -1`): the verdict is the exit code, not the text"""

    def __init__(self, f):
        self.f, self.dead = f, False

    def write(self, x):
        if self.dead:
            return len(x)
        try:
            return self.f.write(x)
        except BrokenPipeError:
            self.dead = True
            return len(x)

    def flush(self):
        if not self.dead:
            try:
                self.f.flush()
            except BrokenPipeError:
                self.dead = True

    def __getattr__(self, k):
        return getattr(self.f, k)


def main(argv=None):
    sys.stdout = _SafeOut(sys.stdout)
    ap = argparse.ArgumentParser(prog="sverif")
    ap.add_argument("prop")
    ap.add_argument("--tier", default=os.environ.get("VERIF_TIER", "quick"), choices=["quick", "thorough"])
    ap.add_argument("--replay", default=None)
    ap.add_argument("--repo", default=None)
    ap.add_argument("--no-write", action="store_true")
    a = ap.parse_args(argv)
    if a.replay:
        # re-evaluate exactly the recorded rule instances against the current tree
        with open(a.replay) as f:
            body = json.load(f)
        want = {(v["rule"], v["where"].get("function"), v["where"].get("construct")) for v in body.get("violations", [])}
        code, rep = run_property(body.get("property", a.prop), a.tier, write=False, root=a.repo)
        now = {(i.rule, (i.where or {}).get("function"), (i.where or {}).get("construct")) for i in rep.instances if i.verdict == "VIOLATION"}
        again = want & now
        print("replay: %d of %d recorded violation(s) reproduce on %s" % (len(again), len(want), a.repo or repo_root()))
        for k in sorted(again, key=str):
            print("  reproduces: %s — %s [%s]" % (k[1], k[2], k[0]))
        return 1 if again else 0
    if a.prop == "all":
        worst = 0
        for p in PROPS:
            if not os.path.exists(os.path.join(os.path.dirname(__file__), "props", p + ".py")):
                continue
            c, _ = run_property(p, a.tier, write=not a.no_write, root=a.repo)
            worst = max(worst, c)
        return worst
    code, _ = run_property(a.prop, a.tier, write=not a.no_write, root=a.repo)
    return code


if __name__ == "__main__":
    try:
        rc = main()
    except SystemExit:
        raise
    except Exception:
        traceback.print_exc()
        print("ANALYSIS-ERROR property=? checker crashed")
        rc = 2
    try:
        sys.stdout.flush()
    except Exception:
        pass
    try:
        sys.stdout.close() if getattr(sys.stdout, "dead", False) is False else None
    except Exception:
        pass
    os._exit(rc)
