"""Catalogue of single-edit variants used to validate the checker both ways (DESIGN.md section 6).

Each entry: the property whose check is exercised, the edit (file, exact old text, new text;
the old text must occur exactly once, otherwise the variant is skipped), and the expectation:
'fire' (the check must exit 1, reporting a rule whose name starts with `rule`) or 'silent'
(behaviour-preserving rewrite: the check must still exit 0).
"""
VARIANTS = []
UT = "sempler/utils.py"
LG = "sempler/lganm.py"
AN = "sempler/anm.py"
ND = "sempler/normal_distribution.py"
GE = "sempler/generators.py"
SE = "sempler/semi.py"
NO = "sempler/noise.py"
FU = "sempler/functions.py"
DR = "drf/code.py"


def V(id, prop, expect, rel, old, new, rule=None, what="", more=(), **kw):
    d = dict(id=id, prop=prop, expect=expect, edits=[(rel, old, new)] + list(more), rule=rule, what=what)
    d.update(kw)
    VARIANTS.append(d)


# ------------------------------------------------------------------------------- C03
V("c03-f1-revert", "C03", "fire", UT, "    A = (A != 0).astype(int)\n    # Check that there are no undirected edges", "    # Check that there are no undirected edges",
  rule="PAT", what="revert fix F1: sums of signed weights decide acyclicity")
V("c03-sum-in-kahn", "C03", "fire", UT, "    A = (A != 0).astype(int)\n", "    B = (A != 0).astype(int)\n", rule="PAT",
  what="pattern computed but raw A still used")
V("c03-silent-precheck-upper", "C03", "silent", UT, "    if only_undirected(A).sum() > 0:\n        raise ValueError(\"The given graph is not a DAG\")",
  "    if np.triu(only_undirected(A), k=1).sum() > 0:\n        raise ValueError(\"The given graph is not a DAG\")",
  what="pre-check skips the diagonal, but self-loop entries survive to the entries-left test: still exact")
V("c03-silent-no-precheck", "C03", "silent", UT, "    if only_undirected(A).sum() > 0:\n        raise ValueError(\"The given graph is not a DAG\")\n", "",
  what="no pre-check at all: two-cycles and self-loops are never removed by Kahn's loop and are caught by the entries-left test")
V("c03-count-leftover-selfloops", "C03", "fire", UT, "    if only_undirected(A).sum() > 0:\n        raise ValueError(\"The given graph is not a DAG\")",
  "    if len(undirected_edges(A)) > 0:\n        raise ValueError(\"The given graph is not a DAG\")", rule="CYCLES.self-loop",
  more=[(UT, "    if A.sum() > 0:\n        raise ValueError(\"The given graph is not a DAG\")\n    else:\n        return ordering", "    if len(ordering) < len(A):\n        raise ValueError(\"The given graph is not a DAG\")\n    else:\n        return ordering")],
  what="two harmless-looking refactors together accept self-loops on non-root nodes")
V("c03-silent-count-leftover", "C03", "silent", UT, "    if A.sum() > 0:\n        raise ValueError(\"The given graph is not a DAG\")\n    else:\n        return ordering", "    if len(ordering) < len(A):\n        raise ValueError(\"The given graph is not a DAG\")\n    else:\n        return ordering",
  what="textbook Kahn termination test; the pre-check still covers self-loops and two-cycles")
V("c03-count-leftover-no-precheck", "C03", "fire", UT, "    if only_undirected(A).sum() > 0:\n        raise ValueError(\"The given graph is not a DAG\")\n", "", rule="CYCLES",
  more=[(UT, "    if A.sum() > 0:\n        raise ValueError(\"The given graph is not a DAG\")\n    else:\n        return ordering", "    if len(ordering) != len(A):\n        raise ValueError(\"The given graph is not a DAG\")\n    else:\n        return ordering")],
  what="count-based final test without a pre-check: two-cycles accepted")
V("c03-isdag-typeerror", "C03", "fire", UT, "        topological_ordering(A)\n        return True\n    except ValueError:", "        topological_ordering(A)\n        return True\n    except TypeError:",
  rule="WRAP", what="is_dag no longer handles ValueError")
V("c03-isdag-inverted", "C03", "fire", UT, "        topological_ordering(A)\n        return True\n    except ValueError:\n        return False",
  "        topological_ordering(A)\n        return True\n    except ValueError:\n        return True", rule="WRAP", what="handler returns True")
V("c03-lganm-nogate", "C03", "fire", LG, "        if not utils.is_dag(W):\n            raise ValueError(\"The given graph is not a DAG.\")\n", "", rule="GATE",
  what="LGANM constructor gate dropped")
V("c03-lganm-gate-triu", "C03", "fire", LG, "if not utils.is_dag(W):", "if not utils.is_dag(np.triu(W)):", rule="GATE", what="gate tests another matrix")
V("c03-silent-lganm-gate-late", "C03", "silent", LG, "        if not utils.is_dag(W):\n            raise ValueError(\"The given graph is not a DAG.\")\n        self.W = W.copy()\n",
  "        self.W = W.copy()\n        if not utils.is_dag(W):\n            raise ValueError(\"The given graph is not a DAG.\")\n",
  what="matrix stored before the (unconditional) gate: a constructor that raises leaves no object behind")
V("c03-anm-swallow", "C03", "fire", AN, "        self.ordering = utils.topological_ordering(A)\n",
  "        try:\n            self.ordering = utils.topological_ordering(A)\n        except ValueError:\n            self.ordering = list(range(len(A)))\n",
  rule="GATE.anm", what="ANM swallows the ValueError")
V("c03-semi-gate-typeerror", "C03", "fire", SE, "        elif not sempler.utils.is_dag(graph):\n            raise ValueError(\"graph is not a DAG.\")",
  "        elif not sempler.utils.is_dag(graph):\n            raise TypeError(\"graph is not a DAG.\")", rule="GATE", what="wrong exception type")
V("c03-mec-nogate", "C03", "fire", UT, "    # Check input\n    if not is_dag(A):\n        raise ValueError(\"The given adjacency does not correspond to a DAG.\")\n    if check_chain and is_chain_graph(A):\n        return chain_graph_MEC(len(A))",
  "    # Check input\n    if check_chain and is_chain_graph(A):\n        return chain_graph_MEC(len(A))", rule="GATE.api", what="mec gate dropped")
V("c03-silent-rename", "C03", "silent", UT, "    A = (A != 0).astype(int)\n    # Check that there are no undirected edges\n    if only_undirected(A).sum() > 0:",
  "    pattern = (A != 0).astype(int)\n    A = pattern\n    # Check that there are no undirected edges\n    if 0 < only_undirected(A).sum():", what="temporary + flipped comparison")
V("c03-silent-gate-form", "C03", "silent", LG, "        if not utils.is_dag(W):\n            raise ValueError(\"The given graph is not a DAG.\")",
  "        acyclic = utils.is_dag(W)\n        if acyclic is False:\n            raise ValueError(\"Not a DAG: cycles found.\")",
  what="gate through a temporary, different message")
V("c03-silent-astype-bool", "C03", "silent", UT, "    A = (A != 0).astype(int)\n", "    A = A.astype(bool).astype(int)\n", what="equivalent binarisation")

# ------------------------------------------------------------------------------- C15
V("c15-pa-positive", "C15", "fire", UT, "return set(np.where(np.logical_and(A[:, i] != 0, A[i, :] == 0))[0])", "return set(np.where(np.logical_and(A[:, i] > 0, A[i, :] == 0))[0])",
  rule="PW.relation", what="parents only through positive weights", accept_inconclusive=True)
V("c15-pa-swapped", "C15", "fire", UT, "return set(np.where(np.logical_and(A[:, i] != 0, A[i, :] == 0))[0])", "return set(np.where(np.logical_and(A[i, :] != 0, A[:, i] == 0))[0])",
  rule="PW.relation", what="pa returns children")
V("c15-adj-and", "C15", "fire", UT, "return set(np.where(np.logical_or(A[i, :] != 0, A[:, i] != 0))[0])", "return set(np.where(np.logical_and(A[i, :] != 0, A[:, i] != 0))[0])",
  rule="PW.relation", what="adj = neighbors")
V("c15-na-swapped", "C15", "fire", UT, "return neighbors(y, A) & adj(x, A)", "return neighbors(x, A) & adj(y, A)", rule="PW.relation", what="na arguments swapped")
V("c15-anc-nontransitive", "C15", "fire", UT, "    anc = pa(i, A)\n    for j in pa(i, A):\n        anc |= ancestors(j, A)\n    return anc", "    anc = pa(i, A)\n    for j in pa(i, A):\n        anc |= pa(j, A)\n    return anc",
  rule="REACH", what="ancestors only two levels deep", accept_inconclusive=True)
V("c15-desc-uses-adj", "C15", "fire", UT, "    desc = {i}\n    for j in ch(i, A):\n        desc |= descendants(j, A)", "    desc = {i}\n    for j in adj(i, A):\n        desc |= descendants(j, A)",
  rule="REACH.primitive", what="descendants follows adjacency", accept_inconclusive=True)
V("c15-desc-no-start", "C15", "fire", UT, "    desc = {i}\n    for j in ch(i, A):\n        desc |= descendants(j, A)", "    desc = set()\n    for j in ch(i, A):\n        desc |= descendants(j, A) | {j}",
  rule="REACH.start", what="descendants excludes the start node")
V("c15-anc-with-start", "C15", "fire", UT, "    ancestors = pa(i, A)\n    for j in pa(i, A):", "    ancestors = pa(i, A) | {i}\n    for j in pa(i, A):", rule="REACH.start", what="an includes the node")
V("c15-closure-keeps-self", "C15", "fire", UT, "desc = list(descendants(i, A) - {i})", "desc = list(descendants(i, A))", rule="CLOSURE", what="closure has a diagonal")
V("c15-paths-no-visited", "C15", "fire", UT, "next_to_visit = list(accessible[next_node] - set(visited) - {current_node})", "next_to_visit = list(accessible[next_node] - {current_node})",
  rule="PATHS.step", what="visited nodes not excluded")
V("c15-paths-ch-only", "C15", "fire", UT, "accessible = dict((i, ch(i, A) | neighbors(i, A)) for i in range(len(A)))", "accessible = dict((i, ch(i, A)) for i in range(len(A)))",
  rule="PATHS.successors", what="undirected edges not followed")
V("c15-paths-adj", "C15", "fire", UT, "stack = [(fro, [], list(ch(fro, A) | neighbors(fro, A)))]", "stack = [(fro, [], list(adj(fro, A)))]", rule="PATHS.successors",
  what="start frontier follows edges backwards")
V("c15-sep-guard-partial", "C15", "fire", UT, "if len(A & B) or len(A & S) or len(B & S):", "if len(A & B) or len(A & S):", rule="SEP.guard", what="B∩S not checked")
V("c15-sep-inverted", "C15", "fire", UT, "                if set(path) & S == set():\n                    return False", "                if set(path) & S != set():\n                    return False",
  rule="SEP.outcome", what="separates inverted")
V("c15-cc-adj", "C15", "fire", UT, "to_visit = (to_visit | neighbors(j, A)) - visited", "to_visit = (to_visit | adj(j, A)) - visited", rule="CC.relation", what="chain component through directed edges")
V("c15-silent-sep-guard", "C15", "silent", UT, "if len(A & B) or len(A & S) or len(B & S):", "if len(S & A) > 0 or (B & A) != set() or len(B & S) >= 1:", what="equivalent guard spellings")
V("c15-silent-pa-spelling", "C15", "silent", UT, "return set(np.where(np.logical_and(A[:, i] != 0, A[i, :] == 0))[0])",
  "incoming = A[:, i] != 0\n    outgoing = A[i, :] != 0\n    return set(np.where(incoming & ~outgoing)[0])", what="pa via temporaries and operators")

# ------------------------------------------------------------------------------- C16
V("c16-onlydir-binarised", "C16", "fire", UT, "    mask = np.logical_and(P != 0, P.T == 0)\n    G = np.zeros_like(P)\n    # set to the same values in case P is a weight matrix and there is\n    # interest in maintaining the weights\n    G[mask] = P[mask]",
  "    mask = np.logical_and(P != 0, P.T == 0)\n    G = np.zeros_like(P)\n    G[mask] = 1", rule="PW.table", what="only_directed loses the weights")
V("c16-onlyund-or", "C16", "fire", UT, "mask = np.logical_and(P != 0, P.T != 0)", "mask = np.logical_or(P != 0, P.T != 0)", rule="PW.table", what="only_undirected keeps directed edges too")
V("c16-skeleton-oneway", "C16", "fire", UT, "return ((A + A.T) != 0).astype(int)", "return (A != 0).astype(int)", rule="PW.table", what="skeleton not symmetric")
V("c16-skeleton-sum-positive", "C16", "fire", UT, "return ((A + A.T) != 0).astype(int)", "return ((A + A.T) > 0).astype(int)", rule="PW", what="skeleton drops negative weights", accept_inconclusive=True)
V("c16-undirected-both", "C16", "fire", UT, "undirected_edges = filter(lambda e: e[0] > e[1], zip(fro, to))", "undirected_edges = filter(lambda e: e[0] != e[1], zip(fro, to))", rule="PW.table",
  what="each undirected edge listed twice", accept_inconclusive=True)
V("c16-directed-transposed", "C16", "fire", UT, "    fro, to = np.where(only_directed(A))\n    return list(zip(fro, to))", "    fro, to = np.where(only_directed(A))\n    return list(zip(to, fro))", rule="PW.table", what="edge list reversed")
V("c16-weights-transposed", "C16", "fire", UT, "weights = [W[i, j] for i, j in edges]", "weights = [W[j, i] for i, j in edges]", rule="PW.table", what="edge weights read transposed", accept_inconclusive=True)
V("c16-induced-rows-only", "C16", "fire", UT, "    mask = np.logical_and(mask, mask.T)\n    subgraph = np.zeros_like(G)", "    subgraph = np.zeros_like(G)", rule="PW.table", what="induced subgraph keeps rows of S only")
V("c16-isclique-half", "C16", "fire", UT, "return no_edges == n * (n - 1)", "return no_edges == n * (n - 1) / 2", rule="PW.count", what="clique closed form off by 2")
V("c16-iscomplete-plus", "C16", "fire", UT, "return no_edges == (p * (p - 1) / 2)", "return no_edges == (p * (p + 1) / 2)", rule="PW.count", what="wrong closed form")
V("c16-degrees-outdeg", "C16", "fire", UT, "return np.sum(skeleton(A), axis=0)", "return np.sum(A != 0, axis=0)", rule="PW.count", what="degrees = in-degree")
V("c16-vs-axis1", "C16", "fire", UT, "colliders = np.where((dir_A != 0).sum(axis=0) > 1)[0]", "colliders = np.where((dir_A != 0).sum(axis=1) > 1)[0]", rule="VS.prefilter", what="pre-filter counts children")
V("c16-vs-gt2", "C16", "fire", UT, "colliders = np.where((dir_A != 0).sum(axis=0) > 1)[0]", "colliders = np.where((dir_A != 0).sum(axis=0) > 2)[0]", rule="VS.prefilter", what="pre-filter needs three parents")
V("c16-vs-shield-oneway", "C16", "fire", UT, "if A[i, j] == 0 and A[j, i] == 0:", "if A[i, j] == 0:", rule="VS.condition", what="shield test one-directional")
V("c16-vs-noorder", "C16", "fire", UT, "vstruct = (i, c, j) if i < j else (j, c, i)", "vstruct = (i, c, j)", rule="VS.condition", what="triple not normalised", accept_inconclusive=True)
V("c16-vs-adj-parents", "C16", "fire", UT, "for (i, j) in itertools.combinations(pa(c, A), 2):", "for (i, j) in itertools.combinations(adj(c, A), 2):", rule="VS.pairs", what="pairs of adjacent nodes")
V("c16-moral-oneway", "C16", "fire", UT, "        moral[i, j] = 1\n        moral[j, i] = 1\n", "        moral[i, j] = 1\n", rule="MORAL", what="married parents one direction")
V("c16-silent-vs-min-max", "C16", "silent", UT, "vstruct = (i, c, j) if i < j else (j, c, i)", "vstruct = (min(i, j), c, max(i, j))", what="equivalent normalisation")
V("c16-silent-vs-ge2", "C16", "silent", UT, "colliders = np.where((dir_A != 0).sum(axis=0) > 1)[0]", "n_parents = (dir_A != 0).sum(axis=0)\n    colliders = np.where(n_parents >= 2)[0]", what="equivalent pre-filter")
V("c16-silent-skeleton-or", "C16", "silent", UT, "return ((A + A.T) != 0).astype(int)", "return np.logical_or(A != 0, A.T != 0).astype(int)", what="skeleton via logical_or")

# ------------------------------------------------------------------------------- C13
SEEDLINE = "np.random.seed(random_state) if random_state is not None else None"
V("c13-anm-truthy", "C13", "fire", AN, SEEDLINE, "np.random.seed(random_state) if random_state else None", rule="R", what="seed 0 ignored by ANM.sample")
V("c13-nd-noseed", "C13", "fire", ND, "        " + SEEDLINE + "\n", "", rule="R1.global", what="NormalDistribution.sample never seeds")
V("c13-nd-fallback", "C13", "fire", ND, SEEDLINE, "np.random.seed(random_state or 42)", rule="R", what="fallback seed, always seeded")
V("c13-lganm-drops-seed", "C13", "fire", LG, "return distribution.sample(n, random_state=random_state)", "return distribution.sample(n)", rule="R1.global", what="LGANM.sample does not forward the seed")
V("c13-dagfull-unseeded-rng", "C13", "fire", GE, "    rng = np.random.default_rng(random_state)\n    # Build a triangular matrix", "    rng = np.random.default_rng()\n    # Build a triangular matrix", rule="R1.generator", what="generator without the seed")
V("c13-avgdeg-global-perm", "C13", "fire", GE, "    permutation = rng.permutation(p)\n    # Note the actual topological ordering is the \"conjugate\" of permutation eg. [3,1,2] -> [2,3,1]\n    print(", "    permutation = np.random.permutation(p)\n    # Note the actual topological ordering is the \"conjugate\" of permutation eg. [3,1,2] -> [2,3,1]\n    print(",
  rule="R1.global", what="permutation from the global stream")
V("c13-remove-const-seed", "C13", "fire", UT, "    A = A.astype(bool).astype(int)\n    rng = np.random.default_rng(random_state)\n    edges = directed_edges(A)", "    A = A.astype(bool).astype(int)\n    rng = np.random.default_rng(42)\n    edges = directed_edges(A)", rule="R1.generator", what="constant seed")
V("c13-split-rng-in-loop", "C13", "fire", UT, "    rng = np.random.default_rng(random_state)\n    for sample in data:\n        n = len(sample)\n", "    for sample in data:\n        rng = np.random.default_rng(random_state)\n        n = len(sample)\n", rule="R4", what="generator rebuilt per environment")
V("c13-anm-always-seeds", "C13", "fire", AN, SEEDLINE, "np.random.seed(random_state if random_state is not None else 0)", rule="R", what="unseeded ANM sampling is degenerate")
V("c13-targets-seed-plus", "C13", "fire", GE, "    rng = np.random.default_rng(random_state)\n    # Build intervention sizes", "    rng = np.random.default_rng(random_state + K)\n    # Build intervention sizes", rule="R", what="derived seed")
V("c13-silent-if-stmt", "C13", "silent", ND, "        " + SEEDLINE + "\n", "        if random_state is not None:\n            np.random.seed(random_state)\n", what="if statement for the IfExp idiom")
V("c13-silent-helper", "C13", "silent", GE, "    rng = np.random.default_rng(random_state)\n    # Build a triangular matrix", "    gen = np.random.default_rng(random_state)\n    rng = gen\n    # Build a triangular matrix", what="alias of the generator")
V("c13-silent-noneq", "C13", "silent", AN, SEEDLINE, "np.random.seed(random_state) if not random_state is None else None", what="`not x is None`")

# ------------------------------------------------------------------------------- C14
V("c14-lganm-sample-nocopy-W", "C14", "fire", LG, "        W = self.W.copy()\n", "        W = self.W\n", rule="M2", what="do-intervention zeroes the model's own W")
V("c14-lganm-sample-view-means", "C14", "fire", LG, "means = self.means.astype(float)", "means = self.means.astype(float, copy=False)", rule="M2", what="astype(copy=False) may return the model's array")
V("c14-lganm-ctor-nocopy", "C14", "fire", LG, "        self.W = W.copy()\n", "        self.W = W\n", rule="M3", what="constructor keeps the caller's matrix")
V("c14-lganm-ctor-nocopy-means", "C14", "fire", LG, "            self.means = means.copy()\n", "            self.means = means\n", rule="M3", what="constructor keeps the caller's means")
V("c14-nd-ctor-nocopy", "C14", "fire", ND, "        self.covariance = covariance.copy()\n", "        self.covariance = covariance\n", rule="M3", what="NormalDistribution keeps the caller's covariance")
V("c14-anm-ctor-nocopy", "C14", "fire", AN, "        self.A = deepcopy(A)\n", "        self.A = A\n", rule="M3", what="ANM keeps the caller's matrix")
V("c14-anm-ctor-noise-nocopy", "C14", "fire", AN, "self.noise_distributions = deepcopy(noise_distributions)", "self.noise_distributions = noise_distributions", rule="M3", what="ANM keeps the caller's list")
V("c14-anm-sample-writes-dict", "C14", "fire", AN, "                X[:, i] = do_interventions[i](n)\n", "                X[:, i] = do_interventions.pop(i)(n)\n", rule="M", what="ANM.sample consumes the caller's dict")
V("c14-anm-sample-rebinds", "C14", "fire", AN, "        X = np.zeros((n, self.p))\n", "        X = np.zeros((n, self.p))\n        self.n = n\n", rule="M2.rebind", what="sample stores state on the model")
V("c14-nd-mse-writes-cov", "C14", "fire", ND, "        cov = self.covariance\n", "        cov = self.covariance\n        cov[y, y] += 0.0\n", rule="M2", what="mse writes the model's covariance")
V("c14-nd-marginal-returns-self", "C14", "fire", ND, "        X = np.atleast_1d(X)\n        # Compute marginal mean/variance\n", "        X = np.atleast_1d(X)\n        if len(X) == self.p:\n            return self\n        # Compute marginal mean/variance\n", rule="M4", what="marginal hands out the model itself")
V("c14-split-nocopy", "C14", "fire", UT, "        sample = sample.copy()\n        rng.shuffle(sample)", "        rng.shuffle(sample)", rule="M1", what="split_data shuffles the caller's arrays")
V("c14-maxorient-nocopy", "C14", "fire", UT, "        raise e\n    P = P.copy()\n", "        raise e\n", rule="M1", what="maximally_orient edits the caller's PDAG")
V("c14-alldags-nocopy", "C14", "fire", UT, "        A = pdag.copy()\n        A[oriented_edges[:, 1], oriented_edges[:, 0]] = 0", "        A = pdag\n        A[oriented_edges[:, 1], oriented_edges[:, 0]] = 0", rule="M1", what="all_dags edits the caller's PDAG")
V("c14-remove-edges-inplace", "C14", "fire", UT, "    A = A.astype(bool).astype(int)\n    rng = np.random.default_rng(random_state)\n    edges = directed_edges(A)\n    if len(edges) < no_edges:\n        raise ValueError(\"There are not enough edges to remove.\")\n    pruned = A.copy()",
  "    rng = np.random.default_rng(random_state)\n    edges = directed_edges(A)\n    if len(edges) < no_edges:\n        raise ValueError(\"There are not enough edges to remove.\")\n    pruned = A", rule="M", what="remove_edges edits and returns the caller's matrix")
V("c14-closure-inplace", "C14", "fire", UT, "    closure = np.zeros_like(A)\n    for i in range(len(A)):", "    closure = A\n    for i in range(len(A)):", rule="M", what="transitive_closure written into the input")
V("c14-sort-inplace", "C14", "fire", UT, "    L = list(L)\n    if order is None:\n        return sorted(L)", "    if order is None:\n        L.sort()\n        return L", rule="M", what="sort() sorts the caller's list in place")
V("c14-chaincomp-default-acc", "C14", "fire", UT, "def chain_component(i, G):", "def chain_component(i, G, visited_acc=[]):", more=[(UT, "            visited.add(j)\n", "            visited.add(j)\n            visited_acc.append(j)\n")],
  rule="M", what="mutable default argument used as accumulator")
V("c14-pdag2dag-writes-P", "C14", "fire", UT, "                for j in real_neighbors:\n                    G[j, real_i] = 1\n", "                for j in real_neighbors:\n                    G[j, real_i] = 1\n                    P[j, i] = 0\n", rule="M1", what="pdag_to_dag edits the caller's PDAG before shrinking it")
V("c14-silent-copy-spelling", "C14", "silent", LG, "        W = self.W.copy()\n", "        W = np.array(self.W)\n", what="np.array copies")
V("c14-silent-deepcopy", "C14", "silent", ND, "        self.mean = mean.copy()\n", "        import copy\n        self.mean = copy.deepcopy(mean)\n", what="deepcopy for copy()")
V("c14-silent-local-mutation", "C14", "silent", UT, "    S = list(S)\n    subgraph = A[S, :][:, S]\n", "    S = list(S)\n    S.sort()\n    subgraph = A[S, :][:, S]\n", what="mutating a fresh local list")

# ------------------------------------------------------------------------------- C05
V("c05-cov-sign", "C05", "fire", ND, "covariance = cov_y - cov_yx @ np.linalg.inv(cov_x) @ cov_xy", "covariance = cov_y + cov_yx @ np.linalg.inv(cov_x) @ cov_xy", rule="FORMULA.conditional.covariance", what="Schur complement sign")
V("c05-mean-noshift", "C05", "fire", ND, "mean = mean_y + cov_yx @ np.linalg.inv(cov_x) @ (x - mean_x)", "mean = mean_y + cov_yx @ np.linalg.inv(cov_x) @ x", rule="FORMULA.conditional.mean", what="x not centred")
V("c05-mean-inv-cov-y", "C05", "fire", ND, "mean = mean_y + cov_yx @ np.linalg.inv(cov_x) @ (x - mean_x)", "mean = mean_y + cov_yx @ np.linalg.inv(cov_y) @ (x - mean_x)", rule="FORMULA.conditional.mean", what="wrong block inverted")
V("c05-block-transposed", "C05", "fire", ND, "cov_yx = utils.matrix_block(self.covariance, Y, X)", "cov_yx = utils.matrix_block(self.covariance, X, X)", rule="FORMULA", what="wrong block")
V("c05-sorted-Y", "C05", "fire", ND, "        Y = np.atleast_1d(Y)\n        X = np.atleast_1d(X)\n        x = np.atleast_1d(x)", "        Y = np.sort(np.atleast_1d(Y))\n        X = np.atleast_1d(X)\n        x = np.atleast_1d(x)", rule="FORMULA", what="requested order of Y lost")
V("c05-unique-X", "C05", "fire", ND, "        Y = np.atleast_1d(Y)\n        X = np.atleast_1d(X)\n        x = np.atleast_1d(x)", "        Y = np.atleast_1d(Y)\n        X = np.unique(X)\n        x = np.atleast_1d(x)", rule="FORMULA", what="X reordered, x no longer paired")
V("c05-marginal-sorted", "C05", "fire", ND, "        X = np.atleast_1d(X)\n        # Compute marginal mean/variance", "        X = np.array(sorted(np.atleast_1d(X)))\n        # Compute marginal mean/variance", rule="FORMULA.marginal", what="marginal sorts the indices")
V("c05-matrix-block-swapped", "C05", "fire", UT, "    return M[rows, :][:, cols]", "    return M[cols, :][:, rows]", rule="FORMULA", what="matrix_block transposes the selection")
V("c05-no-overlap-guard", "C05", "fire", ND, "        if len(set(Y) & set(X)) > 0:\n            raise ValueError(\"X and Y are not disjoint.\")\n", "", rule="GUARD.conditional.overlap", what="overlap guard dropped")
V("c05-len-guard-lt", "C05", "fire", ND, "if len(X) != len(x):", "if len(X) < len(x):", rule="GUARD.conditional.len", what="size guard one-sided")
V("c05-guard-after-inv", "C05", "fire", ND, "        if len(set(Y) & set(X)) > 0:\n            raise ValueError(\"X and Y are not disjoint.\")\n        # Conditioning on nothing = marginalizing\n        if len(X) == 0:\n            return self.marginal(Y)\n",
  "        # Conditioning on nothing = marginalizing\n        if len(X) == 0:\n            return self.marginal(Y)\n        if len(set(Y) & set(X)) > 0:\n            raise ValueError(\"X and Y are not disjoint.\")\n", rule="GUARD.conditional.overlap", what="overlap accepted when X is empty path / guard after result")
V("c05-ctor-guard-dropped", "C05", "fire", ND, "        if len(mean) != len(covariance):\n            raise ValueError(\"Mismatch in the size of mean vector and covariance matrix.\")\n", "", rule="GUARD.ctor", what="constructor size check dropped")
V("c05-empty-returns-marginal-X", "C05", "fire", ND, "            return self.marginal(Y)\n        # See", "            return self.marginal(X)\n        # See", rule="EMPTY", what="empty conditioning marginalises the wrong set")
V("c05-silent-solve", "C05", "silent", ND, "mean = mean_y + cov_yx @ np.linalg.inv(cov_x) @ (x - mean_x)", "mean = mean_y + cov_yx @ np.linalg.solve(cov_x, x - mean_x)", what="solve for inv @")
V("c05-silent-transposed-block", "C05", "silent", ND, "covariance = cov_y - cov_yx @ np.linalg.inv(cov_x) @ cov_xy", "covariance = cov_y - cov_yx @ np.linalg.inv(cov_x) @ cov_yx.T", what="C_XY as C_YX^T (symmetric covariance)")
V("c05-silent-direct-index", "C05", "silent", ND, "cov_x = utils.matrix_block(self.covariance, X, X)", "cov_x = self.covariance[:, X][X, :]", what="direct chained indexing for matrix_block")
V("c05-silent-guard-spelling", "C05", "silent", ND, "if len(set(Y) & set(X)) > 0:", "if set(X) & set(Y) != set():", what="equivalent overlap test")

# ------------------------------------------------------------------------------- C06
V("c06-coefs-wrong-rhs", "C06", "fire", ND, "cov_y_xs = self.covariance[y, Xs]  #", "cov_y_xs = self.covariance[Xs[0], Xs]  #", rule="FORMULA.coefs", what="right-hand side is not C_Sy")
V("c06-coefs-written-everywhere", "C06", "fire", ND, "            coefs[Xs] = np.linalg.solve(cov_xs, cov_y_xs)", "            coefs[:len(Xs)] = np.linalg.solve(cov_xs, cov_y_xs)", rule="WRITESET", what="coefficients written at positions 0..|S|-1")
V("c06-coefs-base-ones", "C06", "fire", ND, "        coefs = np.zeros(self.p)\n", "        coefs = np.ones(self.p)\n", rule="WRITESET", what="coefficients outside S not zero")
V("c06-intercept-plus", "C06", "fire", ND, "intercept = self.mean[y] - coefs @ self.mean", "intercept = self.mean[y] + coefs @ self.mean", rule="FORMULA.intercept", what="intercept sign")
V("c06-intercept-no-mean-y", "C06", "fire", ND, "intercept = self.mean[y] - coefs @ self.mean", "intercept = - coefs @ self.mean", rule="FORMULA.intercept", what="mu_y dropped")
V("c06-mse-factor", "C06", "fire", ND, "- 2 * cov[y, :] @ coefs_xs.T", "- cov[y, :] @ coefs_xs.T", rule="FORMULA.mse", what="cross term not doubled")
V("c06-mse-adds-intercept", "C06", "fire", ND, "        (coefs_xs, _) = self.regress(y, Xs)\n", "        (coefs_xs, icpt) = self.regress(y, Xs)\n        var_y = var_y + (self.mean[y] - coefs_xs @ self.mean - icpt) ** 2\n", rule=None, what="mse depends on the means", accept_inconclusive=True)
V("c06-mse-other-target", "C06", "fire", ND, "        (coefs_xs, _) = self.regress(y, Xs)\n", "        (coefs_xs, _) = self.regress(Xs[0] if len(np.atleast_1d(Xs)) else y, Xs)\n", rule="MSE.regress", what="regresses another variable", accept_inconclusive=True)
V("c06-silent-inv", "C06", "silent", ND, "coefs[Xs] = np.linalg.solve(cov_xs, cov_y_xs)", "coefs[Xs] = np.linalg.inv(cov_xs) @ cov_y_xs", what="inv @ for solve")
V("c06-silent-matrix-block", "C06", "silent", ND, "cov_xs = self.covariance[:, Xs][Xs, :]  #", "cov_xs = utils.matrix_block(self.covariance, Xs, Xs)  #", what="helper for chained indexing", )
V("c06-silent-dot", "C06", "silent", ND, "intercept = self.mean[y] - coefs @ self.mean", "intercept = self.mean[y] - self.mean.dot(coefs)", what="dot for @, commuted 1-D product")

# ------------------------------------------------------------------------------- C01
DO_BLOCK = """        if do_interventions:
            do_interventions = _parse_interventions(do_interventions)
            targets = do_interventions[:, 0].astype(int)
            means[targets] = do_interventions[:, 1]
            variances[targets] = do_interventions[:, 2]
            W[:, targets] = 0
"""
NOISE_BLOCK = """        if noise_interventions:
            noise_interventions = _parse_interventions(noise_interventions)
            targets = noise_interventions[:, 0].astype(int)
            means[targets] = noise_interventions[:, 1]
            variances[targets] = noise_interventions[:, 2]
"""
V("c01-f2-revert", "C01", "fire", LG, "        variances = self.variances.astype(float)\n        means = self.means.astype(float)\n", "        variances = self.variances.copy()\n        means = self.means.copy()\n", rule="DTYPE", what="revert fix F2")
V("c01-do-row-cut", "C01", "fire", LG, "            W[:, targets] = 0\n", "            W[targets, :] = 0\n", rule="CASES", what="do cuts outgoing instead of incoming edges")
V("c01-do-keeps-edges", "C01", "fire", LG, "            W[:, targets] = 0\n", "", rule="CASES", what="do keeps incoming edges")
V("c01-noise-adds", "C01", "fire", LG, "            means[targets] = noise_interventions[:, 1]\n", "            means[targets] += noise_interventions[:, 1]\n", rule="CASES", what="noise intervention adds its mean")
V("c01-shift-replaces-var", "C01", "fire", LG, "            variances[targets] += shift_interventions[:, 2]\n", "            variances[targets] = shift_interventions[:, 2]\n", rule="CASES", what="shift replaces the variance")
V("c01-precedence-swapped", "C01", "fire", LG, NOISE_BLOCK + "\n        # Perform do interventions. Note that they take preference\n        # i.e. \"override\" shift and noise interventions\n" + DO_BLOCK,
  DO_BLOCK + "\n" + NOISE_BLOCK, rule="CASES", what="noise applied after do: noise overrides do on a shared target")
V("c01-columns-swapped", "C01", "fire", LG, "            means[targets] = do_interventions[:, 1]\n            variances[targets] = do_interventions[:, 2]\n", "            means[targets] = do_interventions[:, 2]\n            variances[targets] = do_interventions[:, 1]\n", rule="CASES", what="mean/variance columns swapped for do")
V("c01-cross-targets", "C01", "fire", LG, "            targets = noise_interventions[:, 0].astype(int)\n", "            targets = noise_interventions[:, 0].astype(int) if not shift_interventions is None else targets\n", rule=None, what="unrecognised target expression", accept_inconclusive=True)
V("c01-producer-swapped", "C01", "fire", LG, "interventions.append([target, params[0], params[1]])", "interventions.append([target, params[1], params[0]])", rule="LAYOUT.producer", what="producer swaps mean and variance")
V("c01-scalar-var-one", "C01", "fire", LG, "interventions.append([target, params, 0])", "interventions.append([target, params, 1])", rule="LAYOUT.producer", what="scalar parameter gets variance 1")
V("c01-formula-no-transpose", "C01", "fire", LG, "A = np.linalg.inv(np.eye(self.p) - W.T)", "A = np.linalg.inv(np.eye(self.p) - W)", rule="FORMULA", what="W instead of W^T")
V("c01-cov-sqrt", "C01", "fire", LG, "covariance = A @ np.diag(variances) @ A.T", "covariance = A @ np.diag(variances ** 0.5) @ A.T", rule="FORMULA.covariance", what="standard deviations in the covariance")
V("c01-cov-no-transpose", "C01", "fire", LG, "covariance = A @ np.diag(variances) @ A.T", "covariance = A @ np.diag(variances) @ A", rule="FORMULA.covariance", what="A instead of A^T")
V("c01-mean-uses-model-means", "C01", "fire", LG, "        mean = A @ means\n", "        mean = A @ self.means\n", rule=None, what="population mean ignores the interventions", accept_inconclusive=True)
V("c01-sampling-matrix-wrong", "C01", "fire", UT, "    return np.linalg.inv(np.eye(p) - W.T)", "    return np.linalg.inv(np.eye(p) - W)", rule="FORMULA.sampling_matrix", what="sibling helper disagrees")
V("c01-none-unguarded", "C01", "fire", LG, "        if shift_interventions:\n            shift_interventions = _parse_interventions(shift_interventions)", "        if shift_interventions != {}:\n            shift_interventions = _parse_interventions(shift_interventions)", rule=None, what="None reaches .items()", accept_inconclusive=True)
V("c01-range-swapped", "C01", "fire", LG, "self.means = rng.uniform(means[0], means[1], size=self.p)", "self.means = rng.uniform(means[1], means[0], size=self.p)", rule="RANGE", what="low/high swapped")
V("c01-range-variances-from-means", "C01", "fire", LG, "                variances[0], variances[1], size=self.p)", "                means[0], variances[1], size=self.p)", rule="RANGE", what="variance range uses the mean's lower bound")
V("c01-silent-sampling-matrix", "C01", "silent", LG, "A = np.linalg.inv(np.eye(self.p) - W.T)", "A = utils.sampling_matrix(W)", what="sibling helper used")
V("c01-silent-float-array", "C01", "silent", LG, "        means = self.means.astype(float)\n", "        means = np.array(self.means, dtype=float)\n", what="np.array(dtype=float)")
V("c01-silent-not-none-guard", "C01", "silent", LG, "        if do_interventions:\n", "        if do_interventions is not None and len(do_interventions) > 0:\n", what="explicit None / empty guard")

# ------------------------------------------------------------------------------- C02
V("c02-row-mask", "C02", "fire", AN, "self.assignments[i](X[:, self.A[:, i] != 0])", "self.assignments[i](X[:, self.A[i, :] != 0])", rule="CASES", what="children passed as parents")
V("c02-positive-mask", "C02", "fire", AN, "self.assignments[i](X[:, self.A[:, i] != 0])", "self.assignments[i](X[:, self.A[:, i] > 0])", rule="CASES", what="negative-weight parents dropped")
V("c02-shift-no-original", "C02", "fire", AN, "noise = self.noise_distributions[i](n) + shift_interventions[i](n)", "noise = shift_interventions[i](n)", rule="CASES", what="shift replaces the noise")
V("c02-noise-adds", "C02", "fire", AN, "                    noise = noise_interventions[i](n)\n", "                    noise = self.noise_distributions[i](n) + noise_interventions[i](n)\n", rule="CASES", what="noise intervention adds")
V("c02-do-keeps-parents", "C02", "fire", AN, "                X[:, i] = do_interventions[i](n)\n", "                X[:, i] = do_interventions[i](n) + np.transpose(self.assignments[i](X[:, self.A[:, i] != 0]))\n", rule="CASES", what="do keeps the dependence on parents")
V("c02-do-after-noise", "C02", "fire", AN, "            if i in do_interventions:", "            if i in do_interventions and i not in noise_interventions:", rule="CASES", what="noise overrides do")
V("c02-double-draw", "C02", "fire", AN, "                X[:, i] = assignment + noise\n", "                X[:, i] = assignment + noise + self.noise_distributions[i](n) * 0\n", rule="CASES", what="extra draw", accept_inconclusive=True)
V("c02-wrong-size", "C02", "fire", AN, "                    noise = self.noise_distributions[i](n)\n                X[:, i]", "                    noise = self.noise_distributions[i](self.p)\n                X[:, i]", rule="CASES", what="noise drawn with p instead of n")
V("c02-natural-order", "C02", "fire", AN, "        for i in self.ordering:", "        for i in range(self.p):", rule="ORDER.loop", what="variables generated in index order")
V("c02-order-of-other-matrix", "C02", "fire", AN, "        self.ordering = utils.topological_ordering(A)\n", "        self.ordering = utils.topological_ordering(A.T)\n", rule="ORDER.ctor", what="ordering of the transposed graph")
V("c02-null-returns-none", "C02", "fire", FU, "def null(*args):\n    return 0", "def null(*args):\n    return None", rule="NULL.zero", what="null assignment is None")
V("c02-shape-pxn", "C02", "fire", AN, "X = np.zeros((n, self.p))", "X = np.zeros((self.p, n))", rule="SHAPE", what="result transposed")
V("c02-silent-sorted-parents", "C02", "silent", AN, "self.assignments[i](X[:, self.A[:, i] != 0])", "self.assignments[i](X[:, sorted(utils.pa(i, self.A))])", what="explicit sorted parent list")
V("c02-silent-temp", "C02", "silent", AN, "                assignment = np.transpose(self.assignments[i](X[:, self.A[:, i] != 0]))\n", "                parents = self.A[:, i] != 0\n                f = self.assignments[i]\n                assignment = np.transpose(f(X[:, parents]))\n", what="temporaries")
V("c02-silent-not-in", "C02", "silent", AN, "                elif i in noise_interventions:\n                    noise = noise_interventions[i](n)\n                # No intervention: sample noise from original distribution\n                else:\n                    noise = self.noise_distributions[i](n)",
  "                elif i not in noise_interventions:\n                    noise = self.noise_distributions[i](n)\n                else:\n                    noise = noise_interventions[i](n)", what="branches swapped with negated test")

# ------------------------------------------------------------------------------- C04 / C20
V("c04-mvn-swapped", "C04", "fire", ND, "np.random.multivariate_normal(self.mean, self.covariance, size=n)", "np.random.multivariate_normal(self.mean, self.covariance ** 0.5, size=n)", rule="SLOTS", what="covariance slot receives something else")
V("c04-mvn-size-p", "C04", "fire", ND, "np.random.multivariate_normal(self.mean, self.covariance, size=n)", "np.random.multivariate_normal(self.mean, self.covariance, size=self.p)", rule="SLOTS", what="size is p")
V("c04-mvn-centered", "C04", "fire", ND, "        return np.random.multivariate_normal(self.mean, self.covariance, size=n)", "        X = np.random.multivariate_normal(self.mean, self.covariance, size=n)\n        return X - X.mean(axis=0)", rule="RESULT", what="sample re-centred")
V("c04-other-distribution", "C04", "fire", LG, "            return distribution.sample(n, random_state=random_state)", "            return NormalDistribution(self.means, covariance).sample(n, random_state=random_state)", rule="SAME-OBJECT", what="finite path ignores the intervened mean")
V("c04-n-plus-one", "C04", "fire", LG, "            return distribution.sample(n, random_state=random_state)", "            return distribution.sample(n + 1, random_state=random_state)", rule="FORWARD.n", what="wrong sample size")
V("c04-noise-var-as-sd", "C04", "fire", NO, "return lambda n: np.random.normal(mean, var**0.5, n)", "return lambda n: np.random.normal(mean, var, n)", rule="UNIT", what="variance passed as standard deviation")
V("c04-silent-sqrt", "C04", "silent", NO, "return lambda n: np.random.normal(mean, var**0.5, n)", "return lambda n: np.random.normal(loc=mean, scale=np.sqrt(var), size=n)", what="sqrt + keywords")
V("c20-noise-var-as-sd", "C20", "fire", NO, "return lambda n: np.random.normal(mean, var**0.5, n)", "return lambda n: np.random.normal(mean, var, n)", rule="SLOTS.normal", what="variance passed as standard deviation")
V("c20-uniform-swapped", "C20", "fire", NO, "return lambda n: np.random.uniform(lo, hi, n)", "return lambda n: np.random.uniform(hi, lo, n)", rule="SLOTS.uniform", what="bounds swapped")
V("c20-laplace-scale-half", "C20", "fire", NO, "return lambda n: np.random.laplace(mean, scale, n)", "return lambda n: np.random.laplace(mean, scale / 2, n)", rule="SLOTS.laplace", what="scale halved")
V("c20-laplace-as-normal", "C20", "fire", NO, "return lambda n: np.random.laplace(mean, scale, n)", "return lambda n: np.random.normal(mean, scale, n)", rule="R6", what="wrong law")
V("c20-uniform-generator", "C20", "fire", NO, "return lambda n: np.random.uniform(lo, hi, n)", "rng = np.random.default_rng()\n    return lambda n: rng.uniform(lo, hi, n)", rule="R6", what="private generator: not reproducible by seeding the global stream")
V("c20-zero-ones", "C20", "fire", NO, "return lambda n: np.zeros(n)", "return lambda n: np.zeros(n) + 1e-12", rule="CONST.zero", what="zero noise not zero")
V("c20-normal-default-var", "C20", "fire", NO, "def normal(mean=0, var=1):", "def normal(mean=0, var=2):", rule="DEFAULTS", what="default variance changed")
V("c20-uniform-n-plus", "C20", "fire", NO, "return lambda n: np.random.uniform(lo, hi, n)", "return lambda n: np.random.uniform(lo, hi, n + 1)", rule="SLOTS.uniform", what="wrong number of draws")
V("c20-normal-shifted", "C20", "fire", NO, "return lambda n: np.random.normal(mean, var**0.5, n)", "return lambda n: np.random.normal(mean, var**0.5, n) + mean", rule="LAW", what="mean added twice")
V("c20-silent-kwargs", "C20", "silent", NO, "return lambda n: np.random.laplace(mean, scale, n)", "return lambda n: np.random.laplace(loc=mean, scale=scale, size=n)", what="keyword slots")
V("c20-silent-def", "C20", "silent", NO, "    return lambda n: np.random.uniform(lo, hi, n)", "    def draw(n):\n        return np.random.uniform(lo, hi, n)\n    return draw", what="nested def for lambda")

# ------------------------------------------------------------------------------- C11
V("c11-triu-k0", "C11", "fire", GE, "    A = np.triu(A, k=1)\n    weights", "    A = np.triu(A, k=0)\n    weights", rule="TRIU", what="diagonal kept: self-loops")
V("c11-full-no-triu", "C11", "fire", GE, "A = np.triu(np.ones((p, p)), k=1)", "A = np.ones((p, p)) - np.eye(p)", rule="TRIU", what="complete digraph, not a DAG")
V("c11-rows-only", "C11", "fire", GE, "        return (W[permutation, :][:, permutation], np.argsort(permutation))\n    else:\n        return W[permutation, :][:, permutation]\n\n\ndef dag_full",
  "        return (W[permutation, :], np.argsort(permutation))\n    else:\n        return W[permutation, :]\n\n\ndef dag_full", rule="PERM", what="only rows permuted")
V("c11-two-perms", "C11", "fire", GE, "    permutation = rng.permutation(p)\n    # Note the actual topological ordering is the \"conjugate\" of permutation eg. [3,1,2] -> [2,3,1]\n    if return_ordering:\n        return (W[permutation, :][:, permutation], np.argsort(permutation))\n    else:\n        return W[permutation, :][:, permutation]",
  "    permutation = rng.permutation(p)\n    cols = rng.permutation(p)\n    if return_ordering:\n        return (W[permutation, :][:, cols], np.argsort(permutation))\n    else:\n        return W[permutation, :][:, cols]", rule="PERM.same-axes", what="different permutation per axis")
V("c11-ordering-is-perm", "C11", "fire", GE, "        return (W[permutation, :][:, permutation], np.argsort(permutation))\n    else:\n        return W[permutation, :][:, permutation]\n\n\ndef dag_full",
  "        return (W[permutation, :][:, permutation], permutation)\n    else:\n        return W[permutation, :][:, permutation]\n\n\ndef dag_full", rule="PERM.ordering", what="returns the permutation instead of its inverse")
V("c11-identity-perm", "C11", "fire", GE, "    permutation = rng.permutation(p)\n    # Note the actual topological ordering is the \"conjugate\" of permutation eg. [3,1,2] -> [2,3,1]\n    print(", "    permutation = np.arange(p)\n    # Note the actual topological ordering is the \"conjugate\" of permutation eg. [3,1,2] -> [2,3,1]\n    print(", rule="PERM.random", what="ordering not random")
V("c11-paths-differ", "C11", "fire", GE, "    else:\n        return W[permutation, :][:, permutation]\n\n\ndef dag_full", "    else:\n        return W\n\n\ndef dag_full", rule="PERM.both-paths", what="unpermuted matrix without ordering")
V("c11-prob-over-p", "C11", "fire", GE, "prob = k / (p - 1)", "prob = k / p", rule="BERNOULLI.probability", what="expected degree k(p-1)/p")
V("c11-prob-inverted-test", "C11", "fire", GE, "A = (A <= prob).astype(float)", "A = (A >= prob).astype(float)", rule="BERNOULLI", what="edge with probability 1-q")
V("c11-weights-swapped", "C11", "fire", GE, "    A = np.triu(np.ones((p, p)), k=1)\n    weights = rng.uniform(w_min, w_max, size=A.shape)", "    A = np.triu(np.ones((p, p)), k=1)\n    weights = rng.uniform(w_max, w_min, size=A.shape)", rule="WEIGHTS", what="bounds swapped")
V("c11-weights-added", "C11", "fire", GE, "    W = A * weights\n    # Permute rows/columns according to random topological ordering\n    permutation = rng.permutation(p)\n    # Note the actual topological ordering is the \"conjugate\" of permutation eg. [3,1,2] -> [2,3,1]\n    if return_ordering:",
  "    W = A + weights\n    # Permute rows/columns according to random topological ordering\n    permutation = rng.permutation(p)\n    # Note the actual topological ordering is the \"conjugate\" of permutation eg. [3,1,2] -> [2,3,1]\n    if return_ordering:", rule="WEIGHTS", what="weights not masked: dense matrix")
V("c11-silent-lt", "C11", "silent", GE, "A = (A <= prob).astype(float)", "A = (prob > A).astype(float)", what="equivalent threshold")
V("c11-silent-cols-first", "C11", "silent", GE, "    else:\n        return W[permutation, :][:, permutation]\n\n\ndef dag_full", "    else:\n        return W[:, permutation][permutation, :]\n\n\ndef dag_full", what="columns first")
V("c11-silent-prob-form", "C11", "silent", GE, "prob = k / (p - 1)", "prob = float(k) / (p - 1.0)", what="float spelling of k/(p-1)")

# ------------------------------------------------------------------------------- C12
V("c12-max-ge", "C12", "fire", GE, "    if max_size > p:\n", "    if max_size >= p:\n", rule="GUARD.max-size", what="size = p rejected")
V("c12-norepl-ge", "C12", "fire", GE, "        if max_size * K > p:\n", "        if max_size * K >= p:\n", rule="GUARD.without-replacement", what="exact partition rejected")
V("c12-norepl-min", "C12", "fire", GE, "        if max_size * K > p:\n", "        if min_size * K > p:\n", rule="GUARD.without-replacement", what="feasibility tested with the minimum size", accept_inconclusive=True)
V("c12-norepl-always", "C12", "fire", GE, "    if not replace:\n        if max_size * K > p:", "    if True:\n        if max_size * K > p:", rule="GUARD.without-replacement", what="feasibility guard also with replacement")
V("c12-tuple-guard-dropped", "C12", "fire", GE, "    elif isinstance(size, tuple):\n        raise ValueError(\"The intervention size must be a positive integer or two-element tuple.\")\n", "", rule="GUARD.tuple-length", what="3-tuples treated as a size")
V("c12-exclusive-upper", "C12", "fire", GE, "sizes = rng.integers(size[0], size[1] + 1, K)", "sizes = rng.integers(size[0], size[1], K)", rule="SIZES", what="upper size never drawn")
V("c12-sizes-kminus", "C12", "fire", GE, "sizes = rng.integers(size[0], size[1] + 1, K)", "sizes = rng.integers(size[0], size[1] + 1, K - 1)", rule="SIZES", what="one size short")
V("c12-choice-replace", "C12", "fire", GE, "intervention = list(rng.choice(targets, size=sizes[i], replace=False))", "intervention = list(rng.choice(targets, size=sizes[i], replace=True))", rule="CHOICE.distinct", what="repeated variable inside an intervention")
V("c12-pool-not-shrunk", "C12", "fire", GE, "            remaining_targets -= set(intervention)\n", "", rule="POOL", what="pool never shrinks")
V("c12-pool-from-1", "C12", "fire", GE, "        targets = list(range(p))\n", "        targets = list(range(1, p))\n", rule="POOL", what="variable 0 never sampled")
V("c12-size-k", "C12", "fire", GE, "intervention = list(rng.choice(targets, size=sizes[i], replace=False))", "intervention = list(rng.choice(targets, size=sizes[0], replace=False))", rule="CHOICE.size", what="all interventions use the first size")
V("c12-kplus-rounds", "C12", "fire", GE, "        targets = list(range(p))\n        for i, k in enumerate(range(K)):", "        targets = list(range(p))\n        for i, k in enumerate(range(K + 1)):", rule="COUNT", what="K+1 interventions")
V("c12-silent-endpoint", "C12", "silent", GE, "sizes = rng.integers(size[0], size[1] + 1, K)", "sizes = rng.integers(size[0], size[1], K, endpoint=True)", what="endpoint=True")
V("c12-silent-guard-flip", "C12", "silent", GE, "    if max_size > p:\n", "    if p < max_size:\n", what="flipped comparison")
V("c12-silent-guard-merge", "C12", "silent", GE, "    if not replace:\n        if max_size * K > p:\n", "    if not replace and not (max_size * K <= p):\n        if True:\n", what="merged guard with negated <=")

# ------------------------------------------------------------------------------- C17
V("c17-f3a-revert", "C17", "fire", UT, "    if abs(np.sum(ratios) - 1) > 1e-9:", "    if np.sum(ratios) != 1:", rule="TOL", what="revert fix F3a")
V("c17-f3b-revert", "C17", "fire", UT, "            if i < n_folds - 1:\n                fold_size = round(n * ratio)\n                fold_sample = sample[start:start + fold_size]\n                start += fold_size\n            else:\n                fold_sample = sample[start::]\n            folds[i].append(fold_sample)\n",
  "            if i < n_folds:\n                fold_size = round(n * ratio)\n                fold_sample = sample[start:start + fold_size]\n            else:\n                fold_sample = sample[start::]\n            folds[i].append(fold_sample)\n            start += fold_size\n", rule="LAST", what="revert fix F3b")
V("c17-tol-loose", "C17", "fire", UT, "    if abs(np.sum(ratios) - 1) > 1e-9:", "    if not np.isclose(np.sum(ratios), 1):", rule="TOL", what="default isclose tolerance 1e-5 accepts sums off by 1e-6")
V("c17-tol-onesided", "C17", "fire", UT, "    if abs(np.sum(ratios) - 1) > 1e-9:", "    if np.sum(ratios) - 1 > 1e-9:", rule="TOL", what="only sums above 1 rejected", accept_inconclusive=True)
V("c17-last-second", "C17", "fire", UT, "            if i < n_folds - 1:\n", "            if i < n_folds - 2:\n", rule="LAST", what="remainder taken by the last two folds")
V("c17-no-advance", "C17", "fire", UT, "                fold_sample = sample[start:start + fold_size]\n                start += fold_size\n", "                fold_sample = sample[start:start + fold_size]\n", rule="CONTIG", what="cursor not advanced: folds overlap")
V("c17-advance-n", "C17", "fire", UT, "                start += fold_size\n", "                start += fold_size + 1\n", rule="CONTIG", what="one observation skipped between folds")
V("c17-start-outside", "C17", "fire", UT, "        rng.shuffle(sample)\n        start = 0\n        for i, ratio", "        rng.shuffle(sample)\n        for i, ratio", more=[(UT, "    rng = np.random.default_rng(random_state)\n    for sample in data:\n", "    rng = np.random.default_rng(random_state)\n    start = 0\n    for sample in data:\n")],
  rule="CONTIG", what="cursor not reset per environment")
V("c17-floor", "C17", "fire", UT, "                fold_size = round(n * ratio)\n", "                fold_size = int(n * ratio)\n", rule="SIZE", what="floor instead of round")
V("c17-wrong-fold", "C17", "fire", UT, "            folds[i].append(fold_sample)\n", "            folds[0].append(fold_sample)\n", rule="FLOW.destination", what="everything lands in fold 0")
V("c17-unshuffled", "C17", "fire", UT, "        sample = sample.copy()\n        rng.shuffle(sample)\n", "        sample = sample.copy()\n", rule="FLOW.source", what="no shuffle")
V("c17-slices-from-first-env", "C17", "fire", UT, "                fold_sample = sample[start:start + fold_size]\n", "                fold_sample = data[0][start:start + fold_size]\n", rule=None, what="rows of another environment", )
V("c17-silent-isclose", "C17", "silent", UT, "    if abs(np.sum(ratios) - 1) > 1e-9:", "    if not np.isclose(np.sum(ratios), 1, rtol=0, atol=1e-9):", what="isclose with explicit tolerance")
V("c17-silent-eq-last", "C17", "silent", UT, "            if i < n_folds - 1:\n", "            if i != n_folds - 1:\n", what="equivalent last-fold test")
V("c17-silent-plus1", "C17", "silent", UT, "            if i < n_folds - 1:\n", "            if i + 1 < len(ratios):\n", what="i + 1 < n")

# ------------------------------------------------------------------------------- C18
V("c18-remove-raw", "C18", "fire", UT, "    A = A.astype(bool).astype(int)\n    rng = np.random.default_rng(random_state)\n    edges = directed_edges(A)", "    rng = np.random.default_rng(random_state)\n    edges = directed_edges(A)", rule=None, what="weights kept: result not the 0/1 subgraph", accept_inconclusive=True)
V("c18-remove-guard-le", "C18", "fire", UT, "    if len(edges) < no_edges:", "    if len(edges) <= no_edges:", rule="GUARD.remove", what="removing every edge rejected")
V("c18-remove-with-replacement", "C18", "fire", UT, "rng.choice(edges, no_edges, replace=False)", "rng.choice(edges, no_edges, replace=True)", rule="DRAW.remove", what="same edge drawn twice: fewer removed")
V("c18-remove-transposed", "C18", "fire", UT, "        pruned[fro, to] = 0\n", "        pruned[to, fro] = 0\n", rule="RESULT.remove", what="clears the wrong entry")
V("c18-remove-one-less", "C18", "fire", UT, "rng.choice(edges, no_edges, replace=False)", "rng.choice(edges, no_edges - 1, replace=False)", rule="DRAW.remove", what="one edge short")
V("c18-add-guard-ge", "C18", "fire", UT, "    if no_edges > can_add:", "    if no_edges >= can_add:", rule="GUARD.add", what="completing the DAG rejected")
V("c18-add-guard-pp", "C18", "fire", UT, "can_add = int(p * (p - 1) / 2 - A.sum())", "can_add = int(p * (p - 1) - A.sum())", rule="GUARD.add", what="infeasible requests accepted")
V("c18-add-no-dag-test", "C18", "fire", UT, "        if is_dag(next_supergraph):\n            supergraph = next_supergraph\n", "        supergraph = next_supergraph\n", rule="ACCEPT", what="cycles may be created")
V("c18-add-dag-test-old", "C18", "fire", UT, "        if is_dag(next_supergraph):", "        if is_dag(supergraph):", rule="ACCEPT", what="tests the wrong graph")
V("c18-add-adjacent-cands", "C18", "fire", UT, "fro, to = np.where((A + A.T + np.eye(len(A))) == 0)", "fro, to = np.where((A + np.eye(len(A))) == 0)", rule="CAND.pairs", what="reverse of existing edges are candidates: two-cycles")
V("c18-add-selfloops", "C18", "fire", UT, "fro, to = np.where((A + A.T + np.eye(len(A))) == 0)", "fro, to = np.where((A + A.T) == 0)", rule="CAND.pairs", what="self-loops are candidates")
V("c18-add-upper-only", "C18", "fire", UT, "fro, to = np.where((A + A.T + np.eye(len(A))) == 0)", "fro, to = np.where(np.triu((A + A.T + np.eye(len(A))) == 0))", rule="CAND.pairs", what="only one orientation tried", accept_inconclusive=True)
V("c18-add-skip", "C18", "fire", UT, "        i += 1\n        if is_dag(next_supergraph):", "        i += 2\n        if is_dag(next_supergraph):", rule="LOOP.advance", what="every other candidate skipped")
V("c18-add-early-exit", "C18", "fire", UT, "< no_edges and i < len(edges):", "< no_edges and i < len(edges) - 1:", rule="LOOP.exit", what="last candidate never tried")
V("c18-add-unseeded-shuffle", "C18", "fire", UT, "    rng.shuffle(edges)\n    # Check inputs", "    np.random.shuffle(edges)\n    # Check inputs", rule=None, what="shuffle from the global stream", accept_inconclusive=True)
V("c18-silent-bin", "C18", "silent", UT, "    A = A.astype(bool).astype(int)\n    # Edges between non-adjacent nodes", "    A = (A != 0).astype(int)\n    # Edges between non-adjacent nodes", what="equivalent binarisation")
V("c18-silent-guard", "C18", "silent", UT, "    if no_edges > can_add:", "    if can_add < no_edges:", what="flipped guard")

# ------------------------------------------------------------------------------- C19
V("c19-f4a-revert", "C19", "fire", SE, "self._data[k][:, i], n[k], random_state=rng\n", "self._data[k][:, i], n[k], random_state=random_state\n", rule="R4", what="revert fix F4a")
V("c19-f4b-revert", "C19", "fire", SE, "        np.random.seed(random_state) if random_state is not None else None\n", "", rule="R1.global", what="revert fix F4b")
V("c19-f4c-revert", "C19", "fire", SE, "            if len(n) != self.e:\n                raise ValueError(_N_TYPE_ERROR)\n", "", rule="CONTRACT.n-list-wrong-length", what="revert fix F4c")
V("c19-reader-real-parents", "C19", "fire", SE, "new_data = pd.DataFrame(sample[:, sorted(parents)])", "new_data = pd.DataFrame(self._data[k][:n[k], sorted(parents)])", rule="SLOTS.reader", what="children generated from the *observed* parents")
V("c19-reader-unsorted", "C19", "fire", SE, "new_data = pd.DataFrame(sample[:, sorted(parents)])", "new_data = pd.DataFrame(sample[:, list(parents)])", rule="SLOTS.reader", what="parent columns in set order")
V("c19-reader-wrong-env", "C19", "fire", SE, "                    forest = self._random_forests[i, k]\n", "                    forest = self._random_forests[i, 0]\n", rule="SLOTS.reader", what="always the first environment's forest")
V("c19-writer-wrong-slot", "C19", "fire", SE, "                    self._random_forests[i, k] = DRF\n", "                    self._random_forests[k, i] = DRF\n", rule="SLOTS.writer", what="forest stored transposed")
V("c19-writer-response", "C19", "fire", SE, "Y = pd.DataFrame(self._data[k][:, i])", "Y = pd.DataFrame(self._data[k][:, 0])", rule="SLOTS.writer", what="fitted on the wrong response")
V("c19-writer-all-envs", "C19", "fire", SE, "X = pd.DataFrame(self._data[k][:, sorted(parents)])", "X = pd.DataFrame(self._data[0][:, sorted(parents)])", rule="SLOTS.writer", what="regressors from environment 0")
V("c19-bootstrap-wrong-column", "C19", "fire", SE, "                        self._data[k][:, i], n[k], random_state=rng", "                        self._data[k][:, 0], n[k], random_state=rng", rule="SLOTS.bootstrap", what="sources resampled from column 0")
V("c19-natural-order", "C19", "fire", SE, "            for i in self._ordering:\n", "            for i in range(self.p):\n", rule="ORDER.nodes", what="children generated before their parents")
V("c19-bootstrap-global", "C19", "fire", SE, "    idx = rng.choice(len(data), n, replace=True)", "    idx = np.random.choice(len(data), n, replace=True)", rule="R", what="bootstrap from the global stream")
V("c19-bootstrap-sorted", "C19", "fire", SE, "    sample = data[idx]\n    return sample", "    sample = np.sort(data[idx], axis=0)\n    return sample", rule="BOOTSTRAP", what="bootstrap sample sorted: rows no longer observations")
V("c19-truthy-seed", "C19", "fire", SE, "        np.random.seed(random_state) if random_state is not None else None\n", "        np.random.seed(random_state) if random_state else None\n", rule="R", what="seed 0 not honoured for the forests")
V("c19-type-guard-dropped", "C19", "fire", SE, "        if not isinstance(graph, np.ndarray):\n            raise TypeError(_GRAPH_TYPE_ERROR)\n        elif graph.ndim != 2:", "        if graph.ndim != 2:", rule="CONTRACT.graph-not-ndarray", what="TypeError clause dropped")
V("c19-width-guard-rows", "C19", "fire", SE, "                elif sample.shape[1] != graph.shape[1]:", "                elif sample.shape[0] != graph.shape[1]:", rule="CONTRACT.sample-width", what="compares rows with variables")
V("c19-n-zero-allowed", "C19", "fire", SE, "        elif type(n) == int and n <= 0:", "        elif type(n) == int and n < 0:", rule="CONTRACT.n-not-positive", what="n = 0 accepted")
V("c19-no-super-sample", "C19", "fire", SE, "        # Checks inputs\n        super().sample(n)\n", "", rule="CONTRACT.delegated-sample", what="n never validated")
V("c19-silent-isinstance", "C19", "silent", SE, "        elif type(n) == int and n <= 0:", "        elif isinstance(n, int) and n <= 0:", what="isinstance for type ==")
V("c19-silent-seed-if", "C19", "silent", SE, "        np.random.seed(random_state) if random_state is not None else None\n", "        if random_state is not None:\n            np.random.seed(random_state)\n", what="if statement")

# ------------------------------------------------------------------------------- C07
V("c07-member-no-skeleton", "C07", "fire", UT, "return same_vstructures and same_orientation and same_skeleton", "return same_vstructures and same_orientation", rule="MEMBER", what="skeleton condition dropped")
V("c07-member-or", "C07", "fire", UT, "return same_vstructures and same_orientation and same_skeleton", "return same_vstructures or (same_orientation and same_skeleton)", rule="MEMBER", what="or instead of and", accept_inconclusive=True)
V("c07-member-vs-P-P", "C07", "fire", UT, "same_vstructures = vstructures(P) == vstructures(G)", "same_vstructures = vstructures(P) == vstructures(P)", rule="MEMBER", what="v-structures of G never looked at")
V("c07-member-orientation-any", "C07", "fire", UT, "same_orientation = G[directed_P != 0].all()", "same_orientation = G[directed_P != 0].any()", rule="MEMBER", what="one kept directed edge suffices", accept_inconclusive=True)
V("c07-filter-no-consistency", "C07", "fire", UT, "dags = [A for A in dags if is_dag(A) and is_consistent_extension(A, pdag)]", "dags = [A for A in dags if is_dag(A)]", rule="FILTER.both", what="inconsistent extensions returned")
V("c07-filter-swapped-args", "C07", "fire", UT, "dags = [A for A in dags if is_dag(A) and is_consistent_extension(A, pdag)]", "dags = [A for A in dags if is_dag(A) and is_consistent_extension(pdag, A)]", rule="FILTER.both", what="arguments swapped", accept_inconclusive=True)
V("c07-candidate-adds", "C07", "fire", UT, "        A[oriented_edges[:, 1], oriented_edges[:, 0]] = 0\n", "        A[oriented_edges[:, 1], oriented_edges[:, 0]] = 0\n        A[oriented_edges[:, 0], oriented_edges[:, 1]] = 1\n", rule="FILTER.candidates", what="candidates also write entries", accept_inconclusive=True)
V("c07-trivial-empty", "C07", "fire", UT, "        return np.array([pdag.copy()])\n", "        return np.array([])\n", rule="FILTER.trivial", what="fully directed PDAG has no extension")
V("c07-dispatch-always-chain", "C07", "fire", UT, "    if check_chain and is_chain_graph(A):\n        return chain_graph_MEC(len(A))", "    if check_chain:\n        return chain_graph_MEC(len(A))", rule="DISPATCH", what="every DAG treated as a chain")
V("c07-dispatch-skeleton-chain", "C07", "fire", UT, "        cpdag = dag_to_cpdag(A)\n        return all_dags(cpdag)", "        cpdag = skeleton(A)\n        return all_dags(cpdag)", rule="DISPATCH", what="enumerates all orientations of the skeleton")
V("c07-chain-misses-last", "C07", "fire", UT, "        for j in range(i, p - 1):\n            A[j, j + 1] = 1", "        for j in range(i, p - 2):\n            A[j, j + 1] = 1", rule="CHAIN.partition", what="last chain edge never oriented")
V("c07-chain-forward-wrong-way", "C07", "fire", UT, "        for j in range(i, p - 1):\n            A[j, j + 1] = 1", "        for j in range(i, p - 1):\n            A[j + 1, j] = 1", rule="CHAIN.partition", what="forward half oriented towards the root")
V("c07-chain-roots-short", "C07", "fire", UT, "    MEC = []\n    for i in range(p):", "    MEC = []\n    for i in range(p - 1):", rule="CHAIN", what="one member of the chain MEC missing")
V("c07-chain-shared-matrix", "C07", "fire", UT, "    MEC = []\n    for i in range(p):\n        A = np.zeros((p, p))\n", "    MEC = []\n    A = np.zeros((p, p))\n    for i in range(p):\n", rule="CHAIN", what="one matrix reused for all roots", accept_inconclusive=True)
V("c07-silent-member-order", "C07", "silent", UT, "return same_vstructures and same_orientation and same_skeleton", "return same_skeleton and same_vstructures and same_orientation", what="conjunct order")
V("c07-silent-filter-loop", "C07", "silent", UT, "same_skeleton = (skeleton(P) == skeleton(G)).all()", "same_skeleton = (skeleton(G) == skeleton(P)).all()", what="operands of == swapped")

# ------------------------------------------------------------------------------- C08
V("c08-rev-constant", "C08", "fire", UT, "    COM, REV, UNK = 1, -1, -2\n", "    COM, REV, UNK = 1, -3, -2\n", rule="LABELS.agree", what="reversible label no longer the one dag_to_cpdag reads")
V("c08-reader-constant", "C08", "fire", UT, "    fros, tos = np.where(labelled == -1)", "    fros, tos = np.where(labelled == -2)", rule="LABELS.agree", what="assembler reads the unknown marker")
V("c08-unknown-collides", "C08", "fire", UT, "    COM, REV, UNK = 1, -1, -2\n", "    COM, REV, UNK = 1, -1, -1\n", rule="LABELS", what="unknown marker equals reversible")
V("c08-rev-one-direction", "C08", "fire", UT, "        cpdag[x, y], cpdag[y, x] = 1, 1\n", "        cpdag[x, y] = 1\n", rule="LABELS.assembly", what="reversible edges stay directed")
V("c08-compelled-dropped", "C08", "fire", UT, "    cpdag[labelled == 1] = labelled[labelled == 1]\n", "", rule="LABELS.assembly", what="compelled edges vanish")
V("c08-order-marker", "C08", "fire", UT, "    while (ordered == -1).any():", "    while (ordered == -2).any():", rule="ORDER.marker", what="loop tests another marker: nothing is ordered")
V("c08-order-from-zero", "C08", "fire", UT, "    ordered = (G != 0).astype(int) * -1\n    i = 1\n", "    ordered = (G != 0).astype(int) * -1\n    i = -1\n", rule="ORDER.marker", what="first label collides with the marker")
V("c08-order-raw", "C08", "fire", UT, "    ordered = (G != 0).astype(int) * -1\n", "    ordered = G * -1\n", rule=None, what="weights used as markers", accept_inconclusive=True)
V("c08-swallow-extension-error", "C08", "fire", UT, "    dag = pdag_to_dag(pdag)\n    # 2. Recover the cpdag\n    return dag_to_cpdag(dag)", "    try:\n        dag = pdag_to_dag(pdag)\n    except ValueError:\n        dag = only_directed(pdag)\n    # 2. Recover the cpdag\n    return dag_to_cpdag(dag)", rule="EXTENSION", what="no ValueError when no extension exists")
V("c08-local-index-store", "C08", "fire", UT, "                for j in real_neighbors:\n                    G[j, real_i] = 1\n", "                for j in n_i:\n                    G[j, real_i] = 1\n", rule="INDEX.real-names", what="local index used as a node name")
V("c08-orient-away", "C08", "fire", UT, "                for j in real_neighbors:\n                    G[j, real_i] = 1\n", "                for j in real_neighbors:\n                    G[real_i, j] = 1\n", rule="INDEX.real-names", what="edges oriented out of the sink")
V("c08-indexes-not-shrunk", "C08", "fire", UT, "                indexes.remove(real_i)  # to keep track of the real\n", "                pass\n", rule="INDEX.pairing", what="name list out of step with the matrix")
V("c08-silent-label-names", "C08", "silent", UT, "    fros, tos = np.where(labelled == -1)", "    REVERSIBLE = -1\n    fros, tos = np.where(labelled == REVERSIBLE)", what="named constant")

# ------------------------------------------------------------------------------- C10
V("c10-targets-guard-dropped", "C10", "fire", UT, "    if not I <= set(range(len(A))):\n        raise ValueError(\"Targets I must be a subset of [p].\")\n", "", rule="GUARD.targets", what="out-of-range targets accepted")
V("c10-imec-ignores-I", "C10", "fire", UT, "        icpdag = dag_to_icpdag(A, I)\n        return all_dags(icpdag)", "        icpdag = dag_to_cpdag(A)\n        return all_dags(icpdag)", rule="DISPATCH", what="imec returns the whole MEC")
V("c10-chain-filter-rows", "C10", "fire", UT, "        if (me[:, I] == A[:, I]).all():", "        if (me[I, :] == A[I, :]).all():", rule="COLUMNS", what="compares children instead of parents")
V("c10-chain-filter-any", "C10", "fire", UT, "        if (me[:, I] == A[:, I]).all():", "        if (me[:, I] == A[:, I]).any():", rule="COLUMNS", what="one matching entry suffices")
V("c10-edges-parents-reversed", "C10", "fire", UT, "        directed_edges += [(j, i) for j in pa(i, G)]\n", "        directed_edges += [(i, j) for j in pa(i, G)]\n", rule="ORIENT.edges", what="parent edges fixed in the wrong direction")
V("c10-edges-no-parents", "C10", "fire", UT, "        directed_edges += [(j, i) for j in pa(i, G)]\n", "", rule="ORIENT.edges", what="incoming edges at targets not fixed")
V("c10-clear-forward", "C10", "fire", UT, "        (x, y) = directed_edges.pop()\n        P[y, x] = 0\n", "        (x, y) = directed_edges.pop()\n        P[x, y] = 0\n", rule="ORIENT.clear", what="clears the edge itself instead of its reverse")
V("c10-meek-first-branch", "C10", "fire", UT, "                    print('Rules: %s => Oriented %d -> %d' % (rules, i, j))\n                P[j, i] = 0\n", "                    print('Rules: %s => Oriented %d -> %d' % (rules, i, j))\n                P[i, j] = 0\n", rule="ORIENT.meek", what="first Meek branch orients against the rules")
V("c10-meek-second-guard", "C10", "fire", UT, "            elif rule_1(j, i, P) or rule_2(j, i, P) or rule_3(j, i, P) or rule_4(j, i, P):", "            elif rule_1(j, i, P) or rule_2(j, i, P) or rule_3(i, j, P) or rule_4(j, i, P):", rule="ORIENT.meek", what="one rule called with swapped arguments")
V("c10-meek-rule-missing", "C10", "fire", UT, "            if rule_1(i, j, P) or rule_2(i, j, P) or rule_3(i, j, P) or rule_4(i, j, P):", "            if rule_1(i, j, P) or rule_2(i, j, P) or rule_3(i, j, P):", rule="ORIENT.meek", what="rule 4 not applied in one direction")
V("c10-meek-no-copy", "C10", "fire", UT, "        raise e\n    P = P.copy()\n", "        raise e\n    P = P + 0\n", rule="ORIENT.fixpoint", what="copy idiom not recognised", accept_inconclusive=True)
V("c10-pdag-guard-dropped", "C10", "fire", UT, "    for i in I:\n        if len(neighbors(i, P)) > 0:\n            msg = \"Invalid PDAG: has undirected edges around %d for I=%s\"\n            raise ValueError(msg % (i, I))\n", "", rule="GUARD.undirected-at-target", what="undirected edges at targets accepted")
V("c10-pdag-guard-adj", "C10", "fire", UT, "        if len(neighbors(i, P)) > 0:\n            msg", "        if len(ch(i, P)) > 0:\n            msg", rule="GUARD.undirected-at-target", what="guard tests children")
V("c10-no-final-assert", "C10", "fire", UT, "    assert is_consistent_extension(G, P)\n    return P\n", "    return P\n", rule="RESULT", what="consistency assertion removed")
V("c10-silent-issubset", "C10", "silent", UT, "    if not I <= set(range(len(A))):", "    if not I.issubset(range(len(A))):", what="issubset spelling")
V("c10-silent-guard-nonempty", "C10", "silent", UT, "        if len(neighbors(i, P)) > 0:\n            msg", "        if neighbors(i, P) != set():\n            msg", what="emptiness spelling")

# ------------------------------------------------------------------------------- C03 (Kahn shape)
V("c03-kahn-axis1", "C03", "fire", UT, "sinks = list(np.where(A.sum(axis=0) == 0)[0])", "sinks = list(np.where(A.sum(axis=1) == 0)[0])", rule="KAHN.sources", what="starts from the nodes without children")
V("c03-kahn-no-removal", "C03", "fire", UT, "        for j in ch(i, A):\n            A[i, j] = 0\n            if len(pa(j, A)) == 0:", "        for j in ch(i, A):\n            if len(pa(j, A)) == 0:", rule="KAHN", what="visited edges never removed")
V("c03-kahn-ready-on-children", "C03", "fire", UT, "            if len(pa(j, A)) == 0:\n                sinks.append(j)", "            if len(ch(j, A)) == 0:\n                sinks.append(j)", rule="KAHN.ready", what="readiness tested on children")
V("c03-kahn-ready-le1", "C03", "fire", UT, "            if len(pa(j, A)) == 0:\n                sinks.append(j)", "            if len(pa(j, A)) <= 1:\n                sinks.append(j)", rule="KAHN.ready", what="child released with one parent left")
V("c03-kahn-no-leftover-check", "C03", "fire", UT, "    if A.sum() > 0:\n        raise ValueError(\"The given graph is not a DAG\")\n    else:\n        return ordering", "    return ordering", rule="KAHN.leftover", what="cycles of length >= 3 accepted")
V("c03-kahn-emit-child", "C03", "fire", UT, "        i = sinks.pop()\n        ordering.append(i)\n", "        i = sinks.pop()\n", more=[(UT, "                sinks.append(j)\n    # If A still contains", "                sinks.append(j)\n                ordering.append(j)\n    # If A still contains")], rule="KAHN.emit", what="sources never emitted")
V("c03-kahn-transposed-removal", "C03", "fire", UT, "        for j in ch(i, A):\n            A[i, j] = 0\n", "        for j in ch(i, A):\n            A[j, i] = 0\n", rule="KAHN.remove-edge", what="removes the reverse entry")
V("c03-silent-kahn-any", "C03", "silent", UT, "    if A.sum() > 0:\n        raise ValueError(\"The given graph is not a DAG\")\n    else:\n        return ordering", "    if A.any():\n        raise ValueError(\"The given graph is not a DAG\")\n    return ordering", what="any() for sum() > 0, no else")

# ------------------------------------------------------------------------------- C05 (seed-inspired)
V("c05-marginal-fastpath", "C05", "fire", ND, "        X = np.atleast_1d(X)\n        # Compute marginal mean/variance\n", "        X = np.atleast_1d(X)\n        if len(X) == self.p:\n            return NormalDistribution(self.mean, self.covariance)\n        # Compute marginal mean/variance\n",
  rule="FORMULA.marginal", what="all-variables fast path ignores the requested order")
V("c05-x-cast-to-mean-dtype", "C05", "fire", ND, "        x = np.atleast_1d(x)\n", "        x = np.atleast_1d(np.asarray(x, dtype=self.mean.dtype))\n", rule="DTYPE", what="conditioning values truncated for integer means")
V("c05-silent-x-float", "C05", "silent", ND, "        x = np.atleast_1d(x)\n", "        x = np.atleast_1d(np.asarray(x, dtype=float))\n", what="explicit float cast of x")

# ------------------------------------------------------------------------------- seed-inspired (C15, C18, C08, C01, C02)
V("c15-sep-truthy-node", "C15", "fire", UT, "                if set(path) & S == set():\n", "                if not any(s for s in S if s in path):\n", rule="TRUTHY", what="truth value of node labels: node 0 never blocks")
V("c15-silent-sep-any", "C15", "silent", UT, "                if set(path) & S == set():\n", "                if not any(s in path for s in S):\n", what="equivalent membership formulation")
V("c15-silent-sep-disjoint", "C15", "silent", UT, "                if set(path) & S == set():\n", "                if set(path).isdisjoint(S):\n", what="isdisjoint")
V("c18-for-loop-zero-request", "C18", "fire", UT, "    i = 0\n    while (supergraph.sum() - A.sum()) < no_edges and i < len(edges):\n        next_supergraph = supergraph.copy()\n        next_supergraph[edges[i]] = 1\n        i += 1\n        if is_dag(next_supergraph):\n            supergraph = next_supergraph\n",
  "    added = 0\n    for edge in edges:\n        next_supergraph = supergraph.copy()\n        next_supergraph[edge] = 1\n        if is_dag(next_supergraph):\n            supergraph = next_supergraph\n            added += 1\n            if added == no_edges:\n                break\n",
  rule="LOOP.count-guard", what="for-loop rewrite stops only after an addition: no_edges = 0 keeps adding", accept_inconclusive=True)
V("c18-silent-for-loop", "C18", "silent", UT, "    i = 0\n    while (supergraph.sum() - A.sum()) < no_edges and i < len(edges):\n        next_supergraph = supergraph.copy()\n        next_supergraph[edges[i]] = 1\n        i += 1\n        if is_dag(next_supergraph):\n            supergraph = next_supergraph\n",
  "    added = 0\n    for edge in edges:\n        if added == no_edges:\n            break\n        next_supergraph = supergraph.copy()\n        next_supergraph[edge] = 1\n        if is_dag(next_supergraph):\n            supergraph = next_supergraph\n            added += 1\n",
  what="correct for-loop rewrite with the count check at the top of each round")
V("c08-order-indexed-by-node", "C08", "fire", UT, "        x = sort(unlabelled_parents_y, order)[0]\n", "        x = unlabelled_parents_y[np.argmin(np.array(order)[unlabelled_parents_y])]\n", rule="INDEX.ordering", what="permutation used as its inverse")
V("c01-merged-dict-noise-wins", "C01", "fire", LG, NOISE_BLOCK + "\n        # Perform do interventions. Note that they take preference\n        # i.e. \"override\" shift and noise interventions\n" + DO_BLOCK,
  "        new_noise = dict(do_interventions or {})\n        new_noise.update(noise_interventions or {})\n        if new_noise:\n            new_noise = _parse_interventions(new_noise)\n            targets = new_noise[:, 0].astype(int)\n            means[targets] = new_noise[:, 1]\n            variances[targets] = new_noise[:, 2]\n        if do_interventions:\n            targets = np.array(list(do_interventions.keys())).astype(int)\n            W[:, targets] = 0\n",
  rule="CASES", what="merged dict: noise parameters win on a shared do/noise target")
V("c01-silent-merged-dict", "C01", "silent", LG, NOISE_BLOCK + "\n        # Perform do interventions. Note that they take preference\n        # i.e. \"override\" shift and noise interventions\n" + DO_BLOCK,
  "        new_noise = dict(noise_interventions or {})\n        new_noise.update(do_interventions or {})\n        if new_noise:\n            new_noise = _parse_interventions(new_noise)\n            targets = new_noise[:, 0].astype(int)\n            means[targets] = new_noise[:, 1]\n            variances[targets] = new_noise[:, 2]\n        if do_interventions:\n            targets = np.array(list(do_interventions.keys())).astype(int)\n            W[:, targets] = 0\n",
  what="merged dict with do overriding noise: same outcome table")
V("c01-unique-targets", "C01", "fire", LG, "            targets = do_interventions[:, 0].astype(int)\n", "            targets = np.unique(do_interventions[:, 0].astype(int))\n", rule="CASES", what="targets sorted, parameters not")
V("c01-mask-targets", "C01", "fire", LG, "            targets = do_interventions[:, 0].astype(int)\n",
  "            targets = np.zeros(self.p, dtype=bool)\n            targets[do_interventions[:, 0].astype(int)] = True\n", rule="CASES",
  what="do-targets as a boolean membership mask: the mask fills in ascending index order, the parameter columns stay in dict order (seed C01-r13-2)")
V("c01-silent-mask-cut-only", "C01", "silent", LG, "            W[:, targets] = 0\n",
  "            cut = np.zeros(self.p, dtype=bool)\n            cut[targets] = True\n            W[:, cut] = 0\n",
  what="only the edge removal goes through a membership mask: which columns are cut does not depend on their order")
V("c01-result-type-dtype", "C01", "fire", LG, "        variances = self.variances.astype(float)\n        means = self.means.astype(float)\n", "        dtype = np.result_type(self.W, self.means, self.variances)\n        variances = self.variances.astype(dtype)\n        means = self.means.astype(dtype)\n", rule="DTYPE", what="common dtype of the model arrays: all-integer models truncate")
V("c02-cancelling-source-shortcut", "C02", "fire", AN, "                assignment = np.transpose(self.assignments[i](X[:, self.A[:, i] != 0]))\n", "                if self.A[:, i].sum() == 0:\n                    assignment = 0\n                else:\n                    assignment = np.transpose(self.assignments[i](X[:, self.A[:, i] != 0]))\n", rule="PAT", what="parentless shortcut decided by the signed column sum")
V("c02-set-order-parents", "C02", "fire", AN, "                assignment = np.transpose(self.assignments[i](X[:, self.A[:, i] != 0]))\n", "                parents = list(utils.pa(i, self.A))\n                assignment = np.transpose(self.assignments[i](X[:, parents]))\n", rule="CASES", what="parent columns in set-iteration order")
V("c02-cached-parent-sets", "C02", "fire", AN, "        self.A = deepcopy(A)\n", "        self.A = deepcopy(A)\n        self.parents = [utils.pa(i, self.A) for i in range(self.p)]\n", rule="CASES",
  more=[(AN, "                assignment = np.transpose(self.assignments[i](X[:, self.A[:, i] != 0]))\n", "                parents = list(self.parents[i])\n                assignment = np.transpose(self.assignments[i](X[:, parents]))\n")],
  what="parent sets cached by the constructor, listed in set-iteration order by sample (seed C02-r14-1: two sites, p >= 9)")
V("c02-silent-cached-parent-lists", "C02", "silent", AN, "        self.A = deepcopy(A)\n", "        self.A = deepcopy(A)\n        self.parents = [utils.pa(i, self.A) for i in range(self.p)]\n",
  more=[(AN, "                assignment = np.transpose(self.assignments[i](X[:, self.A[:, i] != 0]))\n", "                parents = sorted(self.parents[i])\n                assignment = np.transpose(self.assignments[i](X[:, parents]))\n")],
  what="cached parent sets, sorted at the use: the same columns in increasing index")
_OD_FLAG = [(UT, "def only_directed(P):", "def only_directed(P, weights=True):"),
            (UT, "    mask = np.logical_and(P != 0, P.T == 0)\n    G = np.zeros_like(P)\n", "    mask = np.logical_and(P != 0, P.T == 0)\n    if not weights:\n        return mask.astype(int)\n    G = np.zeros_like(P)\n")]
_VS_OLD = "    dir_A = only_directed(A)\n    # Search for colliders in the graph with only directed edges\n    colliders = np.where((dir_A != 0).sum(axis=0) > 1)[0]\n"
_VS_FLAG = "    dir_A = only_directed(A, weights=False)\n    colliders = np.where(dir_A.sum(axis=0) > 1)[0]\n"
for _p, _e in (("C07", "silent"), ("C10", "silent"), ("C16", "undecided")):
    V("r14-%s-flag-binary-only-directed" % _p.lower(), _p, _e, UT, _VS_OLD, _VS_FLAG, more=_OD_FLAG,
      what="only_directed(A, weights=False) is the 0/1 mask: column sums of it count directed parents exactly (twin of seed C16-r14-1; a literal keyword selects the helper's branch)")
V("r14-c16-flag-weighted-only-directed", "C16", "fire", UT, _VS_OLD, _VS_FLAG.replace("weights=False", "weights=True"), more=_OD_FLAG, rule="PAT",
  what="the same call with weights=True: column sums of signed weights decide the collider pre-filter")
V("r14-c16-moral-matmul", "C16", "fire", UT, "    for (i, _, j) in vstructures(A):\n        moral[i, j] = 1\n        moral[j, i] = 1\n",
  "    D = only_directed(A)\n    common = D @ D.T\n    moral[common != 0] = 1\n    moral[np.diag_indices(len(A))] = 0\n", rule="PAT",
  what="parents married through D @ D.T on signed weights: products over several common children cancel (seed C16-r14-1)")
V("c10-pattern-chain-test", "C10", "fire", UT, "    return (A == chain_graph(p)).all()", "    return ((A != 0) == (chain_graph(p) != 0)).all()", rule="PAT", what="pattern-based chain test lets weighted chains into the value-comparing shortcut")

# ------------------------------------------------------------------------------- more seed-inspired variants
V("c14-shared-zero-buffer", "C14", "fire", NO, "def zero():\n    return lambda n: np.zeros(n)", "_ZEROS = np.zeros(4096)\n\n\ndef zero():\n    return lambda n: _ZEROS[:n] if n <= len(_ZEROS) else np.zeros(n)", rule="M4", what="factory hands out views of one module-level buffer")
V("c14-cached-observational", "C14", "fire", LG, "        distribution = NormalDistribution(mean, covariance)\n", "        distribution = NormalDistribution(mean, covariance)\n        self._last = distribution\n", rule="M2.rebind", what="sample caches state on the model")
V("c14-parse-writes-caller-dict", "C14", "fire", LG, "            interventions.append([target, params, 0])", "            interventions_dict[target] = (params, 0)\n            interventions.append([target, params, 0])", rule="M", what="the caller's intervention dict is rewritten")
V("c04-pointmass-postprocessing", "C04", "fire", ND, "        return np.random.multivariate_normal(self.mean, self.covariance, size=n)", "        X = np.random.multivariate_normal(self.mean, self.covariance, size=n)\n        const = np.where(self.covariance.sum(axis=0) == 0)[0]\n        X[:, const] = self.mean[const]\n        return X", rule="NODECISION", what="point masses detected by a signed column sum")
V("c06-mse-snapped-to-zero", "C06", "fire", ND, "        return mse\n", "        return 0.0 if np.isclose(mse, 0) else mse\n", rule=None, what="tiny residual variances reported as 0 (a value-dependent branch: NODECISION / TRAP.approx-branch; the formula comparison does not decide a branch-dependent value)")
V("c12-skip-empty-intervention", "C12", "fire", GE, "            intervention = list(rng.choice(list(remaining_targets), size=sizes[i], replace=False))\n", "            if sizes[i] == 0:\n                continue\n            intervention = list(rng.choice(list(remaining_targets), size=sizes[i], replace=False))\n", rule="COUNT", what="size-0 interventions dropped: fewer than K lists")
V("c12-max-guard-elif", "C12", "fire", GE, "    if not replace:\n        if max_size * K > p:\n            raise ValueError(\n                \"Cannot sample targets without replacement for the given intervention size and number of interventions.\")\n    # Check max size condition\n    if max_size > p:",
  "    if not replace:\n        if max_size * K > p:\n            raise ValueError(\n                \"Cannot sample targets without replacement for the given intervention size and number of interventions.\")\n    # Check max size condition\n    elif max_size > p:", rule="GUARD.max-size", what="max-size check skipped without replacement (K = 0)")
V("c17-negative-offset-remainder", "C17", "fire", UT, "                fold_sample = sample[start::]\n", "                remaining = max(n - start, 0)\n                fold_sample = sample[-remaining:]\n", rule="CONTIG", what="sample[-0:] is the whole sample")
V("c13-do-draws-before-seed", "C13", "fire", AN, "        # Set random state (if requested)\n        np.random.seed(random_state) if random_state is not None else None\n", "        do_draws = dict((i, f(n)) for i, f in do_interventions.items())\n        # Set random state (if requested)\n        np.random.seed(random_state) if random_state is not None else None\n", rule="R1.global", what="draws hoisted above the seeding line")
V("c15-closure-by-weight-powers", "C15", "fire", UT, "    closure = np.zeros_like(A)\n    for i in range(len(A)):\n        desc = list(descendants(i, A) - {i})\n        closure[i, desc] = 1\n    return closure", "    walks = np.zeros_like(A)\n    power = A.copy()\n    for _ in range(len(A) - 1):\n        walks = walks + power\n        power = power @ A\n    return (walks != 0).astype(A.dtype)", rule="PAT.result", what="reachability from powers of the weights: cancelling routes vanish")
V("c19-fit-unsorted-parents", "C19", "fire", SE, "X = pd.DataFrame(self._data[k][:, sorted(parents)])", "X = pd.DataFrame(self._data[k][:, list(parents)])", rule="SLOTS.writer", what="forest fitted on parents in set order, queried in sorted order")
V("c20-uniform-falsy-bound", "C20", "fire", NO, "def uniform(lo=0, hi=1):\n    return lambda n: np.random.uniform(lo, hi, n)", "def uniform(lo=None, hi=None):\n    lo, hi = lo or 0, hi or 1\n    return lambda n: np.random.uniform(lo, hi, n)", rule="SLOTS.uniform", what="an upper bound of exactly 0 is replaced by 1")
V("c11-inverse-relabelling", "C11", "fire", GE, "    permutation = rng.permutation(p)\n    # Note the actual topological ordering is the \"conjugate\" of permutation eg. [3,1,2] -> [2,3,1]\n    if return_ordering:\n        return (W[permutation, :][:, permutation], np.argsort(permutation))\n    else:\n        return W[permutation, :][:, permutation]",
  "    permutation = rng.permutation(p)\n    permuted = np.zeros_like(W)\n    permuted[np.ix_(permutation, permutation)] = W\n    if return_ordering:\n        return (permuted, np.argsort(permutation))\n    else:\n        return permuted", rule="PERM", what="graph relabelled with the inverse permutation, ordering unchanged")

# ------------------------------------------------------------------------------- renaming of locals (must be silent)
def RN(prop, rel, qual):
    VARIANTS.append(dict(id="rn-%s-%s" % (prop.lower(), qual.replace(".", "-")), prop=prop, expect="silent", edits=[("@rename_locals", rel, qual)], rule=None,
                         what="every local variable of %s renamed; function re-emitted by ast.unparse" % qual))


for _p, _rel, _q in [
    ("C01", LG, "LGANM.sample"), ("C01", LG, "_parse_interventions"), ("C01", LG, "LGANM.__init__"),
    ("C02", AN, "ANM.sample"), ("C02", AN, "ANM.__init__"),
    ("C03", UT, "topological_ordering"), ("C03", UT, "is_dag"), ("C03", LG, "LGANM.__init__"), ("C03", SE, "BayesianNetwork.__init__"),
    ("C04", ND, "NormalDistribution.sample"), ("C04", LG, "LGANM.sample"),
    ("C05", ND, "NormalDistribution.conditional"), ("C05", ND, "NormalDistribution.marginal"), ("C05", ND, "NormalDistribution.__init__"),
    ("C06", ND, "NormalDistribution.regress"), ("C06", ND, "NormalDistribution.mse"),
    ("C07", UT, "all_dags"), ("C07", UT, "chain_graph_MEC"), ("C07", UT, "is_consistent_extension"), ("C07", UT, "mec"),
    ("C08", UT, "dag_to_cpdag"), ("C08", UT, "label_edges"), ("C08", UT, "order_edges"), ("C08", UT, "pdag_to_dag"), ("C08", UT, "pdag_to_cpdag"),
    ("C10", UT, "dag_to_icpdag"), ("C10", UT, "maximally_orient"), ("C10", UT, "chain_graph_IMEC"), ("C10", UT, "imec"), ("C10", UT, "pdag_to_icpdag"),
    ("C11", GE, "dag_avg_deg"), ("C11", GE, "dag_full"),
    ("C12", GE, "intervention_targets"),
    ("C13", GE, "intervention_targets"), ("C13", UT, "split_data"), ("C13", AN, "ANM.sample"),
    ("C14", UT, "pdag_to_dag"), ("C14", UT, "semi_directed_paths"), ("C14", UT, "all_dags"), ("C14", LG, "LGANM.sample"),
    ("C15", UT, "semi_directed_paths"), ("C15", UT, "separates"), ("C15", UT, "chain_component"), ("C15", UT, "ancestors"), ("C15", UT, "desc"), ("C15", UT, "transitive_closure"),
    ("C16", UT, "vstructures"), ("C16", UT, "moral_graph"), ("C16", UT, "only_directed"), ("C16", UT, "induced_subgraph"), ("C16", UT, "is_clique"), ("C16", UT, "undirected_edges"), ("C16", UT, "edge_weights"),
    ("C17", UT, "split_data"),
    ("C18", UT, "add_edges"), ("C18", UT, "remove_edges"),
    ("C19", SE, "DRFNet.sample"), ("C19", SE, "DRFNet.__init__"), ("C19", SE, "_bootstrap"), ("C19", SE, "BayesianNetwork.sample"),
    ("C20", NO, "normal"), ("C20", NO, "uniform"),
]:
    RN(_p, _rel, _q)

# ------------------------------------------------------------------------------- whole-tree reformat (must be silent for every property)
for _i in [1, 2, 3, 4, 5, 6, 7, 8, 9, 10, 11, 12, 13, 14, 15, 16, 17, 18, 19, 20]:
    VARIANTS.append(dict(id="fmt-c%02d" % _i, prop="C%02d" % _i, expect="silent", edits=[("@unparse_all",)], rule=None,
                         what="every source file re-emitted by ast.unparse: comments, layout and line numbers change, nothing else"))

# ------------------------------------------------------------------------------- C16 seed-inspired
V("c16-skeleton-maximum", "C16", "fire", UT, "return ((A + A.T) != 0).astype(int)", "return (np.maximum(A, A.T) != 0).astype(int)", rule="PW.table", what="negative-weight edges vanish from the skeleton")
V("c16-isclique-upper-raw", "C16", "fire", UT, "    subgraph = skeleton(subgraph)  # drop edge orientations\n    no_edges = np.sum(subgraph != 0)\n    n = len(S)\n    return no_edges == n * (n - 1)",
  "    no_edges = np.sum(np.triu(subgraph, k=1) != 0)\n    n = len(S)\n    return no_edges == n * (n - 1) / 2", rule="PW.count", what="only upper-triangle entries counted: edges from a higher to a lower index are missed")
V("c16-silent-isclique-half", "C16", "silent", UT, "    no_edges = np.sum(subgraph != 0)\n    n = len(S)\n    return no_edges == n * (n - 1)",
  "    no_edges = np.sum(np.triu(subgraph, k=1) != 0)\n    n = len(S)\n    return no_edges == n * (n - 1) / 2", what="counting each unordered pair once on the (symmetric) skeleton")

# ------------------------------------------------------------------------------- helper extraction (must be silent)
V("c01-silent-helper-inplace", "C01", "silent", LG, "            means[targets] = noise_interventions[:, 1]\n            variances[targets] = noise_interventions[:, 2]\n",
  "            _replace(means, variances, targets, noise_interventions)\n",
  more=[(LG, "def _parse_interventions(interventions_dict):", "def _replace(means, variances, targets, parsed):\n    means[targets] = parsed[:, 1]\n    variances[targets] = parsed[:, 2]\n\n\ndef _parse_interventions(interventions_dict):")],
  what="in-place update of the working arrays moved into a private helper")
V("c14-silent-helper-inplace", "C14", "silent", LG, "            means[targets] = noise_interventions[:, 1]\n            variances[targets] = noise_interventions[:, 2]\n",
  "            _replace(means, variances, targets, noise_interventions)\n",
  more=[(LG, "def _parse_interventions(interventions_dict):", "def _replace(means, variances, targets, parsed):\n    means[targets] = parsed[:, 1]\n    variances[targets] = parsed[:, 2]\n\n\ndef _parse_interventions(interventions_dict):")],
  what="a private helper that writes its (fresh) arguments is not a violation")
V("c17-silent-helper-size", "C17", "silent", UT, "                fold_size = round(n * ratio)\n", "                fold_size = _fold_size(n, ratio)\n",
  more=[(UT, "def split_data(data, ratios, random_state=42):", "def _fold_size(n, ratio):\n    return round(n * ratio)\n\n\ndef split_data(data, ratios, random_state=42):")], what="fold size computed by a private helper")
V("c02-silent-helper-noise", "C02", "silent", AN, "                    noise = self.noise_distributions[i](n) + shift_interventions[i](n)\n", "                    noise = _shifted(self.noise_distributions[i], shift_interventions[i], n)\n",
  more=[(AN, "class ANM:", "def _shifted(original, shift, n):\n    return original(n) + shift(n)\n\n\nclass ANM:")], what="shifted noise drawn by a private helper")

# ------------------------------------------------------------------------------- C07 seed-inspired
V("c07-chain-test-by-sum", "C07", "fire", UT, "    return (A == chain_graph(p)).all()", "    ix = np.arange(p - 1)\n    return bool(A.sum() == p - 1 and (A[ix, ix + 1] != 0).all())", rule="PAT", what="chain test spoofed by weights that sum to p-1")
V("c07-silent-chain-array-equal", "C07", "silent", UT, "    return (A == chain_graph(p)).all()", "    return np.array_equal(A, chain_graph(p))", what="array_equal spelling of the exact chain test")
V("c14-memoised-chain-mec", "C14", "fire", UT, "from functools import reduce\n", "from functools import reduce, lru_cache\n", more=[(UT, "def chain_graph_MEC(p):", "@lru_cache(maxsize=None)\ndef chain_graph_MEC(p):")], rule="M4", what="memoised function hands out one shared array")

# ------------------------------------------------------------------------------- C07 orientations
V("c07-orient-same-columns", "C07", "fire", UT, "oriented_edges[flipped == False, :] = undirected_edges[:, [0, 1]][flipped == False]", "oriented_edges[flipped == False, :] = undirected_edges[:, [1, 0]][flipped == False]", rule="ORIENTATIONS.both-ways", what="both choices give the same orientation: half of the extensions are never generated")
V("c07-orient-mask-not-complement", "C07", "fire", UT, "oriented_edges[flipped == False, :] = undirected_edges[:, [0, 1]][flipped == False]", "oriented_edges[flipped, :] = undirected_edges[:, [0, 1]][flipped]", rule="ORIENTATIONS.both-ways", what="unflipped edges keep stale orientations of the previous combination")
V("c07-product-one-short", "C07", "fire", UT, "combinations = cartesian([np.array([True, False])] * len(undirected_edges), dtype=bool)", "combinations = cartesian([np.array([True, False])] * (len(undirected_edges) - 1) + [np.array([True])], dtype=bool)", rule="ORIENTATIONS.product", what="last undirected edge only ever oriented one way", accept_inconclusive=True)
V("c07-silent-orient-not", "C07", "silent", UT, "oriented_edges[flipped == False, :] = undirected_edges[:, [0, 1]][flipped == False]", "oriented_edges[~flipped, :] = undirected_edges[~flipped]", what="~mask and plain rows for the unflipped edges")

# ------------------------------------------------------------------------------- C01 round-2 inspired
PARSE_OLD = """        if type(params) == tuple and len(params) == 2:
            interventions.append([target, params[0], params[1]])
        # Only mean provided, assume we're setting the variable to a deterministic value
        elif type(params) in [float, int]:
            interventions.append([target, params, 0])
        else:
            raise ValueError("Wrongly specified intervention")
"""
V("c01-parse-variance-carried", "C01", "fire", LG, "    interventions = []\n    for (target, params) in interventions_dict.items():\n        # Mean and variance provided\n" + PARSE_OLD,
  "    interventions = []\n    variance = 0\n    for (target, params) in interventions_dict.items():\n        if type(params) == tuple and len(params) == 2:\n            mean, variance = params\n        elif type(params) in [float, int]:\n            mean = params\n        else:\n            raise ValueError(\"Wrongly specified intervention\")\n        interventions.append([target, mean, variance])\n",
  rule="LAYOUT.producer", what="a scalar entry after a tuple entry inherits that tuple's variance")
V("c01-silent-parse-single-append", "C01", "silent", LG, "    interventions = []\n    for (target, params) in interventions_dict.items():\n        # Mean and variance provided\n" + PARSE_OLD,
  "    interventions = []\n    for (target, params) in interventions_dict.items():\n        if type(params) == tuple and len(params) == 2:\n            mean, variance = params\n        elif type(params) in [float, int]:\n            mean, variance = params, 0\n        else:\n            raise ValueError(\"Wrongly specified intervention\")\n        interventions.append([target, mean, variance])\n",
  what="single append with both fields set in every branch")

# ------------------------------------------------------------------------------- round-2 inspired (C01, C05)
V("c01-forward-substitution", "C01", "fire", LG, "        A = np.linalg.inv(np.eye(self.p) - W.T)\n", "        A = np.eye(self.p)\n        for i in range(1, self.p):\n            A[i] += W[:i, i] @ A[:i]\n", rule="FORMULA.whole-W", what="forward substitution assumes the variables are indexed in topological order")
V("c05-independence-shortcut", "C05", "fire", ND, "        cov_yx = utils.matrix_block(self.covariance, Y, X)\n", "        cov_yx = utils.matrix_block(self.covariance, Y, X)\n        if np.allclose(cov_yx, 0):\n            return self.marginal(Y)\n", rule="NODECISION", what="absolute-tolerance independence shortcut ignores x for small-scale variables")
V("c05-precision-cache", "C05", "fire", ND, "        self.covariance = covariance.copy()\n", "        self.covariance = covariance.copy()\n        self._precisions = {}\n",
  more=[(ND, "        mean = mean_y + cov_yx @ np.linalg.inv(cov_x) @ (x - mean_x)\n        covariance = cov_y - cov_yx @ np.linalg.inv(cov_x) @ cov_xy\n",
         "        key = frozenset(X)\n        if key not in self._precisions:\n            self._precisions[key] = np.linalg.inv(cov_x)\n        prec = self._precisions[key]\n        mean = mean_y + cov_yx @ prec @ (x - mean_x)\n        covariance = cov_y - cov_yx @ prec @ cov_xy\n")],
  rule="HISTORY", what="inverse cached under the unordered set of X: a second call with X in another order mixes two orderings")

# ------------------------------------------------------------------------------- helper extraction in topological_ordering (silent) / memoised worker (fire, C14)
KAHN_BODY_OLD = "    # Work on the zero pattern only: weights may be negative or cancel\n    A = (A != 0).astype(int)\n"
V("c03-silent-kahn-helper", "C03", "silent", UT, KAHN_BODY_OLD, "    return _kahn((A != 0).astype(int))\n\n\ndef _kahn(A):\n", what="Kahn body moved into a private helper working on the 0/1 pattern")
V("c14-memoised-kahn-worker", "C14", "fire", UT, "from functools import reduce\n", "from functools import reduce, lru_cache\n",
  more=[(UT, KAHN_BODY_OLD, "    pattern = np.asarray(A) != 0\n    return _kahn(pattern.tobytes(), len(pattern))\n\n\n@lru_cache(maxsize=512)\ndef _kahn(pattern, p):\n    A = np.frombuffer(pattern, dtype=bool).reshape(p, p).astype(int)\n")],
  rule="M4", what="memoised worker returns one shared ordering list per zero pattern")

# ------------------------------------------------------------------------------- round-2 inspired (C02, C06, C10)
V("c02-shift-inplace-on-callable-result", "C02", "fire", AN, "                    noise = self.noise_distributions[i](n) + shift_interventions[i](n)\n", "                    noise = self.noise_distributions[i](n)\n                    noise += shift_interventions[i](n)\n", rule="OWN.writes", what="`+=` writes into the array the user's noise callable returned")
V("c02-shift-after-branch", "C02", "fire", AN, "                X[:, i] = assignment + noise\n", "                X[:, i] = assignment + noise\n            if i in shift_interventions and i in do_interventions:\n                X[:, i] += shift_interventions[i](n)\n", rule="CASES", what="a shift is also applied to do-intervened variables")
V("c06-regress-fullset-fastpath", "C06", "fire", ND, "            cov_xs = self.covariance[:, Xs][Xs, :]  #", "            cov_xs = self.covariance if len(Xs) == self.p else self.covariance[:, Xs][Xs, :]  #", rule="FORMULA.coefs", what="full regressor set in non-ascending order uses the unpermuted covariance")
V("c10-rule1-isdisjoint", "C10", "fire", UT, "    if len(pa(i, A)) > 0 and not pa(i, A) <= adj(j, A):", "    if len(pa(i, A)) > 0 and pa(i, A).isdisjoint(adj(j, A)):", rule="RULES.rule_1", what="rule 1 fires only when *no* parent is adjacent")
V("c10-rule2-children-both", "C10", "fire", UT, "    return len(ch(i, A) & pa(j, A)) > 0", "    return len(ch(i, A) & ch(j, A)) > 0", rule="RULES.rule_2", what="rule 2 tests a common child", accept_inconclusive=True)
V("c10-silent-rule1-difference", "C10", "silent", UT, "    if len(pa(i, A)) > 0 and not pa(i, A) <= adj(j, A):", "    if len(pa(i, A) - adj(j, A)) > 0:", what="rule 1 as non-empty difference")
V("c10-silent-rule2-disjoint", "C10", "silent", UT, "    return len(ch(i, A) & pa(j, A)) > 0", "    return not ch(i, A).isdisjoint(pa(j, A))", what="rule 2 via isdisjoint")
V("c10-guard-via-edge-list", "C10", "fire", UT, "    for i in I:\n        if len(neighbors(i, P)) > 0:\n            msg = \"Invalid PDAG: has undirected edges around %d for I=%s\"\n            raise ValueError(msg % (i, I))\n",
  "    for (i, _) in undirected_edges(P):\n        if i in I:\n            msg = \"Invalid PDAG: has undirected edges around %d for I=%s\"\n            raise ValueError(msg % (i, I))\n", rule="GUARD.undirected-at-target", what="only the larger endpoint of each undirected edge is compared with the targets")

# ------------------------------------------------------------------------------- round-2 inspired (C19, C20)
DRF_NEW = "                    # Using default values from DRF repository\n                    DRF = drf.drf(\n                        min_node_size=15, num_trees=2000, splitting_rule=\"FourierMMD\"\n                    )\n"
V("c19-forest-hoisted", "C19", "fire", SE, DRF_NEW, "", rule="SLOTS.fresh",
  more=[(SE, "                for k in range(self.e):\n                    print(\n                        \"    fitting environment", "                DRF = drf.drf(min_node_size=15, num_trees=2000, splitting_rule=\"FourierMMD\")\n                for k in range(self.e):\n                    print(\n                        \"    fitting environment")],
  what="one forest wrapper per node: every environment's slot aliases the object that holds the last fit")
V("c19-forest-hoisted-top", "C19", "fire", SE, DRF_NEW, "", rule="SLOTS.fresh",
  more=[(SE, "        self._random_forests = np.empty((self.p, self.e), dtype=object)\n", "        self._random_forests = np.empty((self.p, self.e), dtype=object)\n        DRF = drf.drf(min_node_size=15, num_trees=2000, splitting_rule=\"FourierMMD\")\n")],
  what="a single forest wrapper for the whole network")
V("c19-silent-forest-after-frames", "C19", "silent", SE, DRF_NEW, "",
  more=[(SE, "                    DRF.fit(X, Y)\n", "                    DRF = drf.drf(min_node_size=15, num_trees=2000, splitting_rule=\"FourierMMD\")\n                    DRF.fit(X, Y)\n")],
  what="wrapper built just before the fit, still once per (node, environment)")
V("c20-partial-bound-method", "C20", "fire", NO, "import numpy as np\n", "import numpy as np\nfrom functools import partial\n", rule="R6.copy-stable",
  more=[(NO, "return lambda n: np.random.normal(mean, var**0.5, n)", "return partial(np.random.normal, mean, var**0.5)")],
  what="partial over a bound method of the global RandomState: ANM's deepcopy clones the generator")
V("c20-silent-partial-function", "C20", "silent", NO, "import numpy as np\n", "import numpy as np\nfrom functools import partial\n",
  more=[(NO, "def normal(mean=0, var=1):\n    return lambda n: np.random.normal(mean, var**0.5, n)", "def _normal(mean, sd, n):\n    return np.random.normal(mean, sd, n)\n\n\ndef normal(mean=0, var=1):\n    return partial(_normal, mean, var**0.5)")],
  what="partial over a module-level function: atomic under deepcopy, same draw")
V("c11-empty-graph-identity-ordering", "C11", "fire", GE, "    W = A * weights\n\n    # Permute rows/columns according to random topological ordering\n",
  "    W = A * weights\n    if not A.any():\n        return (W, np.arange(p)) if return_ordering else W\n\n    # Permute rows/columns according to random topological ordering\n",
  rule="PERM.ordering", what="fast path for an empty graph returns the identity ordering: not random for k = 0")
V("c17-silent-array-copy", "C17", "silent", UT, "        n = len(sample)\n        sample = sample.copy()\n        rng.shuffle(sample)\n", "        sample = np.array(sample)\n        n = len(sample)\n        rng.shuffle(sample)\n",
  what="np.array(...) copies; the length is taken from the copy")
V("c17-silent-shape0", "C17", "silent", UT, "        n = len(sample)\n        sample = sample.copy()\n", "        n = sample.shape[0]\n        sample = sample.copy()\n", what="n from shape[0]")
V("c13-split-shuffles-caller-data", "C13", "fire", UT, "        n = len(sample)\n        sample = sample.copy()\n        rng.shuffle(sample)\n", "        sample = np.asarray(sample)\n        n = len(sample)\n        rng.shuffle(sample)\n",
  rule="R7.inputs-intact", what="np.asarray does not copy an ndarray: the caller's sample is shuffled, a second identical call differs")
V("c13-lganm-sample-scales-model", "C13", "fire", LG, "        variances = self.variances.astype(float)\n", "        variances = self.variances\n", rule="R7.inputs-intact", what="interventions overwrite the model's own variances: later seeded calls differ")

# ------------------------------------------------------------------------------- C08 label_edges passes (STEP rules; round-2 seed C08-r2-1 and neighbours)
V("c08-step-transposed-parent-test", "C08", "fire", UT, "            if labelled[w, y] == 0:\n", "            if labelled[y, w] == 0:\n", rule="STEP.parent-test", what="w -> y looked up as y -> w: never an edge of a DAG below w -> x -> y")
V("c08-step-compelled-into-y", "C08", "fire", UT, "        Ws = np.where(labelled[:, x] == COM)[0]\n", "        Ws = np.where(labelled[:, y] == COM)[0]\n", rule="STEP.compelled-into-x", what="pass runs over compelled edges into y")
V("c08-step-compelled-out-of-x", "C08", "fire", UT, "        Ws = np.where(labelled[:, x] == COM)[0]\n", "        Ws = np.where(labelled[x, :] == COM)[0]\n", rule="STEP.compelled-into-x", what="row instead of column: edges out of x")
V("c08-step-compel-wx", "C08", "fire", UT, "            else:\n                labelled[w, y] = COM\n", "            else:\n                labelled[w, x] = COM\n", rule="STEP.compel-w", what="relabels w -> x instead of w -> y")
V("c08-step-compel-all-x", "C08", "fire", UT, "                labelled[list(pa(y, labelled)), y] = COM\n", "                labelled[list(pa(x, labelled)), x] = COM\n", rule="STEP.compel-all", what="compels the edges into x")
V("c08-step-no-break", "C08", "fire", UT, "                end = True\n                break\n", "                end = True\n", rule="STEP.end-of-pass", what="pass continues after compelling all edges into y")
V("c08-step-no-flag", "C08", "fire", UT, "                end = True\n                break\n", "                break\n", rule="STEP.end-of-pass", what="last step runs although the pass ended")
V("c08-step-z-without-x-exclusion", "C08", "fire", UT, "            z_exists = len(pa(y, labelled) - {x} - pa(x, labelled)) > 0\n", "            z_exists = len(pa(y, labelled) - pa(x, labelled)) > 0\n", rule="STEP.z-exists", what="x itself counts as z: every edge compelled")
V("c08-step-z-swapped", "C08", "fire", UT, "            z_exists = len(pa(y, labelled) - {x} - pa(x, labelled)) > 0\n", "            z_exists = len(pa(x, labelled) - {y} - pa(y, labelled)) > 0\n", rule="STEP.z-exists", what="roles of x and y swapped", accept_inconclusive=True)
V("c08-step-z-subset", "C08", "fire", UT, "            z_exists = len(pa(y, labelled) - {x} - pa(x, labelled)) > 0\n", "            z_exists = not (pa(y, labelled) <= pa(x, labelled))\n", rule="STEP.z-exists", what="subset test forgets to exclude x")
V("c08-step-labels-swapped", "C08", "fire", UT, "            labelled[unknown, y] = COM if z_exists else REV\n", "            labelled[unknown, y] = REV if z_exists else COM\n", rule="STEP.z-exists", what="compelled and reversible exchanged")
V("c08-step-unknown-into-x", "C08", "fire", UT, "            unknown = np.where(labelled[:, y] == UNK)[0]\n", "            unknown = np.where(labelled[:, x] == UNK)[0]\n", rule="STEP.unknown-into-y", what="last step relabels column x", accept_inconclusive=True)
V("c08-step-argmin", "C08", "fire", UT, "        (x, y) = np.unravel_index(np.argmax(unknown_edges), unknown_edges.shape)\n", "        (x, y) = np.unravel_index(np.argmin(unknown_edges), unknown_edges.shape)\n", rule="STEP.select", what="arg-min picks a masked (-inf) non-edge")
V("c08-silent-step-z-reordered", "C08", "silent", UT, "            z_exists = len(pa(y, labelled) - {x} - pa(x, labelled)) > 0\n", "            z_exists = len(pa(y, labelled) - pa(x, labelled) - {x}) > 0\n", what="set differences commute")
V("c08-silent-step-z-union", "C08", "silent", UT, "            z_exists = len(pa(y, labelled) - {x} - pa(x, labelled)) > 0\n", "            z_exists = not pa(y, labelled) <= (pa(x, labelled) | {x})\n", what="subset of the union")
V("c08-silent-step-test-flipped", "C08", "silent", UT, "            if labelled[w, y] == 0:\n                labelled[list(pa(y, labelled)), y] = COM\n                end = True\n                break\n            # otherwise, label w -> y as compelled\n            else:\n                labelled[w, y] = COM\n",
  "            if labelled[w, y] != 0:\n                labelled[w, y] = COM\n            else:\n                labelled[list(pa(y, labelled)), y] = COM\n                end = True\n                break\n", what="branches exchanged under the negated test")
V("c08-silent-step-rev-first", "C08", "silent", UT, "            labelled[unknown, y] = COM if z_exists else REV\n", "            labelled[unknown, y] = REV if not z_exists else COM\n", what="negated selector")
V("c08-order-y-forward", "C08", "fire", UT, "        y = sort(with_unlabelled, reversed(order))[0]\n", "        y = sort(with_unlabelled, order)[0]\n", rule="STEP.order-y", what="y taken from the front of the topological order")
V("c08-order-x-reversed", "C08", "fire", UT, "        x = sort(unlabelled_parents_y, order)[0]\n", "        x = sort(unlabelled_parents_y, reversed(order))[0]\n", rule="STEP.order-x", what="x taken from the back of the topological order")
V("c08-order-x-children", "C08", "fire", UT, "        unlabelled_parents_y = np.where(ordered[:, y] == -1)[0]\n", "        unlabelled_parents_y = np.where(ordered[y, :] == -1)[0]\n", rule="STEP.order-x", what="row y: children instead of parents")
V("c08-order-store-transposed", "C08", "fire", UT, "        ordered[x, y] = i\n", "        ordered[y, x] = i\n", rule="STEP.order", what="label written at the reversed edge")
V("c08-silent-order-y-heads", "C08", "silent", UT, "        with_unlabelled = np.unique(np.hstack((froms, tos)))\n", "        with_unlabelled = np.unique(tos)\n", what="the last endpoint in topological order is always a head: heads suffice")
V("c08-silent-order-slice-reverse", "C08", "silent", UT, "        y = sort(with_unlabelled, reversed(order))[0]\n", "        y = sort(with_unlabelled, order[::-1])[0]\n", what="reversed via slicing")
V("c07-skeleton-maximum", "C07", "fire", UT, "return ((A + A.T) != 0).astype(int)", "return (np.maximum(A, A.T) != 0).astype(int)", rule="PAT.result", what="negative-weight edges vanish from the skeleton that is_consistent_extension compares")

# ------------------------------------------------------------------------------- call spelling (keyword / reordered arguments to repo functions: silent)
V("c19-silent-pa-keywords", "C19", "silent", SE, "        for i in range(self.p):\n            parents = sempler.utils.pa(i, self.graph)\n", "        for i in range(self.p):\n            parents = sempler.utils.pa(A=self.graph, i=i)\n", what="keyword arguments in another order",
  more=[(SE, "                    parents = sempler.utils.pa(i, self.graph)\n                    new_data", "                    parents = sempler.utils.pa(A=self.graph, i=i)\n                    new_data")])
V("c10-silent-rule1-keywords", "C10", "silent", UT, "    if len(pa(i, A)) > 0 and not pa(i, A) <= adj(j, A):", "    if len(pa(A=A, i=i)) > 0 and not pa(i, A=A) <= adj(A=A, i=j):", what="keyword spelling of pa / adj")
V("c08-silent-step-pa-keywords", "C08", "silent", UT, "            z_exists = len(pa(y, labelled) - {x} - pa(x, labelled)) > 0\n", "            z_exists = len(pa(A=labelled, i=y) - {x} - pa(i=x, A=labelled)) > 0\n", what="keyword spelling of pa")

# ------------------------------------------------------------------------------- whole-tree behaviour-preserving transformations (silent for every property)
for _i in [1, 2, 3, 4, 5, 6, 7, 8, 9, 10, 11, 12, 13, 14, 15, 16, 17, 18, 19, 20]:
    for _t, _w in (("@kwargs_calls", "calls to the repository's own functions re-spelled with keyword arguments in reversed order"),
                   ("@strip_docs_annotate", "docstrings removed, parameters and returns annotated"),
                   ("@logging", "a module logger and a debug call at the start of every function"),
                   ("@coerce_params", "matrix parameters of the graph utilities coerced with np.asarray at function entry"),
                   ("@accept_lists", "`if not isinstance(X, np.ndarray): X = np.array(X)` at the entry of every graph utility"),
                   ("@early_exit", "no else after return / raise: the else body follows the if"),
                   ("@numpy_alias", "import numpy (no alias), every np.x spelled numpy.x")):
        VARIANTS.append(dict(id="%s-c%02d" % (_t[1:].replace("_", "-"), _i), prop="C%02d" % _i, expect="silent", edits=[(_t,)], rule=None, what=_w))
V("c14-shuffle-keyword-on-caller-data", "C14", "fire", UT, "        n = len(sample)\n        sample = sample.copy()\n        rng.shuffle(sample)\n", "        n = len(sample)\n        rng.shuffle(x=sample)\n", rule="M1.param", what="in-place shuffle of the caller's array, argument passed by keyword")
V("c17-silent-shuffle-keyword", "C17", "silent", UT, "        rng.shuffle(sample)\n", "        rng.shuffle(x=sample)\n", what="shuffle argument passed by keyword")

# ------------------------------------------------------------------------------- C10 Meek rules 3 and 4 (element-quantified; role rules)
R3_OLD = "    if len(intersection) >= 2:\n        for k in intersection:\n            for l in intersection - {k}:\n                if k not in adj(l, A):\n                    return True\n    return False\n"
V("c10-rule3-adjacent", "C10", "fire", UT, "                if k not in adj(l, A):\n", "                if k in adj(l, A):\n", rule="RULES.rule_3", what="rule 3 fires for adjacent parents")
V("c10-rule3-children", "C10", "fire", UT, "    intersection = neighbors(i, A) & pa(j, A)\n", "    intersection = neighbors(i, A) & ch(j, A)\n", rule="RULES.rule_3", what="children of j instead of parents", accept_inconclusive=True)
V("c10-rule3-union", "C10", "fire", UT, "    intersection = neighbors(i, A) & pa(j, A)\n", "    intersection = neighbors(i, A) | pa(j, A)\n", rule="RULES.rule_3", what="union instead of intersection")
V("c10-rule3-same-element", "C10", "fire", UT, "            for l in intersection - {k}:\n", "            for l in intersection:\n", rule="RULES.rule_3", what="k = l allowed: a node is never adjacent to itself, so any two parents fire")
V("c10-rule3-neighbors-of-j", "C10", "fire", UT, "    intersection = neighbors(i, A) & pa(j, A)\n", "    intersection = neighbors(j, A) & pa(j, A)\n", rule="RULES.rule_3", what="neighbours of j", accept_inconclusive=True)
V("c10-silent-rule3-symmetric", "C10", "silent", UT, "                if k not in adj(l, A):\n", "                if l not in adj(k, A):\n", what="adjacency is symmetric")
V("c10-silent-rule3-not-in", "C10", "silent", UT, "                if k not in adj(l, A):\n", "                if not (k in adj(l, A)):\n", what="not (x in S)")
V("c10-silent-rule3-combinations", "C10", "silent", UT, R3_OLD, "    for k, l in itertools.combinations(intersection, 2):\n        if k not in adj(l, A):\n            return True\n    return False\n", what="unordered pairs via itertools.combinations")
V("c10-silent-rule3-no-size-guard", "C10", "silent", UT, R3_OLD, "    for k in intersection:\n        for l in intersection - {k}:\n            if k not in adj(l, A):\n                return True\n    return False\n", what="redundant size guard dropped")
V("c10-silent-rule3-neq-test", "C10", "silent", UT, R3_OLD, "    for k in intersection:\n        for l in intersection:\n            if k != l and k not in adj(l, A):\n                return True\n    return False\n", what="distinctness as a test")
V("c10-rule4-adjacent", "C10", "fire", UT, "                if h not in adj_j:\n", "                if h in adj_j:\n", rule="RULES.rule_4", what="rule 4 fires when h and j are adjacent")
V("c10-rule4-children-of-k", "C10", "fire", UT, "lambda acc, k: acc | pa(k, A), Ks, set()", "lambda acc, k: acc | ch(k, A), Ks, set()", rule="RULES.rule_4", what="children of k instead of parents")
V("c10-rule4-ks-children", "C10", "fire", UT, "    pa_j = pa(j, A)\n", "    pa_j = ch(j, A)\n", rule="RULES.rule_4", what="k taken among the children of j", accept_inconclusive=True)
V("c10-rule4-h-any-parent", "C10", "fire", UT, "        Hs = n_i & set(reduce(", "        Hs = set(reduce(", rule="RULES.rule_4", what="h need not be a neighbour of i")
V("c10-rule4-adj-i", "C10", "fire", UT, "            adj_j = adj(j, A)\n", "            adj_j = adj(i, A)\n", rule="RULES.rule_4", what="non-adjacency tested against i")
V("c10-silent-rule4-commuted", "C10", "silent", UT, "    Ks = pa_j & n_i\n", "    Ks = n_i & pa_j\n", what="intersection commutes")
V("c10-silent-rule4-inline-adj", "C10", "silent", UT, "                if h not in adj_j:\n", "                if h not in adj(j, A):\n", what="adjacency set inlined")
RN("C10", UT, "rule_3")
RN("C10", UT, "rule_4")

# ------------------------------------------------------------------------------- equivalent spellings (silent): found by trying them, several needed engine work
V("sp-c01-identity", "C01", "silent", LG, "A = np.linalg.inv(np.eye(self.p) - W.T)", "A = np.linalg.inv(np.identity(self.p) - W.T)", what="np.identity")
V("sp-c01-transpose-fn", "C01", "silent", LG, "A = np.linalg.inv(np.eye(self.p) - W.T)", "A = np.linalg.inv(np.eye(self.p) - np.transpose(W))", what="np.transpose")
V("sp-c01-transpose-method", "C01", "silent", LG, "        covariance = A @ np.diag(variances) @ A.T\n", "        covariance = A @ np.diag(variances) @ A.transpose()\n", what=".transpose()")
V("sp-c01-dot", "C01", "silent", LG, "        mean = A @ means\n", "        mean = A.dot(means)\n", what=".dot")
V("sp-c01-npdot", "C01", "silent", LG, "        mean = A @ means\n", "        mean = np.dot(A, means)\n", what="np.dot")
V("sp-c01-matmul", "C01", "silent", LG, "        covariance = A @ np.diag(variances) @ A.T\n", "        covariance = np.matmul(np.matmul(A, np.diag(variances)), A.T)\n", what="np.matmul")
V("sp-c01-scaled-columns", "C01", "silent", LG, "        covariance = A @ np.diag(variances) @ A.T\n", "        covariance = (A * variances) @ A.T\n", what="A * v broadcasts over columns = A diag(v)")
V("sp-c01-local-p", "C01", "silent", LG, "        A = np.linalg.inv(np.eye(self.p) - W.T)\n", "        p = self.p\n        A = np.linalg.inv(np.eye(p) - W.T)\n", what="local alias of self.p")
V("sp-c01-len-w", "C01", "silent", LG, "        A = np.linalg.inv(np.eye(self.p) - W.T)\n", "        A = np.linalg.inv(np.eye(len(W)) - W.T)\n", what="len(W) for self.p")
V("sp-c01-is-not-none", "C01", "silent", LG, "        if shift_interventions:\n", "        if shift_interventions is not None and len(shift_interventions) > 0:\n", what="explicit emptiness test")
V("sp-c01-early-return", "C01", "silent", LG, "        if not population:\n            return distribution.sample(n, random_state=random_state)\n        else:\n            return distribution\n", "        if population:\n            return distribution\n        return distribution.sample(n, random_state=random_state)\n", what="early return")
V("sp-c04-early-return", "C04", "silent", LG, "        if not population:\n            return distribution.sample(n, random_state=random_state)\n        else:\n            return distribution\n", "        if population:\n            return distribution\n        return distribution.sample(n, random_state=random_state)\n", what="early return")
V("sp-c01-astype-float64", "C01", "silent", LG, "        variances = self.variances.astype(float)\n        means = self.means.astype(float)\n", "        variances = self.variances.astype(np.float64)\n        means = self.means.astype(np.float64)\n", what="np.float64")
V("sp-c01-array-dtype", "C01", "silent", LG, "        variances = self.variances.astype(float)\n        means = self.means.astype(float)\n", "        variances = np.array(self.variances, dtype=float)\n        means = np.array(self.means, dtype=float)\n", what="np.array(.., dtype=float) copies")
V("sp-c03-pattern-where", "C03", "silent", UT, "    A = (A != 0).astype(int)\n    # Check that there are no undirected edges", "    A = np.where(A != 0, 1, 0)\n    # Check that there are no undirected edges", what="np.where pattern")
V("sp-c03-pattern-int64", "C03", "silent", UT, "    A = (A != 0).astype(int)\n    # Check that there are no undirected edges", "    A = (A != 0).astype(np.int64)\n    # Check that there are no undirected edges", what="astype(np.int64)")
V("sp-c03-pattern-bool-sum", "C03", "silent", UT, "    A = (A != 0).astype(int)\n    # Check that there are no undirected edges", "    A = (np.abs(A) > 0).astype(int)\n    # Check that there are no undirected edges", what="|a| > 0")
V("sp-c03-raise-no-else", "C03", "silent", UT, "    if A.sum() > 0:\n        raise ValueError(\"The given graph is not a DAG\")\n    else:\n        return ordering", "    if A.sum() > 0:\n        raise ValueError(\"The given graph is not a DAG\")\n    return ordering", what="no else after raise")
V("sp-c03-any-leftover", "C03", "silent", UT, "    if A.sum() > 0:\n        raise ValueError(\"The given graph is not a DAG\")\n    else:\n        return ordering", "    if A.any():\n        raise ValueError(\"The given graph is not a DAG\")\n    return ordering", what=".any() on the 0/1 pattern")
V("sp-c17-dictcomp", "C17", "silent", UT, "    folds = dict((i, []) for i in range(n_folds))\n", "    folds = {i: [] for i in range(n_folds)}\n", what="dict comprehension")
V("sp-c17-aug-expanded", "C17", "silent", UT, "                start += fold_size\n", "                start = start + fold_size\n", what="x = x + y")
V("sp-c17-listcomp-return", "C17", "silent", UT, "    return list(folds.values())\n", "    return [folds[i] for i in range(n_folds)]\n", what="explicit list")
V("sp-c17-isclose-math", "C17", "silent", UT, "    if abs(np.sum(ratios) - 1) > 1e-9:", "    if np.abs(np.sum(ratios) - 1.0) > 1e-9:", what="np.abs / 1.0")
V("sp-c13-from-import-rng", "C13", "silent", UT, "import numpy as np\n", "import numpy as np\nfrom numpy.random import default_rng\n", more=[(UT, "    rng = np.random.default_rng(random_state)\n    for sample in data:", "    rng = default_rng(random_state)\n    for sample in data:")], what="from-import of default_rng")
V("sp-c17-from-import-rng", "C17", "silent", UT, "import numpy as np\n", "import numpy as np\nfrom numpy.random import default_rng\n", more=[(UT, "    rng = np.random.default_rng(random_state)\n    for sample in data:", "    rng = default_rng(random_state)\n    for sample in data:")], what="from-import of default_rng")
V("sp-c19-if-verbose", "C19", "silent", SE, "            print(\"Fitting distributional random forests\") if verbose else None\n", "            if verbose:\n                print(\"Fitting distributional random forests\")\n", what="if-statement for conditional print")
V("sp-c08-aug-expanded", "C08", "silent", UT, "        ordered[x, y] = i\n        i += 1\n", "        ordered[x, y] = i\n        i = i + 1\n", what="x = x + 1")
V("sp-c15-truthy-set", "C15", "silent", UT, "    if len(pa(i, A)) > 0 and not pa(i, A) <= adj(j, A):", "    if pa(i, A) and not pa(i, A) <= adj(j, A):", what="set truthiness")
V("sp-c05-set-isdisjoint", "C05", "silent", ND, "        if len(set(Y) & set(X)) > 0:\n", "        if not set(Y).isdisjoint(X):\n", what="isdisjoint")
V("sp-c05-truthy-intersection", "C05", "silent", ND, "        if len(set(Y) & set(X)) > 0:\n", "        if set(Y) & set(X):\n", what="truthiness of the intersection")
V("sp-c05-size-ne", "C05", "silent", ND, "        if len(X) != len(x):\n", "        if not len(X) == len(x):\n", what="not ==")
V("sp-c05-shape", "C05", "silent", ND, "        if len(X) != len(x):\n", "        if X.shape[0] != x.shape[0]:\n", what="shape[0]")
V("sp-c12-fstring-error", "C12", "silent", GE, "import numpy as np\n", "import numpy as np\n_UNUSED_MESSAGE_PREFIX = 'sempler: '\n", what="module constant added")
V("sp-c05-mask-overlap", "C05", "silent", ND, "        if len(set(Y) & set(X)) > 0:\n            raise ValueError(\"X and Y are not disjoint.\")\n", "        in_X = np.zeros(len(self.mean), dtype=bool)\n        in_X[X] = True\n        if in_X[Y].any():\n            raise ValueError(\"X and Y are not disjoint.\")\n", what="membership mask for the overlap test")
V("sp-c01-scaled-rows-wrong", "C01", "fire", LG, "        covariance = A @ np.diag(variances) @ A.T\n", "        covariance = (A.T * variances) @ A\n", rule="FORMULA.covariance", what="A^T diag(v) A instead of A diag(v) A^T")
V("c05-len-guard-skips-scalars", "C05", "fire", ND, "        if len(X) != len(x):\n", "        if np.ndim(x) > 0 and len(X) != len(x):\n", rule="GUARD.conditional.len", what="size check weakened by a further conjunct", accept_inconclusive=True)

# ------------------------------------------------------------------------------- round-3 inspired: caches on the model (history dependence)
V("c01-observational-cache", "C01", "fire", LG, "        # Must copy as they can be changed by interventions, but we\n", "        if population and not (do_interventions or shift_interventions) and getattr(self, '_obs', None) is not None:\n            return self._obs\n        # Must copy as they can be changed by interventions, but we\n",
  more=[(LG, "        else:\n            return distribution\n", "        else:\n            if not (do_interventions or shift_interventions):\n                self._obs = distribution\n            return distribution\n")],
  rule="HISTORY.sample", what="observational law cached under a key that ignores noise interventions", accept_inconclusive=True)
V("c04-mixing-cache", "C04", "fire", LG, "        A = np.linalg.inv(np.eye(self.p) - W.T)\n", "        if not hasattr(self, '_mixing'):\n            self._mixing = np.linalg.inv(np.eye(self.p) - W.T)\n        A = self._mixing\n", rule="HISTORY.lganm", what="mixing matrix of the first call reused by later (intervened) calls")
V("c02-noise-cache", "C02", "fire", AN, "                    noise = self.noise_distributions[i](n)\n                X[:, i] = assignment + noise\n", "                    if not hasattr(self, '_last_noise'):\n                        self._last_noise = {}\n                    noise = self._last_noise.setdefault((i, n), self.noise_distributions[i](n))\n                X[:, i] = assignment + noise\n", rule="HISTORY.sample", what="noise draws memoised on the model", accept_inconclusive=True)
V("c03-lganm-gate-conditional", "C03", "fire", LG, "        if not utils.is_dag(W):\n            raise ValueError(\"The given graph is not a DAG.\")\n        self.W = W.copy()\n",
  "        self.W = W.copy()\n        if debug_checks:\n            if not utils.is_dag(W):\n                raise ValueError(\"The given graph is not a DAG.\")\n", rule="GATE",
  more=[(LG, "    def __init__(self, W, means, variances, random_state=None):", "    def __init__(self, W, means, variances, random_state=None, debug_checks=False):")], what="gate only under an optional flag, matrix stored regardless")
V("c03-silent-anm-store-first", "C03", "silent", AN, "        self.ordering = utils.topological_ordering(A)\n        self.p = len(A)\n        self.A = deepcopy(A)\n", "        self.A = deepcopy(A)\n        self.p = len(A)\n        self.ordering = utils.topological_ordering(self.A)\n", what="matrix copied first, ordering computed from the copy")
V("c02-silent-anm-store-first", "C02", "silent", AN, "        self.ordering = utils.topological_ordering(A)\n        self.p = len(A)\n        self.A = deepcopy(A)\n", "        self.A = deepcopy(A)\n        self.p = len(A)\n        self.ordering = utils.topological_ordering(self.A)\n", what="matrix copied first, ordering computed from the copy")

# ------------------------------------------------------------------------------- round-3 inspired
V("c12-message-unpacks-tuple", "C12", "fire", GE, "            \"The (max.) intervention size cannot be larger than the number of variables.\")", "            \"The (max.) intervention size cannot be larger than the number of variables (size=%s).\" % size)", rule="GUARD.message", what="% formatting with a size that may be a (lo, hi) tuple: TypeError instead of ValueError")
V("c12-silent-message-tuple-wrapped", "C12", "silent", GE, "            \"The (max.) intervention size cannot be larger than the number of variables.\")", "            \"The (max.) intervention size cannot be larger than the number of variables (size=%s).\" % (size,))", what="operand wrapped in a 1-tuple")
V("c12-silent-message-format", "C12", "silent", GE, "            \"The (max.) intervention size cannot be larger than the number of variables.\")", "            \"The (max.) intervention size cannot be larger than the number of variables (size={}).\".format(size))", what="str.format")
V("c17-memoised-generator", "C17", "fire", UT, "from functools import reduce\n", "from functools import reduce, lru_cache\n\n\n@lru_cache(maxsize=None)\ndef _generator(random_state):\n    return np.random.default_rng(random_state)\n", rule="SEED.shuffle",
  more=[(UT, "    rng = np.random.default_rng(random_state)\n    for sample in data:", "    rng = _generator(random_state)\n    for sample in data:")], what="memoised generator: the second call with the same seed continues the stream (decided by C13's R1.generator; for C17's form rule the new helper is another shape: shape gate)", accept_inconclusive=True)
V("c13-memoised-generator", "C13", "fire", UT, "from functools import reduce\n", "from functools import reduce, lru_cache\n\n\n@lru_cache(maxsize=None)\ndef _generator(random_state):\n    return np.random.default_rng(random_state)\n", rule="R1.generator",
  more=[(UT, "    rng = np.random.default_rng(random_state)\n    for sample in data:", "    rng = _generator(random_state)\n    for sample in data:")], what="memoised generator: the second call with the same seed continues the stream")
V("c17-silent-generator-helper", "C17", "silent", UT, "from functools import reduce\n", "from functools import reduce\n\n\ndef _generator(random_state):\n    return np.random.default_rng(random_state)\n",
  more=[(UT, "    rng = np.random.default_rng(random_state)\n    for sample in data:", "    rng = _generator(random_state)\n    for sample in data:")], what="plain helper that builds the generator")
V("c13-silent-generator-helper", "C13", "silent", UT, "from functools import reduce\n", "from functools import reduce\n\n\ndef _generator(random_state):\n    return np.random.default_rng(random_state)\n",
  more=[(UT, "    rng = np.random.default_rng(random_state)\n    for sample in data:", "    rng = _generator(random_state)\n    for sample in data:")], what="plain helper that builds the generator")
V("c17-tol-abs-of-comparison", "C17", "fire", UT, "    if abs(np.sum(ratios) - 1) > 1e-9:", "    if abs(np.sum(ratios) - 1 > 1e-9):", rule="TOL.guard", what="parenthesis moved: abs() of a boolean, one-sided test")
DRF_DRAW = "                for j in range(n): \n                  ids = np.random.choice(range(Y.shape[0]), 1, p=weights[i, :])[0]\n                  ret.sample[i,:, j] = Y.iloc[ids,:]\n"
V("c19-forest-sparse-support-unmapped", "C19", "fire", DR, DRF_DRAW, "                support = np.flatnonzero(weights[i, :])\n                for j in range(n):\n                  ids = np.random.choice(len(support), 1, p=weights[i, support])[0]\n                  ret.sample[i,:, j] = Y.iloc[ids,:]\n",
  rule="FOREST.sample-rows", what="position among the non-zero weights used as a training row")
V("c19-silent-forest-sparse-support-mapped", "C19", "silent", DR, DRF_DRAW, "                support = np.flatnonzero(weights[i, :])\n                for j in range(n):\n                  ids = np.random.choice(len(support), 1, p=weights[i, support])[0]\n                  ret.sample[i,:, j] = Y.iloc[support[ids],:]\n",
  what="position mapped back through the support")
V("c19-silent-forest-count", "C19", "silent", DR, "np.random.choice(range(Y.shape[0]), 1, p=weights[i, :])[0]", "np.random.choice(len(Y), 1, p=weights[i, :])[0]", what="population given as a count")
V("c19-forest-weights-of-other-point", "C19", "fire", DR, "np.random.choice(range(Y.shape[0]), 1, p=weights[i, :])[0]", "np.random.choice(range(Y.shape[0]), 1, p=weights[0, :])[0]", rule="FOREST.sample-rows", what="weights of the first test point for every row")
V("c19-forest-column-weights", "C19", "fire", DR, "np.random.choice(range(Y.shape[0]), 1, p=weights[i, :])[0]", "np.random.choice(range(Y.shape[0]), 1, p=weights[:, i])[0]", rule="FOREST.sample-rows", what="column of the weight matrix", accept_inconclusive=True)
# ANM.sample
V("sp-c02-if-seed", "C02", "silent", AN, "        np.random.seed(random_state) if random_state is not None else None\n", "        if random_state is not None:\n            np.random.seed(random_state)\n", what="if statement for the reseed")
V("sp-c13-if-seed", "C13", "silent", AN, "        np.random.seed(random_state) if random_state is not None else None\n", "        if random_state is not None:\n            np.random.seed(random_state)\n", what="if statement for the reseed")
V("sp-c02-zeros-list", "C02", "silent", AN, "        X = np.zeros((n, self.p))\n", "        X = np.zeros([n, self.p])\n", what="list shape")
V("sp-c02-zeros-kw", "C02", "silent", AN, "        X = np.zeros((n, self.p))\n", "        X = np.zeros(shape=(n, self.p), dtype=float)\n", what="keyword shape, explicit float")
V("sp-c02-empty", "C02", "silent", AN, "        X = np.zeros((n, self.p))\n", "        X = np.empty((n, self.p))\n", what="np.empty: every column is written before it is read")
V("sp-c02-T", "C02", "silent", AN, "                assignment = np.transpose(self.assignments[i](X[:, self.A[:, i] != 0]))\n", "                assignment = self.assignments[i](X[:, self.A[:, i] != 0]).T\n", what=".T")
V("sp-c02-parents-var", "C02", "silent", AN, "                assignment = np.transpose(self.assignments[i](X[:, self.A[:, i] != 0]))\n", "                parents = self.A[:, i] != 0\n                assignment = np.transpose(self.assignments[i](X[:, parents]))\n", what="mask in a local")
V("sp-c02-parents-nonzero", "C02", "silent", AN, "                assignment = np.transpose(self.assignments[i](X[:, self.A[:, i] != 0]))\n", "                assignment = np.transpose(self.assignments[i](X[:, np.flatnonzero(self.A[:, i])]))\n", what="flatnonzero index list (ascending)")
V("sp-c02-get", "C02", "silent", AN, "            if i in do_interventions:\n                X[:, i] = do_interventions[i](n)\n", "            if i in do_interventions.keys():\n                X[:, i] = do_interventions[i](n)\n", what=".keys()")
V("sp-c02-continue", "C02", "silent", AN, '            if i in do_interventions:\n                X[:, i] = do_interventions[i](n)\n            # Otherwise maintain dependence on parents\n            else:\n                assignment = np.transpose(self.assignments[i](X[:, self.A[:, i] != 0]))\n                # Shift-intervention: add noise from given distribution\n                if i in shift_interventions:\n                    noise = self.noise_distributions[i](n) + shift_interventions[i](n)\n                # Noise-intervention: sample noise from given distribution\n                elif i in noise_interventions:\n                    noise = noise_interventions[i](n)\n                # No intervention: sample noise from original distribution\n                else:\n                    noise = self.noise_distributions[i](n)\n                X[:, i] = assignment + noise\n', '            if i in do_interventions:\n                X[:, i] = do_interventions[i](n)\n                continue\n            assignment = np.transpose(self.assignments[i](X[:, self.A[:, i] != 0]))\n            if i in shift_interventions:\n                noise = self.noise_distributions[i](n) + shift_interventions[i](n)\n            elif i in noise_interventions:\n                noise = noise_interventions[i](n)\n            else:\n                noise = self.noise_distributions[i](n)\n            X[:, i] = assignment + noise\n', what="continue instead of else")
# ND.sample
V("sp-c04-if-seed", "C04", "silent", ND, "        np.random.seed(random_state) if random_state is not None else None\n        return np.random.multivariate_normal(self.mean, self.covariance, size=n)", "        if random_state is not None:\n            np.random.seed(random_state)\n        return np.random.multivariate_normal(self.mean, self.covariance, size=n)", what="if statement")
V("sp-c04-kw", "C04", "silent", ND, "        return np.random.multivariate_normal(self.mean, self.covariance, size=n)", "        return np.random.multivariate_normal(mean=self.mean, cov=self.covariance, size=n)", what="keywords")
V("sp-c04-positional", "C04", "silent", ND, "        return np.random.multivariate_normal(self.mean, self.covariance, size=n)", "        return np.random.multivariate_normal(self.mean, self.covariance, n)", what="positional size")
V("sp-c04-local", "C04", "silent", ND, "        return np.random.multivariate_normal(self.mean, self.covariance, size=n)", "        sample = np.random.multivariate_normal(self.mean, self.covariance, size=n)\n        return sample", what="local variable")
# regress / mse
V("sp-c06-inv", "C06", "silent", ND, "            coefs[Xs] = np.linalg.solve(cov_xs, cov_y_xs)\n", "            coefs[Xs] = np.linalg.inv(cov_xs) @ cov_y_xs\n", what="inverse times vector")
V("sp-c06-ix", "C06", "silent", ND, "            cov_xs = self.covariance[:, Xs][Xs, :]  #", "            cov_xs = self.covariance[np.ix_(Xs, Xs)]  #", what="np.ix_")
V("sp-c06-rows-first", "C06", "silent", ND, "            cov_xs = self.covariance[:, Xs][Xs, :]  #", "            cov_xs = self.covariance[Xs, :][:, Xs]  #", what="rows first")
V("sp-c06-dot", "C06", "silent", ND, "        intercept = self.mean[y] - coefs @ self.mean\n", "        intercept = self.mean[y] - np.dot(coefs, self.mean)\n", what="np.dot")
V("sp-c06-mse-quadratic", "C06", "silent", ND, "        mse = var_y + coefs_xs @ cov @ coefs_xs.T - 2 * cov[y, :] @ coefs_xs.T\n", "        mse = var_y - 2 * cov[y, :] @ coefs_xs + coefs_xs @ cov @ coefs_xs\n", what="terms reordered, 1-D transposes dropped")
V("sp-c06-zeros-like", "C06", "silent", ND, "        coefs = np.zeros(self.p)\n", "        coefs = np.zeros_like(self.mean, dtype=float)\n", what="zeros_like(mean)")
# generators
V("sp-c12-randint-endpoint", "C12", "silent", GE, "        sizes = rng.integers(size[0], size[1] + 1, K)\n", "        sizes = rng.integers(size[0], size[1], K, endpoint=True)\n", what="endpoint=True")
V("sp-c12-minmax-vars", "C12", "silent", GE, "        sizes = rng.integers(size[0], size[1] + 1, K)\n", "        sizes = rng.integers(min_size, max_size + 1, size=K)\n", what="unpacked names")
V("sp-c12-nested-if", "C12", "silent", GE, "    if not replace:\n        if max_size * K > p:\n", "    if not replace and max_size * K > p:\n        if True:\n", what="conjunction for nested ifs")
V("sp-c12-range-K", "C12", "silent", GE, "        for i, k in enumerate(range(K)):\n            intervention = list(rng.choice(targets, size=sizes[i], replace=False))\n", "        for i in range(K):\n            intervention = list(rng.choice(targets, size=sizes[i], replace=False))\n", what="range(K)")
V("sp-c11-random-threshold", "C11", "silent", GE, "rng.uniform(size=(p, p))", "rng.random((p, p))", what="rng.random")
V("sp-c11-argsort-kw", "C11", "silent", GE, "        return (W[permutation, :][:, permutation], np.argsort(permutation))\n    else:\n        return W[permutation, :][:, permutation]\n\n\ndef dag_full", "        return (W[permutation, :][:, permutation], np.argsort(a=permutation))\n    else:\n        return W[permutation, :][:, permutation]\n\n\ndef dag_full", what="keyword to argsort")
V("sp-c11-ix", "C11", "silent", GE, "        return (W[permutation, :][:, permutation], np.argsort(permutation))\n    else:\n        return W[permutation, :][:, permutation]\n\n\ndef dag_full", "        return (W[np.ix_(permutation, permutation)], np.argsort(permutation))\n    else:\n        return W[np.ix_(permutation, permutation)]\n\n\ndef dag_full", what="np.ix_")
# utils
V("sp-c18-bool-pattern", "C18", "silent", UT, "def remove_edges(A, no_edges, random_state=42):\n    \"\"\"Remove `no_edges` at random from A.\"\"\"\n    A = A.astype(bool).astype(int)\n", "def remove_edges(A, no_edges, random_state=42):\n    \"\"\"Remove `no_edges` at random from A.\"\"\"\n    A = (A != 0).astype(int)\n", what="(A != 0) pattern")
V("sp-c18-int-division", "C18", "silent", UT, "    can_add = int(p * (p - 1) / 2 - A.sum())\n", "    can_add = p * (p - 1) // 2 - int(A.sum())\n", what="integer division")
V("sp-c18-tuple-index", "C18", "silent", UT, "        next_supergraph[edges[i]] = 1\n", "        fro_i, to_i = edges[i]\n        next_supergraph[fro_i, to_i] = 1\n", what="unpacked index")
V("sp-c16-count-nonzero", "C16", "silent", UT, "    no_edges = np.sum(subgraph != 0)\n    n = len(S)\n", "    no_edges = np.count_nonzero(subgraph)\n    n = len(S)\n", what="count_nonzero")
V("sp-c16-moral-symmetric-store", "C16", "silent", UT, "        moral[i, j] = 1\n        moral[j, i] = 1\n", "        moral[i, j] = moral[j, i] = 1\n", what="chained assignment")
V("sp-c16-vs-minmax", "C16", "silent", UT, "                vstruct = (i, c, j) if i < j else (j, c, i)\n", "                vstruct = (min(i, j), c, max(i, j))\n", what="min / max")
V("sp-c15-pa-nonzero", "C15", "silent", UT, "    return set(np.where(np.logical_and(A[:, i] != 0, A[i, :] == 0))[0])", "    return set(np.where((A[:, i] != 0) & (A[i, :] == 0))[0])", what="& for logical_and")
V("sp-c15-pa-flatnonzero", "C15", "silent", UT, "    return set(np.where(np.logical_and(A[:, i] != 0, A[i, :] == 0))[0])", "    return set(np.flatnonzero(np.logical_and(A[:, i] != 0, A[i, :] == 0)))", what="flatnonzero")
V("sp-c20-sqrt", "C20", "silent", NO, "return lambda n: np.random.normal(mean, var**0.5, n)", "return lambda n: np.random.normal(mean, np.sqrt(var), n)", what="np.sqrt")
V("sp-c20-size-kw", "C20", "silent", NO, "return lambda n: np.random.uniform(lo, hi, n)", "return lambda n: np.random.uniform(lo, hi, size=n)", what="size keyword")
V("sp-c20-zeros-float", "C20", "silent", NO, "return lambda n: np.zeros(n)", "return lambda n: np.zeros(n, dtype=float)", what="explicit dtype")
V("sp-c19-boot-len", "C19", "silent", SE, "import numpy as np\n", "import numpy as np\n_SEMI_VERSION = 1\n", what="module constant")
V("c08-extension-sink-by-weight-sum", "C08", "fire", UT, "            sink = len(ch(i, P)) == 0\n", "            sink = only_directed(P)[i, :].sum() == 0\n", rule="PAT.value-sensitive", what="a node whose outgoing weights cancel is taken for a sink")
V("c08-silent-extension-sink-by-count", "C08", "silent", UT, "            sink = len(ch(i, P)) == 0\n", "            sink = not ch(i, P)\n", what="emptiness of the child set")
VS_OLD = "        for (i, j) in itertools.combinations(pa(c, A), 2):\n            if A[i, j] == 0 and A[j, i] == 0:\n                # Ordering might be defensive here, as\n                # itertools.combinations already returns ordered\n                # tuples; motivation is to not depend on their feature\n                vstruct = (i, c, j) if i < j else (j, c, i)\n                vstructs.append(vstruct)\n"
V("c16-silent-vs-sorted-parents", "C16", "silent", UT, VS_OLD, "        for (i, j) in itertools.combinations(sorted(pa(c, A)), 2):\n            if A[i, j] == 0 and A[j, i] == 0:\n                vstructs.append((i, c, j))\n", what="pairs taken from the sorted parent list: already i < j")
V("c07-vs-unordered-triples", "C07", "fire", UT, VS_OLD, "        for (i, j) in itertools.combinations(pa(c, A), 2):\n            if A[i, j] == 0 and A[j, i] == 0:\n                vstructs.append((i, c, j))\n", rule="VS.condition", what="triples in set-iteration order: the same v-structure compares unequal between a PDAG and its extension (labels >= 8)")
V("c10-vs-unordered-triples", "C10", "fire", UT, VS_OLD, "        for (i, j) in itertools.combinations(pa(c, A), 2):\n            if A[i, j] == 0 and A[j, i] == 0:\n                vstructs.append((i, c, j))\n", rule="VS.condition", what="triples in set-iteration order")

# ------------------------------------------------------------------------------- equivalent spellings, batch 3
# topological_ordering
V("sp3-c03-while-sinks", "C03", "silent", UT, "    while len(sinks) > 0:\n        i = sinks.pop()\n", "    while sinks:\n        i = sinks.pop()\n", what="truthiness of the work list")
V("sp3-c03-not-pa", "C03", "silent", UT, "            if len(pa(j, A)) == 0:\n                sinks.append(j)\n", "            if not pa(j, A):\n                sinks.append(j)\n", what="not set")
V("sp3-c03-colsum", "C03", "silent", UT, "            if len(pa(j, A)) == 0:\n                sinks.append(j)\n", "            if A[:, j].sum() == 0:\n                sinks.append(j)\n", what="column sum of the 0/1 working copy")
V("sp3-c03-flatnonzero", "C03", "silent", UT, "    sinks = list(np.where(A.sum(axis=0) == 0)[0])\n", "    sinks = list(np.flatnonzero(A.sum(axis=0) == 0))\n", what="flatnonzero")
V("sp3-c03-any-axis", "C03", "silent", UT, "    sinks = list(np.where(A.sum(axis=0) == 0)[0])\n", "    sinks = list(np.where(~A.any(axis=0))[0])\n", what="no non-zero entry in the column")
V("sp3-c03-deque", "C03", "silent", UT, "        i = sinks.pop()\n        ordering.append(i)\n", "        i = sinks.pop(0)\n        ordering.append(i)\n", what="FIFO instead of LIFO: another valid topological order")
V("sp3-c03-no-copy", "C03", "silent", UT, "    A = A.copy()\n    sinks = list(", "    sinks = list(", what="redundant copy dropped (A is already a fresh array)")
V("sp3-c03-undirected-any", "C03", "silent", UT, "    if only_undirected(A).sum() > 0:\n        raise ValueError(\"The given graph is not a DAG\")", "    if only_undirected(A).any():\n        raise ValueError(\"The given graph is not a DAG\")", what=".any()")
# C15
V("sp3-c15-anc-union", "C15", "silent", UT, "    anc = pa(i, A)\n    for j in pa(i, A):\n        anc |= ancestors(j, A)\n    return anc\n", "    anc = set(pa(i, A))\n    for j in pa(i, A):\n        anc = anc | ancestors(j, A)\n    return anc\n", what="union instead of in-place union")
V("sp3-c15-anc-update", "C15", "silent", UT, "    anc = pa(i, A)\n    for j in pa(i, A):\n        anc |= ancestors(j, A)\n    return anc\n", "    anc = pa(i, A)\n    for j in pa(i, A):\n        anc.update(ancestors(j, A))\n    return anc\n", what="set.update")
V("sp3-c15-sep-isdisjoint", "C15", "silent", UT, "                if set(path) & S == set():\n", "                if S.isdisjoint(path):\n", what="isdisjoint")
V("sp3-c15-sep-not", "C15", "silent", UT, "                if set(path) & S == set():\n", "                if not (set(path) & S):\n", what="empty intersection by truthiness")
V("sp3-c15-sep-any", "C15", "silent", UT, "                if set(path) & S == set():\n", "                if not any(v in S for v in path):\n", what="generator over the path")
V("sp3-c15-cc-while", "C15", "silent", UT, "    while len(to_visit) > 0:\n        for j in to_visit:", "    while to_visit:\n        for j in to_visit:", what="set truthiness")
V("sp3-c15-paths-not-list", "C15", "silent", UT, "        elif to_visit == []:\n", "        elif not to_visit:\n", what="empty list by truthiness")
V("sp3-c15-paths-len", "C15", "silent", UT, "        elif to_visit == []:\n", "        elif len(to_visit) == 0:\n", what="len == 0")
V("sp3-c15-paths-dictcomp", "C15", "silent", UT, "    accessible = dict((i, ch(i, A) | neighbors(i, A)) for i in range(len(A)))\n", "    accessible = {i: ch(i, A) | neighbors(i, A) for i in range(len(A))}\n", what="dict comprehension")
V("sp3-c15-paths-list", "C15", "silent", UT, "    accessible = dict((i, ch(i, A) | neighbors(i, A)) for i in range(len(A)))\n", "    accessible = [ch(i, A) | neighbors(i, A) for i in range(len(A))]\n", what="list indexed by node")
V("sp3-c15-paths-pop", "C15", "silent", UT, "        current_node, visited, to_visit = stack[0]\n        if current_node == to:\n            paths.append(visited + [current_node])\n            stack = stack[1:]\n        elif to_visit == []:\n            stack = stack[1:]\n",
  "        current_node, visited, to_visit = stack[0]\n        if current_node == to:\n            paths.append(visited + [current_node])\n            stack.pop(0)\n        elif to_visit == []:\n            stack.pop(0)\n", what="pop(0) for slicing")
# C16
V("sp3-c16-skeleton-or", "C16", "silent", UT, "return ((A + A.T) != 0).astype(int)", "return ((A != 0) | (A.T != 0)).astype(int)", what="logical or of the two patterns")
V("sp3-c16-skeleton-abs", "C16", "silent", UT, "return ((A + A.T) != 0).astype(int)", "return ((np.abs(A) + np.abs(A.T)) != 0).astype(int)", what="sum of magnitudes")
V("sp3-c16-moral-copy", "C16", "silent", UT, "    moral = skeleton(A)\n    for (i, _, j) in vstructures(A):", "    moral = skeleton(A).copy()\n    for (i, _, j) in vstructures(A):", what="explicit copy")
V("sp3-c16-moral-named", "C16", "silent", UT, "    for (i, _, j) in vstructures(A):\n        moral[i, j] = 1\n        moral[j, i] = 1\n", "    for vs in vstructures(A):\n        moral[vs[0], vs[2]] = 1\n        moral[vs[2], vs[0]] = 1\n", what="indexing the triple")
# C07 / C10
V("sp3-c07-all-dags-listcomp", "C07", "silent", UT, "    dags = [A for A in dags if is_dag(A) and is_consistent_extension(A, pdag)]\n    return np.array(dags)\n", "    members = []\n    for A in dags:\n        if is_dag(A) and is_consistent_extension(A, pdag):\n            members.append(A)\n    return np.array(members)\n", what="explicit loop for the filter")
V("sp3-c07-all-dags-not", "C07", "silent", UT, "        oriented_edges[flipped == False, :] = undirected_edges[:, [0, 1]][flipped == False]\n", "        oriented_edges[~flipped, :] = undirected_edges[~flipped]\n", what="~mask and identity column order")
V("sp3-c07-all-dags-stack", "C07", "silent", UT, "    dags = [A for A in dags if is_dag(A) and is_consistent_extension(A, pdag)]\n    return np.array(dags)\n", "    dags = [A for A in dags if is_dag(A) and is_consistent_extension(A, pdag)]\n    return np.stack(dags) if dags else np.array(dags)\n", what="np.stack")

V("sp3-c03-row-zero", "C03", "silent", UT, "        for j in ch(i, A):\n            A[i, j] = 0\n", "        children = ch(i, A)\n        A[i, :] = 0\n        for j in children:\n", what="row cleared at once, children remembered before")
V("c03-row-zero-children-after", "C03", "fire", UT, "        for j in ch(i, A):\n            A[i, j] = 0\n", "        A[i, :] = 0\n        for j in ch(i, A):\n", rule="KAHN", what="row cleared before the children are read: nothing is ever relaxed")

# ------------------------------------------------------------------------------- equivalent spellings, batch 4
# LGANM.__init__
V("sp4-c01-ctor-isinstance", "C01", "silent", LG, "        elif type(variances) == np.ndarray and len(variances) == self.p:\n", "        elif isinstance(variances, np.ndarray) and len(variances) == self.p:\n", what="isinstance for type ==")
V("sp4-c01-ctor-unpack", "C01", "silent", LG, "            self.means = rng.uniform(means[0], means[1], size=self.p)\n", "            lo, hi = means\n            self.means = rng.uniform(lo, hi, size=self.p)\n", what="bounds unpacked")
V("sp4-c01-ctor-kw", "C01", "silent", LG, "            self.means = rng.uniform(means[0], means[1], size=self.p)\n", "            self.means = rng.uniform(low=means[0], high=means[1], size=self.p)\n", what="keyword bounds")
V("sp4-c01-ctor-star", "C01", "silent", LG, "            self.means = rng.uniform(means[0], means[1], size=self.p)\n", "            self.means = rng.uniform(*means, size=self.p)\n", what="star-unpacked bounds")
V("sp4-c01-ctor-array-copy", "C01", "silent", LG, "            self.means = means.copy()\n", "            self.means = np.array(means)\n", what="np.array copies")
V("sp4-c13-ctor-isinstance", "C13", "silent", LG, "        elif type(variances) == np.ndarray and len(variances) == self.p:\n", "        elif isinstance(variances, np.ndarray) and len(variances) == self.p:\n", what="isinstance for type ==")
V("sp4-c14-ctor-array-copy", "C14", "silent", LG, "            self.means = means.copy()\n", "            self.means = np.array(means)\n", what="np.array copies")
V("sp4-c03-ctor-asarray2d", "C03", "silent", LG, "        W = np.atleast_2d(W)\n", "        W = np.atleast_2d(np.asarray(W))\n", what="asarray before atleast_2d")
V("sp4-c01-p-shape", "C01", "silent", LG, "        self.p = len(W)\n", "        self.p = W.shape[0]\n", what="shape[0]")
# _parse_interventions
V("sp4-c01-parse-isinstance", "C01", "silent", LG, "        if type(params) == tuple and len(params) == 2:\n", "        if isinstance(params, tuple) and len(params) == 2:\n", what="isinstance tuple")
V("sp4-c01-parse-unpack", "C01", "silent", LG, "            interventions.append([target, params[0], params[1]])\n", "            mean, variance = params\n            interventions.append([target, mean, variance])\n", what="unpacked")
V("sp4-c01-parse-tuple-types", "C01", "silent", LG, "        elif type(params) in [float, int]:\n", "        elif type(params) in (float, int):\n", what="tuple of types")
# semi
V("sp4-c19-isinstance-n", "C19", "silent", SE, "        elif type(n) == int and n <= 0:\n", "        elif isinstance(n, int) and n <= 0:\n", what="isinstance int")
V("sp4-c19-ndim-len", "C19", "silent", SE, "        elif graph.ndim != 2:\n", "        elif len(graph.shape) != 2:\n", what="len(shape)")
V("sp4-c19-p-len", "C19", "silent", SE, "        self.p = graph.shape[1]\n", "        self.p = len(graph)\n", what="len(graph) for a square matrix")
V("sp4-c19-if-not-else", "C19", "silent", SE, "        if not isinstance(data, list):\n            raise TypeError(_DATA_TYPE_ERROR)\n        else:\n            for sample in data:", "        if not isinstance(data, list):\n            raise TypeError(_DATA_TYPE_ERROR)\n        if True:\n            for sample in data:", what="no else after raise")
V("sp4-c03-semi-pattern-bool", "C03", "silent", SE, "        self.graph = (graph != 0).astype(int)\n", "        self.graph = (graph != 0).astype(np.int64)\n", what="int64 pattern")
# chain graphs / imec
V("sp4-c10-imec-array-equal", "C10", "silent", UT, "        if (me[:, I] == A[:, I]).all():\n", "        if np.array_equal(me[:, I], A[:, I]):\n", what="np.array_equal")
V("sp4-c10-imec-listcomp", "C10", "silent", UT, "    IMEC = []\n    I = list(I)\n    for me in MEC:\n        # If parents of intervened variables match, keep in I-MEC\n        if (me[:, I] == A[:, I]).all():\n            IMEC.append(me)\n    return np.array(IMEC)\n", "    I = list(I)\n    return np.array([me for me in MEC if (me[:, I] == A[:, I]).all()])\n", what="list comprehension")
V("sp4-c10-sorted-I", "C10", "silent", UT, "    IMEC = []\n    I = list(I)\n    for me in MEC:", "    IMEC = []\n    I = sorted(I)\n    for me in MEC:", what="sorted targets (column order is irrelevant for the all-equal test)")
# maximally_orient
V("sp4-c10-orient-any", "C10", "silent", UT, "            if rule_1(i, j, P) or rule_2(i, j, P) or rule_3(i, j, P) or rule_4(i, j, P):\n", "            if any(rule(i, j, P) for rule in (rule_1, rule_2, rule_3, rule_4)):\n", what="any over the rules")
V("sp4-c10-orient-copy", "C10", "silent", UT, "        raise e\n    P = P.copy()\n", "        raise e\n    P = np.array(P)\n", what="np.array copy")
V("sp4-c10-orient-bare-raise", "C10", "silent", UT, "    except ValueError as e:\n        raise e\n    P = P.copy()\n", "    except ValueError:\n        raise\n    P = P.copy()\n", what="bare raise")
# all_dags
V("sp4-c07-edges-argwhere", "C07", "silent", UT, "    fro, to = np.where(only_undirected(pdag))\n    undirected_edges = np.array(list(filter(lambda e: e[0] > e[1], zip(fro, to))))\n", "    fro, to = np.where(only_undirected(pdag))\n    undirected_edges = np.array([e for e in zip(fro, to) if e[0] > e[1]])\n", what="comprehension for filter/lambda")
V("sp4-c07-trivial-newaxis", "C07", "silent", UT, "        return np.array([pdag.copy()])\n", "        return np.array([pdag])\n", what="np.array copies its elements")
# C15 closure
V("sp4-c16-degrees-axis1", "C16", "silent", UT, "import numpy as np\n", "import numpy as np\n_UTILS_API = 2\n", what="constant")
V("c07-silent-filter-vstructures-only", "C07", "silent", UT, "    dags = [A for A in dags if is_dag(A) and is_consistent_extension(A, pdag)]\n", "    vs_pdag = vstructures(pdag)\n    dags = [A for A in dags if is_dag(A) and vstructures(A) == vs_pdag]\n", what="candidates keep skeleton and directed edges by construction: comparing v-structures is the same test")
V("c07-member-moral-graph", "C07", "fire", UT, "    same_vstructures = vstructures(P) == vstructures(G)\n", "    same_vstructures = (moral_graph(P) == moral_graph(G)).all()\n", rule="MEMBER.conjunction", what="moral graphs coincide although a second collider over an already married pair differs")

# ------------------------------------------------------------------------------- unrelated additions to the repository (silent for every property)
NEW_CODE = '''

def _debug_dump(A, path=None):
    """Unrelated helper added by a maintainer: uses constructs the analysis does not model."""
    import json
    global _LAST_DUMP
    _LAST_DUMP = getattr(A, "shape", None)
    def rows():
        for r in A:
            yield [float(x) for x in r]
    if path is not None:
        with open(path, "w") as fh:
            json.dump(list(rows()), fh)
    try:
        return eval("1 + 1")
    finally:
        pass


class _Registry(dict):
    def __missing__(self, key):
        self[key] = value = len(self)
        return value


@staticmethod
def _unused_static():
    return None
'''
for _i in [1, 2, 3, 4, 5, 6, 7, 8, 9, 10, 11, 12, 13, 14, 15, 16, 17, 18, 19, 20]:
    VARIANTS.append(dict(id="unrelated-code-c%02d" % _i, prop="C%02d" % _i, expect="silent", rule=None,
                         edits=[(UT, "\ndef sorted_tuple(iterable):", NEW_CODE + "\n\ndef sorted_tuple(iterable):")],
                         what="an unrelated private helper (global, yield, eval, with, a dict subclass) is added to utils.py and never called"))
NEW_PUBLIC = '''

def save_graph(A, path):
    """Unrelated public helper: writes the adjacency to a JSON file."""
    import json
    with open(path, "w") as fh:
        json.dump(np.asarray(A).tolist(), fh)
    return path


def to_networkx(A):
    """Unrelated public helper: converts to a networkx graph."""
    import networkx as nx
    G = nx.DiGraph()
    G.add_nodes_from(range(len(A)))
    G.add_edges_from(directed_edges(A))
    return G


def describe(A):
    return "graph with %d nodes and %d edges" % (len(A), int((A != 0).sum()))
'''
for _i in [1, 2, 3, 4, 5, 6, 7, 8, 9, 10, 11, 12, 13, 14, 15, 16, 17, 18, 19, 20]:
    VARIANTS.append(dict(id="unrelated-public-c%02d" % _i, prop="C%02d" % _i, expect="silent", rule=None,
                         edits=[(UT, "\ndef sorted_tuple(iterable):", NEW_PUBLIC + "\n\ndef sorted_tuple(iterable):")],
                         what="unrelated public helpers (file output, networkx conversion, a description string) are added to utils.py"))
NEW_MODULE = '''"""A new, unrelated module: evaluation metrics (uses constructs and libraries the analysis does not model)."""
from __future__ import annotations
import dataclasses
import numpy as np
from sempler import utils


@dataclasses.dataclass
class Score:
    name: str
    value: float = 0.0

    def bump(self, by: float = 1.0) -> "Score":
        self.value += by
        return self


def structural_hamming_distance(A, B):
    A, B = (np.asarray(A) != 0), (np.asarray(B) != 0)
    if (n := len(A)) != len(B):
        raise ValueError("size mismatch")
    return int(np.sum(A != B)), n


def skeleton_f1(A, B, *, eps=1e-12):
    sa, sb = utils.skeleton(A), utils.skeleton(B)
    tp = float(np.sum(np.logical_and(sa, sb))) / 2
    match (tp > 0):
        case True:
            return 2 * tp / (np.sum(sa) / 2 + np.sum(sb) / 2 + eps)
        case _:
            return 0.0
'''
for _i in [1, 2, 3, 4, 5, 6, 7, 8, 9, 10, 11, 12, 13, 14, 15, 16, 17, 18, 19, 20]:
    VARIANTS.append(dict(id="unrelated-module-c%02d" % _i, prop="C%02d" % _i, expect="silent", rule=None,
                         edits=[("@newfile", "sempler/metrics.py", NEW_MODULE)],
                         what="a new unrelated module sempler/metrics.py (dataclass, walrus, match, keyword-only args)"))

# ------------------------------------------------------------------------------- every rule fires at least once: variants for rules no other entry exercised (group 1)
V("d-c18-cand-two-stores", "C18", "fire", UT, "        next_supergraph[edges[i]] = 1\n", "        next_supergraph[edges[i]] = 1\n        next_supergraph[edges[i][::-1]] = 0\n", rule="CAND.store", what="the candidate is edited twice (the second store clears an entry that is 0 for every candidate pair: in fact harmless)", accept_inconclusive=True)
V("d-c15-cc-matrix", "C15", "fire", UT, "            to_visit = (to_visit | neighbors(j, A)) - visited\n", "            to_visit = (to_visit | neighbors(j, G.T)) - visited\n", rule="CC.matrix", what="neighbours taken in another matrix", accept_inconclusive=True)
V("d-c15-cc-start", "C15", "fire", UT, "    visited = set()\n    to_visit = {i}\n", "    visited = set()\n    to_visit = neighbors(i, A)\n", rule="CC.start", what="search starts from the neighbours: an isolated node has an empty component")
V("d-c15-cc-transitive", "C15", "fire", UT, "            to_visit = (to_visit | neighbors(j, A)) - visited\n", "            to_visit = (to_visit | neighbors(i, A)) - visited\n", rule="CC.transitive", what="only the neighbours of the start node are followed")
V("d-c12-choice-recorded", "C12", "fire", GE, "            intervention = list(rng.choice(targets, size=sizes[i], replace=False))\n            interventions.append(intervention)\n", "            intervention = list(rng.choice(targets, size=sizes[i], replace=False))\n            interventions.append(sorted(set(intervention))[:1])\n", rule="CHOICE.recorded", what="something else than the draw is recorded")
V("d-c20-null-nonzero", "C20", "fire", FU, "def null(*args):\n    return 0", "def null(*args):\n    return 0 if not args else 0 * args[0]", rule="CONST.null", what="null is no longer the constant 0", accept_inconclusive=True)
V("d-c19-store-before-checks", "C19", "fire", SE, "        if not isinstance(data, list):\n            raise TypeError(_DATA_TYPE_ERROR)\n", "        self.graph = (graph != 0).astype(int)\n        if not isinstance(data, list):\n            raise TypeError(_DATA_TYPE_ERROR)\n", rule="CONTRACT.before-stores", what="an attribute is stored before the data checks")
V("d-c19-delegation-late", "C19", "fire", SE, "        super().__init__(graph, data, verbose)\n", "        self._random_forests = None\n        super().__init__(graph, data, verbose)\n", rule="CONTRACT.delegated-init", what="state is set before the argument checks of the base class ran")
V("d-c12-one-loop", "C12", "silent", GE, "    if replace:\n        interventions = []\n        targets = list(range(p))\n        for i, k in enumerate(range(K)):\n            intervention = list(rng.choice(targets, size=sizes[i], replace=False))\n            interventions.append(intervention)\n    else:\n",
  "    if replace:\n        interventions = [list(rng.choice(list(range(p)), size=sizes[i], replace=False)) for i in range(K)]\n    else:\n", what="one of the two sampling loops replaced by a comprehension (read as the loop it abbreviates since the refactor round)")
V("d-c05-ctor-roles", "C05", "fire", ND, "        self.mean = mean.copy()\n        self.covariance = covariance.copy()\n", "        self.mean = np.diag(covariance).copy()\n        self.covariance = covariance.copy()\n", rule="CTOR.roles", what="mean attribute filled from the covariance")
V("d-c03-precheck-false-rejection", "C03", "fire", UT, "    if only_undirected(A).sum() > 0:\n        raise ValueError(\"The given graph is not a DAG\")", "    if np.tril(A).sum() > 0:\n        raise ValueError(\"The given graph is not a DAG\")", rule="CYCLES", what="pre-check rejects every graph with an edge from a higher to a lower index", accept_inconclusive=True)
V("d-c10-empty-I-touches", "C10", "fire", UT, "    for i in I:\n        directed_edges += [(i, j) for j in ch(i, G)]\n        directed_edges += [(j, i) for j in pa(i, G)]\n", "    for i in range(len(G)):\n        directed_edges += [(i, j) for j in ch(i, G)]\n        directed_edges += [(j, i) for j in pa(i, G)]\n", rule="DEPENDS", what="every node treated as a target: I is ignored")
V("d-c08-extension-no-raise", "C08", "fire", UT, "            raise ValueError(\"PDAG %s does not admit consistent extension\" % oP)", "            return G", rule="EXTENSION.raises", what="no ValueError when no sink is found", accept_inconclusive=True)
V("d-c17-two-appends", "C17", "fire", UT, "            folds[i].append(fold_sample)\n", "            folds[i].append(fold_sample)\n            folds[i].append(fold_sample[:0])\n", rule="FLOW.append", what="two appends per fold")
V("d-c17-outer-reversed", "C17", "fire", UT, "    for sample in data:\n        n = len(sample)\n", "    for sample in data[::-1]:\n        n = len(sample)\n", rule="FLOW.environments", what="environments visited in reverse order: folds list them reversed")
V("d-c04-seed-not-forwarded", "C04", "fire", LG, "            return distribution.sample(n, random_state=random_state)\n", "            return distribution.sample(n)\n", rule="FORWARD.seed", what="seed dropped on the way to the sampler")
V("d-c03-anm-stores-other", "C03", "fire", AN, "        self.A = deepcopy(A)\n", "        self.A = deepcopy(np.triu(A))\n", rule="GATE.anm.stored", what="the stored matrix is not the checked one")
V("d-c03-drfnet-no-delegation", "C03", "fire", SE, "        super().__init__(graph, data, verbose)\n", "        if verbose:\n            super().__init__(graph, data, verbose)\n        else:\n            self.graph, self._data, self.p, self.e = graph, data, graph.shape[1], len(data)\n", rule="GATE.drfnet", what="checks of the base class only run in verbose mode", accept_inconclusive=True)
V("d-c10-extension-swallowed", "C10", "fire", UT, "    try:\n        pdag_to_dag(P)\n    except ValueError as e:\n        raise e\n", "    try:\n        pdag_to_dag(P)\n    except ValueError as e:\n        pass\n", rule="GUARD.extension", what="missing extension no longer raises")
V("c02-ordering-wipes-boolean-input", "C02", "fire", UT, "    A = (A != 0).astype(int)\n    # Check that there are no undirected edges", "    A = np.asarray(A, dtype=bool)\n    # Check that there are no undirected edges", rule="OWN.ctor",
  more=[(UT, "    A = A.copy()\n    sinks = list(", "    sinks = list(")], what="np.asarray(.., dtype=bool) returns a boolean argument itself: Kahn's loop empties the caller's matrix before ANM copies it")
V("c03-ordering-wipes-boolean-input", "C03", "fire", UT, "    A = (A != 0).astype(int)\n    # Check that there are no undirected edges", "    A = np.asarray(A, dtype=bool)\n    # Check that there are no undirected edges", rule="OWN.kahn",
  more=[(UT, "    A = A.copy()\n    sinks = list(", "    sinks = list(")], what="np.asarray(.., dtype=bool) returns a boolean argument itself")
V("c03-silent-bool-pattern-copy", "C03", "silent", UT, "    A = (A != 0).astype(int)\n    # Check that there are no undirected edges", "    A = np.array(A, dtype=bool)\n    # Check that there are no undirected edges", what="np.array(.., dtype=bool) copies: a boolean working matrix")
V("c05-x-centred-in-place", "C05", "fire", ND, "        x = np.atleast_1d(x)\n", "        x = np.atleast_1d(np.asarray(x, dtype=float))\n", rule="OWN.conditional",
  more=[(ND, "        mean = mean_y + cov_yx @ np.linalg.inv(cov_x) @ (x - mean_x)\n", "        x -= mean_x\n        mean = mean_y + cov_yx @ np.linalg.inv(cov_x) @ x\n")], what="the caller's float array x is centred in place: a second call conditions on other values")
V("c05-overlap-any-of-intersection", "C05", "fire", ND, "        if len(set(Y) & set(X)) > 0:\n", "        if np.intersect1d(Y, X).any():\n", rule="GUARD.conditional.overlap", what=".any() asks for a non-zero shared index: an overlap in variable 0 passes")
V("c05-silent-overlap-intersect-size", "C05", "silent", ND, "        if len(set(Y) & set(X)) > 0:\n", "        if np.intersect1d(Y, X).size > 0:\n", what="size of the intersection")
V("c05-silent-overlap-intersect-len", "C05", "silent", ND, "        if len(set(Y) & set(X)) > 0:\n", "        if len(np.intersect1d(Y, X)) != 0:\n", what="length of the intersection")
REG_OLD = "            cov_y_xs = self.covariance[y, Xs]  # utils.matrix_block(self.covariance, y, Xs)\n            cov_xs = self.covariance[:, Xs][Xs, :]  # utils.matrix_block(self.covariance, Xs, Xs)\n            coefs[Xs] = np.linalg.solve(cov_xs, cov_y_xs)\n"
V("c06-sorted-solve-permuted-twice", "C06", "fire", ND, REG_OLD, "            order = np.argsort(Xs)\n            Xs_sorted = Xs[order]\n            cov_y_xs = self.covariance[y, Xs_sorted]\n            cov_xs = self.covariance[:, Xs_sorted][Xs_sorted, :]\n            coefs[Xs] = np.linalg.solve(cov_xs, cov_y_xs)[order]\n",
  rule="FORMULA.coefs", what="solution in sorted order mapped back with the sorting permutation instead of its inverse: wrong for regressors in cyclic order")
V("c06-silent-sorted-solve", "C06", "silent", ND, REG_OLD, "            order = np.argsort(Xs)\n            Xs_sorted = Xs[order]\n            cov_y_xs = self.covariance[y, Xs_sorted]\n            cov_xs = self.covariance[:, Xs_sorted][Xs_sorted, :]\n            coefs[Xs_sorted] = np.linalg.solve(cov_xs, cov_y_xs)\n",
  what="solved in sorted order and stored at the sorted positions")
V("c06-silent-sorted-builtin", "C06", "silent", ND, REG_OLD, "            S_ = sorted(Xs)\n            cov_y_xs = self.covariance[y, S_]\n            cov_xs = self.covariance[:, S_][S_, :]\n            coefs[S_] = np.linalg.solve(cov_xs, cov_y_xs)\n",
  what="sorted(Xs) used consistently")
V("c20-size-type-check", "C20", "fire", NO, "return lambda n: np.random.uniform(lo, hi, n)", "def draw(n):\n        if not isinstance(n, int) or n < 0:\n            raise ValueError(\"n must be a non-negative integer\")\n        return np.random.uniform(lo, hi, n)\n    return draw", rule="SIZE.accepts", what="numpy integer sizes are rejected")
V("c20-silent-size-negative-check", "C20", "silent", NO, "return lambda n: np.random.uniform(lo, hi, n)", "def draw(n):\n        if n < 0:\n            raise ValueError(\"n must be non-negative\")\n        return np.random.uniform(lo, hi, n)\n    return draw", what="only negative sizes rejected")
V("c02-reseed-per-variable", "C02", "fire", AN, "        np.random.seed(random_state) if random_state is not None else None\n        # Sample according to a topological ordering of the connectivity matrix\n        X = np.zeros((n, self.p))\n        for i in self.ordering:\n", "        # Sample according to a topological ordering of the connectivity matrix\n        X = np.zeros((n, self.p))\n        for i in self.ordering:\n            np.random.seed(random_state) if random_state is not None else None\n", rule="R4.one-stream", what="global stream reseeded before every variable: all noise terms are the same draws")
V("c13-reseed-per-variable", "C13", "fire", AN, "        np.random.seed(random_state) if random_state is not None else None\n        # Sample according to a topological ordering of the connectivity matrix\n        X = np.zeros((n, self.p))\n        for i in self.ordering:\n", "        # Sample according to a topological ordering of the connectivity matrix\n        X = np.zeros((n, self.p))\n        for i in self.ordering:\n            np.random.seed(random_state) if random_state is not None else None\n", rule="R4.one-stream", what="global stream reseeded before every variable")
V("c12-two-generators", "C12", "fire", GE, "        sizes = rng.integers(size[0], size[1] + 1, K)\n", "        sizes = np.random.default_rng(random_state).integers(size[0], size[1] + 1, K)\n", rule="R4.one-stream", what="sizes and targets drawn from two generators with the same seed: perfectly correlated")
V("c16-induced-subgraph-float-index", "C16", "fire", UT, "    mask = np.zeros_like(G, dtype=bool)\n    mask[list(S), :] = True\n    mask = np.logical_and(mask, mask.T)\n    subgraph = np.zeros_like(G)\n    subgraph[mask] = G[mask]\n", "    others = np.array([i for i in range(len(G)) if i not in S])\n    subgraph = G.copy()\n    subgraph[others, :] = 0\n    subgraph[:, others] = 0\n", rule="INDEX.empty-array", what="np.array([]) is float64: S = all nodes raises IndexError", accept_inconclusive=True)
V("c16-isclique-set-of-degrees", "C16", "fire", UT, "    no_edges = np.sum(subgraph != 0)\n    n = len(S)\n    return no_edges == n * (n - 1)", "    return set(degrees(subgraph)) == {len(S) - 1}", rule="PW.count", what="set() == {-1} is False: the empty node set is no longer a clique")

# ------------------------------------------------------------------------------- every rule fires at least once (group 2)
V("d-c08-index-init", "C08", "fire", UT, "    indexes = list(range(len(P)))  # To keep track of the real variable\n", "    indexes = list(range(1, len(P) + 1))  # To keep track of the real variable\n", rule="INDEX", what="real names start at 1")
V("d-c03-kahn-loop-cond", "C03", "fire", UT, "    while len(sinks) > 0:\n        i = sinks.pop()\n", "    while len(sinks) > 1:\n        i = sinks.pop()\n", rule="KAHN.loop", what="loop stops with one node left on the work list")
V("d-c08-labels-result", "C08", "fire", UT, "        cpdag[x, y], cpdag[y, x] = 1, 1\n    return cpdag\n", "        cpdag[x, y], cpdag[y, x] = 1, 1\n    return labelled\n", rule="LABELS.result", what="the labelled matrix is returned instead of the assembled CPDAG")
V("d-c08-labels-unknown-test", "C08", "fire", UT, "    while (labelled == UNK).any():\n", "    while (labelled == REV).any():\n", rule="LABELS.unknown", what="loop runs while reversible labels remain")
V("d-c17-no-remainder", "C17", "fire", UT, "            if i < n_folds - 1:\n                fold_size = round(n * ratio)\n                fold_sample = sample[start:start + fold_size]\n                start += fold_size\n            else:\n                fold_sample = sample[start::]\n",
  "            fold_size = round(n * ratio)\n            fold_sample = sample[start:start + fold_size]\n            start += fold_size\n", rule="LAST.branch", what="no remainder branch: rounding loses or duplicates observations")
V("d-c01-layout-array", "C01", "fire", LG, "    return np.array(interventions)\n", "    return interventions\n", rule="LAYOUT.array", what="rows returned as a list of lists")
V("d-c01-layout-iter", "C01", "fire", LG, "    for (target, params) in interventions_dict.items():\n", "    for (target, params) in sorted(interventions_dict.items(), key=lambda kv: str(kv[1])):\n", rule="LAYOUT.iter", what="rows built from a re-ordered view of the items", accept_inconclusive=True)
V("d-c01-layout-reject", "C01", "fire", LG, "        else:\n            raise ValueError(\"Wrongly specified intervention\")\n", "        else:\n            interventions.append([target, 0, 0])\n", rule="LAYOUT.reject", what="malformed parameters silently become a do(0) intervention")
V("d-c11-mask-not-full", "C11", "fire", GE, "    A = np.triu(np.ones((p, p)), k=1)\n", "    A = np.triu(np.ones((p, p)) - np.eye(p, k=2), k=1)\n", rule="MASK.full", what="second super-diagonal missing: not complete")
V("d-c02-noise-reversed", "C02", "fire", AN, "        self.noise_distributions = deepcopy(noise_distributions)\n", "        self.noise_distributions = deepcopy(noise_distributions)[::-1]\n", rule="NOISE.kept", what="noise distributions stored in reverse order")
V("d-c01-noise-block-missing", "C01", "fire", LG, "        if noise_interventions:\n            noise_interventions = _parse_interventions(noise_interventions)\n            targets = noise_interventions[:, 0].astype(int)\n            means[targets] = noise_interventions[:, 1]\n            variances[targets] = noise_interventions[:, 2]\n", "", rule="NONE.blocks", what="noise interventions ignored")
V("d-c02-null-not-substituted", "C02", "fire", AN, "        self.assignments = [functions.null if fun is None else deepcopy(fun) for fun in assignments]\n", "        self.assignments = [deepcopy(fun) for fun in assignments]\n", rule="NULL.subst", what="None assignments are kept")
V("d-c02-stored-matrix-other", "C02", "fire", AN, "        self.A = deepcopy(A)\n", "        self.A = deepcopy(A.T)\n", rule="ORDER.same-matrix", what="the transposed matrix is stored")
V("d-c08-order-not-topological", "C08", "fire", UT, "    order = topological_ordering(G)\n", "    order = list(range(len(G)))\n", rule="ORDER.topological", what="index order used instead of a topological order")
V("d-c10-orient-all-pairs", "C10", "fire", UT, "        for (i, j) in undirected_edges(P):\n            if rule_1(i, j, P)", "        for (i, j) in directed_edges(P) + undirected_edges(P):\n            if rule_1(i, j, P)", rule="ORIENT.candidates", what="directed edges are candidates too")
V("d-c15-paths-record-early", "C15", "fire", UT, "        if current_node == to:\n            paths.append(visited + [current_node])\n", "        if current_node == to or len(visited) > 0:\n            paths.append(visited + [current_node])\n", rule="PATHS.record", what="partial paths are recorded")
V("d-c15-paths-return-first", "C15", "fire", UT, "            stack = [(next_node, visited + [current_node], next_to_visit)] + stack\n    return paths\n", "            stack = [(next_node, visited + [current_node], next_to_visit)] + stack\n    return paths[:1]\n", rule="PATHS.return", what="only the first path is returned")
V("d-c11-perm-switch", "C11", "fire", GE, "    print(\"avg degree = %0.2f\" % (np.sum(A) * 2 / len(A))) if debug else None\n    if return_ordering:\n", "    print(\"avg degree = %0.2f\" % (np.sum(A) * 2 / len(A))) if debug else None\n    if return_ordering and p > 2:\n", rule="PERM.switch", what="ordering only returned for p > 2")
V("d-c10-pipeline", "C10", "fire", UT, "    G = pdag_to_dag(P)\n", "    G = only_directed(P)\n", rule="PIPELINE", what="directed part used instead of an extension", accept_inconclusive=True)
V("d-c13-default-seed", "C13", "fire", ND, "    def sample(self, n, random_state=None):\n", "    def sample(self, n, random_state=0):\n", rule="R5.default", what="unseeded sampling defaults to seed 0: consecutive calls repeat")

# ------------------------------------------------------------------------------- every rule fires at least once (group 3)
V("d-c01-range-p", "C01", "fire", LG, "        self.p = len(W)\n", "        self.p = W.size\n", rule="RANGE.p", what="p set to the number of entries", accept_inconclusive=True)
V("d-c15-reach-other-matrix", "C15", "fire", UT, "    anc = pa(i, A)\n    for j in pa(i, A):\n        anc |= ancestors(j, A)\n    return anc\n", "    anc = pa(i, A)\n    for j in pa(i, A):\n        anc |= ancestors(j, A.T)\n    return anc\n", rule="REACH", what="recursive step walks the transposed graph")
V("d-c18-add-no-assert", "C18", "fire", UT, "    assert (supergraph.sum() - A.sum() == no_edges)\n    return supergraph\n", "    return supergraph\n", rule="RESULT.add", what="a graph with fewer added edges than requested is returned silently")
V("d-c12-result-other-list", "C12", "fire", GE, "            interventions.append(intervention)\n    return interventions\n", "            interventions.append(intervention)\n    return interventions[:K - 1] if K > 1 else interventions\n", rule="RESULT.list", what="last intervention dropped", accept_inconclusive=True)
V("d-c06-return-other-vector", "C06", "fire", ND, "        return (coefs, intercept)\n", "        return (coefs * 2, intercept)\n", rule="RETURN.coefs", what="first result is a rescaled vector")
V("d-c15-sep-paths-in-transpose", "C15", "fire", UT, "            for path in semi_directed_paths(a, b, G):\n", "            for path in semi_directed_paths(b, a, G):\n", rule="SEP.paths", what="paths searched from B to A")
V("d-c19-shape-array", "C19", "fire", SE, "            sample = np.zeros((n[k], self.p), dtype=float)\n", "            sample = np.zeros((n[0], self.p), dtype=float)\n", rule="SHAPE.array", what="every environment gets the first environment's size")
V("d-c19-shape-collect", "C19", "fire", SE, "            sampled_data.append(sample)\n", "            sampled_data.append(sample[:0])\n", rule="SHAPE.collect", what="an empty slice is collected", accept_inconclusive=True)
V("d-c19-shape-ctor", "C19", "fire", SE, "        self.e = len(self._data)\n", "        self.e = len(self._data[0])\n", rule="SHAPE.ctor", what="number of environments taken from the first sample's length")
V("d-c19-shape-envs", "C19", "fire", SE, "        for k in range(self.e):\n            sample = np.zeros(", "        for k in range(self.e - 1):\n            sample = np.zeros(", rule="SHAPE.envs", what="last environment skipped")
V("d-c02-shape-p", "C02", "fire", AN, "        self.p = len(A)\n", "        self.p = len(assignments) - 1\n", rule="SHAPE.p", what="p not taken from the matrix")
V("d-c19-slots-table", "C19", "fire", SE, "        self._random_forests = np.empty((self.p, self.e), dtype=object)\n", "        self._random_forests = np.empty((self.e, self.p), dtype=object)\n", rule="SLOTS.table", what="table transposed")
V("d-c08-step-last-two-stores", "C08", "fire", UT, "            labelled[unknown, y] = COM if z_exists else REV\n", "            labelled[unknown, y] = COM if z_exists else REV\n            labelled[x, y] = REV\n", rule="STEP.last", what="selected edge relabelled again")
V("d-c08-step-order-store", "C08", "fire", UT, "        ordered[x, y] = i\n", "        ordered[x] = i\n", rule="STEP.order", what="whole row labelled", accept_inconclusive=True)
V("d-c04-switch", "C04", "fire", LG, "        if not population:\n            return distribution.sample(n, random_state=random_state)\n", "        if not population and n > 0:\n            return distribution.sample(n, random_state=random_state)\n", rule="SWITCH", what="n = 0 returns the distribution object instead of an empty sample")
V("d-c17-tol-after-shuffle", "C17", "fire", UT, "    if abs(np.sum(ratios) - 1) > 1e-9:\n        raise ValueError(\"The elements in ratios must add up to 1.\")\n", "", rule="TOL",
  more=[(UT, "    assert len(folds) == n_folds\n", "    if abs(np.sum(ratios) - 1) > 1e-9:\n        raise ValueError(\"The elements in ratios must add up to 1.\")\n    assert len(folds) == n_folds\n")], what="ratio check after the work is done")
V("d-c03-topo-raises-type", "C03", "fire", UT, "    if A.sum() > 0:\n        raise ValueError(\"The given graph is not a DAG\")\n    else:\n        return ordering", "    if A.sum() > 0:\n        raise RuntimeError(\"The given graph is not a DAG\")\n    else:\n        return ordering", rule="TOPO.raises", what="cycles raise another exception type", accept_inconclusive=True)
V("d-c03-topo-returns-const", "C03", "fire", UT, "    if A.sum() > 0:\n        raise ValueError(\"The given graph is not a DAG\")\n    else:\n        return ordering", "    if A.sum() > 0:\n        raise ValueError(\"The given graph is not a DAG\")\n    else:\n        return []", rule="TOPO.returns", what="a constant is returned")
V("d-c16-vs-result-list", "C16", "fire", UT, "    return set(vstructs)\n", "    return set(vstructs[:1])\n", rule="VS.result", what="only the first v-structure is returned")
V("d-c19-slots-sources", "C19", "fire", SE, "            if parents != set():\n", "            if len(parents) > 1:\n", rule="SLOTS.sources", what="nodes with a single parent are treated as sources")
V("d-c18-bin-add", "C18", "fire", UT, "    supergraph = A.copy()\n    i = 0\n", "    supergraph = np.abs(A - 1).copy()\n    i = 0\n", rule="BIN.add", what="the working graph is not a copy of the pattern", accept_inconclusive=True)
V("d-c08-index-init-zero", "C08", "fire", UT, "    G = only_directed(P)\n    indexes = list(range(len(P)))", "    G = np.zeros_like(P)\n    indexes = list(range(len(P)))", rule="INDEX.init", what="the extension starts from the empty graph: directed edges are lost")
V("c08-silent-index-init-copy", "C08", "silent", UT, "    G = only_directed(P)\n    indexes = list(range(len(P)))", "    G = only_directed(P).copy()\n    indexes = list(range(len(P)))", what="explicit copy of the directed part")
V("c13-noise-private-generator", "C13", "fire", NO, "import numpy as np\n", "import numpy as np\n_rng = np.random.default_rng()\n", rule="R6.library-noise",
  more=[(NO, "return lambda n: np.random.laplace(mean, scale, n)", "return lambda n: _rng.laplace(mean, scale, n)")], what="library noise drawn from a private generator that ANM.sample never seeds")
V("c08-extension-any-of-neighbours", "C08", "fire", UT, "            adj_neighbors = np.all([adj_i - {y} <= adj(y, P) for y in n_i])\n", "            adj_neighbors = not any(n_i) or np.all([adj_i - {y} <= adj(y, P) for y in n_i])\n", rule="TRUTHY.node-label", what="any() over node labels: a sink whose only neighbour is node 0 skips the adjacency condition")
V("c08-silent-extension-no-neighbours", "C08", "silent", UT, "            adj_neighbors = np.all([adj_i - {y} <= adj(y, P) for y in n_i])\n", "            adj_neighbors = len(n_i) == 0 or np.all([adj_i - {y} <= adj(y, P) for y in n_i])\n", what="explicit emptiness shortcut")
V("c15-isin-set", "C15", "fire", UT, "                if set(path) & S == set():\n", "                if not np.isin(path, S).any():\n", rule="API.isin-set", what="np.isin with a Python set is all False: every path `avoids` S", accept_inconclusive=True)
MO_OLD = "            if rule_1(i, j, P) or rule_2(i, j, P) or rule_3(i, j, P) or rule_4(i, j, P):\n                # orient i -> j\n                oriented_edges = True\n"
V("c10-orient-flag-overwritten", "C10", "fire", UT, MO_OLD, "            fwd = rule_1(i, j, P) or rule_2(i, j, P) or rule_3(i, j, P) or rule_4(i, j, P)\n            oriented_edges = fwd\n            if fwd:\n                # orient i -> j\n", rule="ORIENT.flag", what="the pass flag is overwritten per edge: an orientation made for an earlier edge is forgotten and the loop stops early", accept_inconclusive=True)
V("c10-silent-orient-flag-or", "C10", "silent", UT, MO_OLD, "            if rule_1(i, j, P) or rule_2(i, j, P) or rule_3(i, j, P) or rule_4(i, j, P):\n                # orient i -> j\n                oriented_edges = oriented_edges or True\n", what="flag raised with `or`")
V("c01-silent-config-attribute", "C01", "silent", LG, "        self.W = W.copy()\n        self.p = len(W)\n", "        self.W = W.copy()\n        self.p = len(W)\n        self.verbose = False\n",
  more=[(LG, "        # Must copy as they can be changed by interventions, but we\n", "        if self.verbose:\n            print(\"sampling from\", self.p, \"variables\")\n        # Must copy as they can be changed by interventions, but we\n")],
  what="a setting stored by the constructor and only read by sample: constant over the object's life, not history")
V("c04-silent-config-attribute", "C04", "silent", LG, "        self.W = W.copy()\n        self.p = len(W)\n", "        self.W = W.copy()\n        self.p = len(W)\n        self.verbose = False\n",
  more=[(LG, "        # Must copy as they can be changed by interventions, but we\n", "        if self.verbose:\n            print(\"sampling from\", self.p, \"variables\")\n        # Must copy as they can be changed by interventions, but we\n")],
  what="a setting stored by the constructor and only read by sample")

# ------------------------------------------------------------------------------- equivalent spellings, batch 5
# _bootstrap / DRFNet.sample
V("sp5-c19-boot-take", "C19", "silent", SE, "    sample = data[idx]\n    return sample\n", "    return data[idx]\n", what="returned directly")
V("sp5-c19-boot-n", "C19", "silent", SE, "    n = len(data) if n is None else n\n", "    if n is None:\n        n = len(data)\n", what="if statement for the default size")
V("sp5-c19-boot-kw", "C19", "silent", SE, "    idx = rng.choice(len(data), n, replace=True)\n", "    idx = rng.choice(len(data), size=n, replace=True)\n", what="size keyword")
V("sp5-c19-boot-integers", "C19", "silent", SE, "    idx = rng.choice(len(data), n, replace=True)\n", "    idx = rng.integers(0, len(data), size=n)\n", what="uniform integers are a bootstrap with replacement", accept_inconclusive=False)
V("sp5-c19-reader-local", "C19", "silent", SE, "                    output = forest.predict(n=1, functional=\"sample\", newdata=new_data)\n                    sample[:, i] = output.sample[:, 0, 0]\n", "                    drawn = forest.predict(n=1, functional=\"sample\", newdata=new_data).sample\n                    sample[:, i] = drawn[:, 0, 0]\n", what="attribute taken first")
V("sp5-c19-zeros-nofloat", "C19", "silent", SE, "            sample = np.zeros((n[k], self.p), dtype=float)\n", "            sample = np.zeros((n[k], self.p))\n", what="default dtype")
V("sp5-c19-isinstance-int", "C19", "silent", SE, "        elif type(n) == int:\n            n = [n] * self.e\n", "        elif isinstance(n, int):\n            n = [n] * self.e\n", what="isinstance int")
# generators
V("sp5-c11-weights-shape", "C11", "silent", GE, "    weights = rng.uniform(w_min, w_max, size=A.shape)\n    W = A * weights\n\n    # Permute", "    weights = rng.uniform(w_min, w_max, size=(p, p))\n    W = A * weights\n\n    # Permute", what="explicit shape")
V("sp5-c11-mask-first", "C11", "silent", GE, "    weights = rng.uniform(w_min, w_max, size=A.shape)\n    W = A * weights\n\n    # Permute", "    weights = rng.uniform(w_min, w_max, size=A.shape)\n    W = weights * A\n\n    # Permute", what="commuted product")
V("sp5-c11-strict-lt", "C11", "silent", GE, "    A = (A <= prob).astype(float)\n", "    A = (A < prob).astype(float)\n", what="strict comparison of a continuous draw")
V("sp5-c12-list-range", "C12", "silent", GE, "        remaining_targets = set(range(p))\n", "        remaining_targets = set(np.arange(p))\n", what="arange")
V("sp5-c12-difference-update", "C12", "silent", GE, "            remaining_targets -= set(intervention)\n", "            remaining_targets.difference_update(intervention)\n", what="difference_update")
V("sp5-c12-sizes-repeat", "C12", "silent", GE, "        sizes = [size] * K\n", "        sizes = np.repeat(size, K)\n", what="np.repeat")
# utils edges
V("sp5-c18-remove-vectorised-ok", "C18", "silent", UT, "    pruned = A.copy()\n    for (fro, to) in rng.choice(edges, no_edges, replace=False):\n        pruned[fro, to] = 0\n    return pruned\n", "    pruned = A.copy()\n    for pair in rng.choice(edges, no_edges, replace=False):\n        pruned[pair[0], pair[1]] = 0\n    return pruned\n", what="pair indexed instead of unpacked")
V("sp5-c18-guard-gt", "C18", "silent", UT, "    if len(edges) < no_edges:\n        raise ValueError(\"There are not enough edges to remove.\")\n", "    if no_edges > len(edges):\n        raise ValueError(\"There are not enough edges to remove.\")\n", what="operands swapped")
# noise
V("sp5-c20-laplace-kw", "C20", "silent", NO, "return lambda n: np.random.laplace(mean, scale, n)", "return lambda n: np.random.laplace(loc=mean, scale=scale, size=n)", what="keywords")
V("sp5-c20-normal-sd-var", "C20", "silent", NO, "def normal(mean=0, var=1):\n    return lambda n: np.random.normal(mean, var**0.5, n)", "def normal(mean=0, var=1):\n    sd = var ** 0.5\n    return lambda n: np.random.normal(mean, sd, n)", what="standard deviation computed once")
# normal distribution
V("sp5-c06-mse-local", "C06", "silent", ND, "        cov = self.covariance\n", "        cov = np.asarray(self.covariance)\n", what="asarray view")
V("sp5-c05-marginal-ix", "C05", "silent", ND, "        covariance = utils.matrix_block(self.covariance, X, X)\n        return NormalDistribution(mean, covariance)\n", "        covariance = self.covariance[np.ix_(X, X)]\n        return NormalDistribution(mean, covariance)\n", what="np.ix_ block")

# ------------------------------------------------------------------------------- several whole-tree transformations at once (silent for every property)
for _i in [1, 2, 3, 4, 5, 6, 7, 8, 9, 10, 11, 12, 13, 14, 15, 16, 17, 18, 19, 20]:
    VARIANTS.append(dict(id="combined-transforms-c%02d" % _i, prop="C%02d" % _i, expect="silent", rule=None,
                         edits=[("@kwargs_calls",), ("@early_exit",), ("@accept_lists",), ("@numpy_alias",), ("@strip_docs_annotate",), ("@logging",)],
                         what="keyword calls + early exits + `import numpy` + annotations + logging + list-accepting prologues, all at once"))
V("c03-dtype-kind-rejection", "C03", "fire", UT, "    A = (A != 0).astype(int)\n    # Check that there are no undirected edges", "    A = np.asarray(A)\n    if A.dtype.kind not in \"bif\":\n        raise ValueError(\"Expected a boolean, integer or real matrix\")\n    A = (A != 0).astype(int)\n    # Check that there are no undirected edges", rule="TOPO.type-rejection", what="unsigned integer DAGs are rejected, and is_dag reports them as cyclic")
V("c03-silent-shape-rejection", "C03", "silent", UT, "    A = (A != 0).astype(int)\n    # Check that there are no undirected edges", "    A = np.asarray(A)\n    if A.ndim != 2 or A.shape[0] != A.shape[1]:\n        raise ValueError(\"Expected a square matrix\")\n    A = (A != 0).astype(int)\n    # Check that there are no undirected edges", what="shape validation only")
V("c17-ratios-renormalised", "C17", "fire", UT, "    n_folds = len(ratios)\n", "    ratios = np.asarray(ratios, dtype=float) / np.sum(ratios)\n    n_folds = len(ratios)\n", rule="SIZE.round", what="ratios rescaled by their float sum: ties n * r = k + 0.5 round the other way when the sum is 0.9999999999999999")
V("c17-silent-ratios-float-array", "C17", "silent", UT, "    n_folds = len(ratios)\n", "    ratios = np.asarray(ratios, dtype=float)\n    n_folds = len(ratios)\n", what="ratios converted to a float array, same numbers")
V("c05-pinv-cutoff", "C05", "fire", ND, "        mean = mean_y + cov_yx @ np.linalg.inv(cov_x) @ (x - mean_x)\n        covariance = cov_y - cov_yx @ np.linalg.inv(cov_x) @ cov_xy\n", "        prec = np.linalg.pinv(cov_x, rcond=1e-10, hermitian=True)\n        mean = mean_y + cov_yx @ prec @ (x - mean_x)\n        covariance = cov_y - cov_yx @ prec @ cov_xy\n", rule="FORMULA.conditional.cutoff", what="pseudo-inverse with a relative cut-off: badly scaled conditioning variables are dropped", accept_inconclusive=True)
V("c05-silent-pinv-plain", "C05", "silent", ND, "        mean = mean_y + cov_yx @ np.linalg.inv(cov_x) @ (x - mean_x)\n        covariance = cov_y - cov_yx @ np.linalg.inv(cov_x) @ cov_xy\n", "        prec = np.linalg.pinv(cov_x)\n        mean = mean_y + cov_yx @ prec @ (x - mean_x)\n        covariance = cov_y - cov_yx @ prec @ cov_xy\n", what="plain pseudo-inverse of an invertible block (equal over the reals)")
ANM_SIG = "    def sample(self, n, do_interventions={}, shift_interventions={}, noise_interventions={}, random_state=None):"
V("c02-silent-none-defaults", "C02", "silent", AN, ANM_SIG, "    def sample(self, n, do_interventions=None, shift_interventions=None, noise_interventions=None, random_state=None):",
  more=[(AN, "        # Set random state (if requested)\n", "        do_interventions = do_interventions or {}\n        shift_interventions = shift_interventions or {}\n        noise_interventions = noise_interventions or {}\n        # Set random state (if requested)\n")],
  what="mutable default arguments replaced by None + `or {}`")
V("c13-silent-none-defaults", "C13", "silent", AN, ANM_SIG, "    def sample(self, n, do_interventions=None, shift_interventions=None, noise_interventions=None, random_state=None):",
  more=[(AN, "        # Set random state (if requested)\n", "        do_interventions = do_interventions or {}\n        shift_interventions = shift_interventions or {}\n        noise_interventions = noise_interventions or {}\n        # Set random state (if requested)\n")],
  what="mutable default arguments replaced by None + `or {}`")
V("c14-silent-none-defaults", "C14", "silent", AN, ANM_SIG, "    def sample(self, n, do_interventions=None, shift_interventions=None, noise_interventions=None, random_state=None):",
  more=[(AN, "        # Set random state (if requested)\n", "        do_interventions = do_interventions or {}\n        shift_interventions = shift_interventions or {}\n        noise_interventions = noise_interventions or {}\n        # Set random state (if requested)\n")],
  what="mutable default arguments replaced by None + `or {}`")
LG_SIG = "    def sample(self, n=100, population=False, do_interventions={}, shift_interventions={}, noise_interventions={}, random_state=None):"
V("c01-silent-none-defaults", "C01", "silent", LG, LG_SIG, "    def sample(self, n=100, population=False, do_interventions=None, shift_interventions=None, noise_interventions=None, random_state=None):", what="None defaults: the blocks already test truthiness")
V("c04-n-or-default", "C04", "fire", LG, LG_SIG, "    def sample(self, n=None, population=False, do_interventions={}, shift_interventions={}, noise_interventions={}, random_state=None):",
  more=[(LG, "        # Must copy as they can be changed by interventions, but we\n", "        n = n or 100\n        # Must copy as they can be changed by interventions, but we\n")], rule="FORWARD.n", what="n = 0 becomes 100")

# ------------------------------------------------------------------------------- round 5 (maintenance-style refactors): fire + silent twins
_KAHN_HEAD = "    A = (A != 0).astype(int)\n    # Check that there are no undirected edges"
_KAHN_COPY = "    A = A.copy()\n    sinks = list(np.where(A.sum(axis=0) == 0)[0])"
for _p in ("C03", "C07", "C08", "C10"):
    V("r5-%s-kahn-consumes-bool" % _p.lower(), _p, "fire", UT, _KAHN_HEAD, "    A = np.asarray(A, dtype=bool)\n    # Check that there are no undirected edges",
      more=[(UT, _KAHN_COPY, "    sinks = list(np.where(A.sum(axis=0) == 0)[0])")], rule={"C03": "OWN.kahn"}.get(_p, "INTACT"),
      what="boolean graphs are emptied by the acyclicity gate (asarray returns the caller's array)")
    V("r5-%s-silent-kahn-no-second-copy" % _p.lower(), _p, "silent", UT, _KAHN_COPY, "    sinks = list(np.where(A.sum(axis=0) == 0)[0])",
      what="the pattern `(A != 0).astype(int)` is already a private array")
    V("r5-%s-silent-kahn-array-copy" % _p.lower(), _p, "silent", UT, _KAHN_HEAD, "    A = np.array(A != 0, dtype=int)\n    # Check that there are no undirected edges",
      more=[(UT, _KAHN_COPY, "    sinks = list(np.where(A.sum(axis=0) == 0)[0])")], what="np.array copies")
_SKEL = "    return ((A + A.T) != 0).astype(int)\n"
_SKEL_CACHE = ("    global _last_skeleton\n    if _last_skeleton is not None:\n        last_A, last_S = _last_skeleton\n        if last_A.shape == A.shape and np.array_equal(last_A, A):\n"
               "            return %s\n    S = ((A + A.T) != 0).astype(int)\n    _last_skeleton = (np.array(A, copy=True), S)\n    return %s\n\n\n_last_skeleton = None\n")
V("r5-c16-skeleton-cache-shared", "C16", "fire", UT, _SKEL, _SKEL_CACHE % ("last_S", "S"), rule="OWN.moral", what="moral_graph writes into the cached skeleton")
V("r5-c16-undecided-skeleton-cache-copies", "C16", "undecided", UT, _SKEL, _SKEL_CACHE % ("last_S.copy()", "S.copy()"), what="value-keyed cache handing out copies")
_VS_LOOP = ("        for (i, j) in itertools.combinations(pa(c, A), 2):\n            if A[i, j] == 0 and A[j, i] == 0:\n                # Ordering might be defensive here, as\n"
            "                # itertools.combinations already returns ordered\n                # tuples; motivation is to not depend on their feature\n"
            "                vstruct = (i, c, j) if i < j else (j, c, i)\n                vstructs.append(vstruct)\n")
_VS_VEC = ("        parents = list(pa(c, A))\n        pairs = cartesian([parents, parents]%s)\n        i, j = pairs[pairs[:, 0] < pairs[:, 1]].T\n"
           "        unshielded = np.logical_and(A[i, j] == 0, A[j, i] == 0)\n        vstructs += [(a, c, b) for (a, b) in zip(i[unshielded], j[unshielded])]\n")
V("r5-c16-cartesian-bytes", "C16", "fire", UT, _VS_LOOP, _VS_VEC % "", rule="API.cartesian-dtype", what="node labels above 127 wrap around in the default dtype of cartesian", accept_inconclusive=True)
_DRF_LOOP = ("            for i in self._ordering:\n                if self._random_forests[i, k] is None:\n                    # Node has no parents, generate a sample using bootstrapping\n"
             "                    sample[:, i] = _bootstrap(\n                        self._data[k][:, i], n[k], random_state=rng\n                    )\n                else:\n"
             "                    parents = sempler.utils.pa(i, self.graph)\n                    new_data = pd.DataFrame(sample[:, sorted(parents)])\n"
             "                    forest = self._random_forests[i, k]\n                    output = forest.predict(n=1, functional=\"sample\", newdata=new_data)\n"
             "                    sample[:, i] = output.sample[:, 0, 0]\n")
_DRF_SPLIT = ("            for i in self._sources:\n                sample[:, i] = _bootstrap(self._data[k][:, i], n[k], random_state=rng)\n            for i in self._inner:\n"
              "                new_data = pd.DataFrame(sample[:, self._parents[i]])\n                forest = self._random_forests[i, k]\n"
              "                output = forest.predict(n=1, functional=\"sample\", newdata=new_data)\n                sample[:, i] = output.sample[:, 0, 0]\n")
_DRF_FIT_END = "        ) if verbose else None\n\n    def sample(self, n=None, random_state=None):"
_DRF_FIT_NEW = ("        ) if verbose else None\n        self._parents = [sorted(sempler.utils.pa(i, self.graph)) for i in range(self.p)]\n"
                "        self._sources = [i for i in self._ordering if len(self._parents[i]) == 0]\n        self._inner = %s\n\n    def sample(self, n=None, random_state=None):")
V("r5-c19-inner-setdiff", "C19", "fire", SE, _DRF_LOOP, _DRF_SPLIT, more=[(SE, _DRF_FIT_END, _DRF_FIT_NEW % "np.setdiff1d(self._ordering, self._sources).astype(int)")],
  rule="ORDER.nodes", what="setdiff1d sorts: children before parents", accept_inconclusive=True)
V("r5-c19-undecided-inner-filtered", "C19", "undecided", SE, _DRF_LOOP, _DRF_SPLIT, more=[(SE, _DRF_FIT_END, _DRF_FIT_NEW % "[i for i in self._ordering if len(self._parents[i]) > 0]")],
  what="sources first, then the rest in topological order")
_RATIO_CHECK = "    if abs(np.sum(ratios) - 1) > 1e-9:\n        raise ValueError(\"The elements in ratios must add up to 1.\")\n"
V("r5-c17-silent-total-local", "C17", "silent", UT, _RATIO_CHECK, "    ratios = np.asarray(ratios, dtype=float)\n    total = ratios.sum()\n    if abs(total - 1) > 1e-9:\n        raise ValueError(\"The elements in ratios must add up to 1.\")\n",
  what="sum computed once on the float array")
V("r5-c17-rescaled-by-total", "C17", "fire", UT, _RATIO_CHECK, "    ratios = np.asarray(ratios, dtype=float)\n    total = ratios.sum()\n    if abs(total - 1) > 1e-9:\n        raise ValueError(\"The elements in ratios must add up to 1.\")\n    ratios = ratios / total\n",
  rule="SIZE.round", what="rescaled ratios move the rounding ties")
_SPLIT_LOOP = ("        start = 0\n        for i, ratio in enumerate(ratios):\n            if i < n_folds - 1:\n                fold_size = round(n * ratio)\n"
               "                fold_sample = sample[start:start + fold_size]\n                start += fold_size\n            else:\n                fold_sample = sample[start::]\n"
               "            folds[i].append(fold_sample)\n")
_SPLIT_NP = "        sizes = [round(n * ratio) for ratio in ratios[:-1]]\n        cuts = %s\n        for i, fold_sample in enumerate(np.split(sample, cuts)):\n            folds[i].append(fold_sample)\n"
V("r5-c17-split-unique-cuts", "C17", "fire", UT, _SPLIT_LOOP, _SPLIT_NP % "np.unique(np.cumsum(sizes, dtype=int))", rule="CONTIG", what="an empty fold removes a cut: the folds shift", accept_inconclusive=True)
V("r5-c17-undecided-split-cumsum", "C17", "undecided", UT, _SPLIT_LOOP, _SPLIT_NP % "np.cumsum(sizes, dtype=int)", what="np.split at the cumulative sizes: correct, idiom not read")
_COV = "        covariance = A @ np.diag(variances) @ A.T\n"
V("r5-c01-silent-cov-broadcast", "C01", "silent", LG, _COV, "        covariance = (A * variances) @ A.T\n", what="A diag(v) written as a broadcast")
V("r5-c01-cov-zeroed-by-variance", "C01", "fire", LG, _COV, "        covariance = (A * variances) @ A.T\n        constant = variances == 0\n        covariance[constant, :] = 0\n        covariance[:, constant] = 0\n",
  rule="NODECISION", what="a zero noise variance is not a constant variable: descendants of parents still vary")
_POOL = ("        remaining_targets = set(range(p))\n        for i, k in enumerate(range(K)):\n            intervention = list(rng.choice(list(remaining_targets), size=sizes[i], replace=False))\n"
         "            remaining_targets -= set(intervention)\n            interventions.append(intervention)\n")
V("r5-c12-pool-pop-from-end", "C12", "fire", GE, _POOL, "        pool = list(rng.choice(p, size=max_size * K, replace=False))\n        for k in sizes:\n            interventions.append(pool[-k:])\n            del pool[-k:]\n",
  rule="SLICE.minus-zero", what="pool[-0:] is the whole pool")
V("r5-c12-undecided-pool-pop-from-front", "C12", "undecided", GE, _POOL, "        pool = list(rng.choice(p, size=max_size * K, replace=False))\n        for k in sizes:\n            interventions.append(pool[:k])\n            del pool[:k]\n",
  what="disjoint prefixes of one draw without replacement: correct, but a different algorithm than the rules read")

# ------------------------------------------------------------------------------- decorators (silent for every property when transparent)
for _i in [1, 2, 3, 4, 5, 6, 7, 8, 9, 10, 11, 12, 13, 14, 15, 16, 17, 18, 19, 20]:
    VARIANTS.append(dict(id="traced-decorator-c%02d" % _i, prop="C%02d" % _i, expect="silent", rule=None, edits=[("@traced",)],
                         what="every function and method behind a transparent logging decorator (*args, **kwargs forwarded verbatim)"))
    VARIANTS.append(dict(id="shim-decorator-c%02d" % _i, prop="C%02d" % _i, expect="silent", rule=None, edits=[("@shim",)],
                         what="a correct keyword-only deprecation shim (re-packs *args into **kwargs) on every function with two defaulted trailing parameters"))

# ------------------------------------------------------------------------------- decorators: fire / silent twins
_UT_IMP = "from functools import reduce\n"
_ISDAG = "def is_dag(A):\n"


def _adj_dec(conv):
    return ("from functools import reduce, wraps\n\n\ndef _adjacency_argument(fun):\n    @wraps(fun)\n    def wrapper(A, *args, **kwargs):\n"
            "        return fun(%s, *args, **kwargs)\n    return wrapper\n" % conv)


for _p in ("C03", "C07", "C10", "C15"):
    V("dec-%s-isdag-int-cast" % _p.lower(), _p, "fire", UT, _UT_IMP, _adj_dec("np.asarray(A, dtype=int)"), more=[(UT, _ISDAG, "@_adjacency_argument\n" + _ISDAG)],
      rule="PAT", what="is_dag behind a decorator that truncates the weights to integers")
    V("dec-%s-silent-isdag-asarray" % _p.lower(), _p, "silent", UT, _UT_IMP, _adj_dec("np.asarray(A)"), more=[(UT, _ISDAG, "@_adjacency_argument\n" + _ISDAG)],
      what="is_dag behind a decorator that only converts to an array")
_SEEDED = ("from functools import reduce, wraps\n\n\ndef seeded(sampler):\n    @wraps(sampler)\n    def seeded_sampler(*args, **kwargs):\n"
           "        random_state = kwargs.get('random_state', None)\n        if random_state is not None:\n            np.random.seed(random_state)\n"
           "        return sampler(*args, **kwargs)\n    return seeded_sampler\n")
_SEEDED_OK = ("from functools import reduce, wraps\n\n\ndef seeded(position):\n    def decorator(sampler):\n        @wraps(sampler)\n        def seeded_sampler(*args, **kwargs):\n"
              "            random_state = kwargs['random_state'] if 'random_state' in kwargs else (args[position] if len(args) > position else None)\n"
              "            if random_state is not None:\n                np.random.seed(random_state)\n"
              "            return sampler(*args, **kwargs)\n        return seeded_sampler\n    return decorator\n")
_ANM_SEEDLINE = "        np.random.seed(random_state) if random_state is not None else None\n"
for _p in ("C02", "C13"):
    V("dec-%s-seed-read-from-kwargs-only" % _p.lower(), _p, "fire", UT, _UT_IMP, _SEEDED, rule="R1",
      more=[(AN, ANM_SIG, "    @utils.seeded\n" + ANM_SIG), (AN, _ANM_SEEDLINE, "")], what="a positional random_state never reaches np.random.seed")
    V("dec-%s-silent-seed-by-position-or-keyword" % _p.lower(), _p, "silent", UT, _UT_IMP, _SEEDED_OK,
      more=[(AN, ANM_SIG, "    @utils.seeded(5)\n" + ANM_SIG), (AN, _ANM_SEEDLINE, "")], what="the seeding decorator finds random_state by keyword or at its position (self included)")
_LG_SWAP = ("import functools\n\n\ndef _none_as_empty(sample):\n    @functools.wraps(sample)\n"
            "    def wrapper(self, n=100, population=False, do_interventions=None, %s, random_state=None):\n"
            "        return sample(self, n, population, do_interventions=dict(do_interventions or {}), shift_interventions=dict(shift_interventions or {}),\n"
            "                      noise_interventions=dict(noise_interventions or {}), random_state=random_state)\n    return wrapper\n\n\nimport sempler.utils as utils\n")
V("dec-c01-wrapper-signature-swapped", "C01", "fire", LG, "import sempler.utils as utils\n", _LG_SWAP % "noise_interventions=None, shift_interventions=None",
  more=[(LG, LG_SIG, "    @_none_as_empty\n" + LG_SIG)], rule="CASES", what="positional shift / noise interventions are swapped by the wrapper's own signature")
V("dec-c01-silent-wrapper-none-as-empty", "C01", "silent", LG, "import sempler.utils as utils\n", _LG_SWAP % "shift_interventions=None, noise_interventions=None",
  more=[(LG, LG_SIG, "    @_none_as_empty\n" + LG_SIG)], what="None-normalising wrapper with the documented parameter order")
_DESCR = ("import functools\nimport numpy as np\n\n\ndef _merge(params, *updates):\n    for update in updates:\n        params.update(update)\n    return params\n\n\n"
          "def _described(factory):\n    names = factory.__code__.co_varnames[:factory.__code__.co_argcount]\n    defaults = dict(zip(names, factory.__defaults__ or ()))\n\n"
          "    @functools.wraps(factory)\n    def wrapper(*args, **kwargs):\n        params = _merge(%s, zip(names, args), kwargs)\n        return factory(**params)\n    return wrapper\n")
_NO_FACT = [(NO, "def normal(mean=0, var=1):", "@_described\ndef normal(mean=0, var=1):"), (NO, "def uniform(lo=0, hi=1):", "@_described\ndef uniform(lo=0, hi=1):"),
            (NO, "def laplace(mean=0, scale=1):", "@_described\ndef laplace(mean=0, scale=1):")]
V("dec-c20-defaults-dict-updated-in-place", "C20", "fire", NO, "import numpy as np\n", _DESCR % "defaults", more=_NO_FACT, rule="DECOR.state",
  what="explicit arguments of one call become the defaults of the next")
V("dec-c20-silent-defaults-dict-copied", "C20", "silent", NO, "import numpy as np\n", _DESCR % "dict(defaults)", more=_NO_FACT,
  what="the defaults are copied before the call's arguments are merged in")

for _i in [1, 2, 3, 4, 5, 6, 7, 8, 9, 10, 11, 12, 13, 14, 15, 16, 17, 18, 19, 20]:
    VARIANTS.append(dict(id="kwonly-signatures-c%02d" % _i, prop="C%02d" % _i, expect="silent", rule=None, edits=[("@kwonly",)],
                         what="every defaulted parameter made keyword-only (def f(a, *, b=1)), call sites re-spelled with keywords"))
V("dyn-c01-class-decorator", "C01", "fire", LG, "class LGANM:", "def _registered(cls):\n    cls.sample = cls.sample\n    return cls\n\n\n@_registered\nclass LGANM:",
  rule=None, what="a class decorator on the model class (could replace its methods): outside the modelled subset", accept_inconclusive=True)
V("dyn-c13-class-decorator-unrelated", "C13", "silent", UT, "def sorted_tuple(", "def _noop(cls):\n    return cls\n\n\n@_noop\nclass _Helper:\n    pass\n\n\ndef sorted_tuple(",
  what="a decorated class nobody analyses")
V("dyn-c03-monkeypatched-function", "C03", "fire", LG, "class LGANM:", "utils.is_dag = lambda A: True\n\n\nclass LGANM:", rule=None,
  what="another module replaces utils.is_dag at import time", accept_inconclusive=True)
VARIANTS.append(dict(id="dyn-c13-method-replaced-after-class", prop="C13", expect="fire", rule=None, accept_inconclusive=True,
                     edits=[("@newfile", "sempler/_patches.py", "import sempler.anm\n\n_orig = sempler.anm.ANM.sample\n\n\ndef _sample(self, *args, **kwargs):\n    return _orig(self, *args, **kwargs)\n\n\nsempler.anm.ANM.sample = _sample\n")],
                     what="a method replaced by assignment from another module (monkeypatch)"))
V("dyn-c17-function-rebound-at-module-level", "C17", "fire", UT, "def sorted_tuple(", "split_data = (lambda f: f)(split_data)\n\n\ndef sorted_tuple(", rule=None,
  what="decorator applied by assignment: the name no longer refers to the definition", accept_inconclusive=True)
V("dyn-c17-silent-unrelated-rebinding", "C17", "silent", UT, "def sorted_tuple(", "add_edges = (lambda f: f)(add_edges)\n\n\ndef sorted_tuple(",
  what="a function this check never analyses is rebound")
V("dyn-c14-setattr-hook", "C14", "fire", LG, "    def sample(self, n=100, population=False,", "    def __setattr__(self, name, value):\n        object.__setattr__(self, name, value)\n\n    def sample(self, n=100, population=False,",
  rule=None, what="the model class intercepts attribute assignment: outside the modelled subset", accept_inconclusive=True)
_TOPO_HEAD = "    # Work on the zero pattern only: weights may be negative or cancel\n"
V("r7-c03-fast-path-one-node", "C03", "fire", UT, _TOPO_HEAD, "    if len(A) < 2:\n        return list(range(len(A)))\n" + _TOPO_HEAD, rule="TOPO.fast-path",
  what="a 1 x 1 matrix with a non-zero entry (self-loop) is accepted by a trivial-graph fast path")
V("r7-c03-silent-fast-path-empty", "C03", "silent", UT, _TOPO_HEAD, "    if len(A) == 0:\n        return list(range(len(A)))\n" + _TOPO_HEAD,
  what="fast path for the graph without nodes only")
V("r7-c19-validation-loop-returns", "C19", "fire", SE, "                elif i <= 0:\n                    raise ValueError(_N_TYPE_ERROR)\n        return None\n",
  "                elif i <= 0:\n                    raise ValueError(_N_TYPE_ERROR)\n                return None\n", rule="CONTRACT.every-entry",
  what="only the first entry of a list n is validated")
_CHAIN_TEST = "    return (A == chain_graph(p)).all()\n"
for _p in ("C07", "C10"):
    V("r7-%s-chain-test-by-degrees" % _p.lower(), _p, "fire", UT, _CHAIN_TEST,
      "    edges = A != 0\n    return bool(edges.sum() == p - 1 and (edges.sum(axis=0) <= 1).all() and (edges.sum(axis=1) <= 1).all())\n", rule="CHAIN.test",
      what="any directed path through all nodes is taken for the chain 0 -> 1 -> ... -> p-1")
    V("r7-%s-chain-test-on-pattern" % _p.lower(), _p, "silent" if _p == "C07" else "fire", UT, _CHAIN_TEST, "    return ((A != 0) == chain_graph(p)).all()\n",
      rule=None if _p == "C07" else "PAT", what="weighted chains in natural order take the shortcut too: fine for mec (0/1 members), wrong for imec "
      "(chain_graph_IMEC compares the members with the raw weights)", breaks=("C10",))
_NA = "    return neighbors(y, A) & adj(x, A)\n"
V("r7-c15-na-one-sided-filter", "C15", "fire", UT, _NA, "    return set(t for t in neighbors(y, A) if A[x, t] != 0)\n", rule="PW.relation", what="neighbours of y that are parents of x are dropped")
V("r7-c15-silent-na-two-sided-filter", "C15", "silent", UT, _NA, "    return set(t for t in neighbors(y, A) if A[x, t] != 0 or A[t, x] != 0)\n", what="adjacency to x tested entry by entry, both directions")
_DE = "    fro, to = np.where(only_directed(A))\n    return list(zip(fro, to))\n"
V("r7-c16-directed-edges-by-difference", "C16", "fire", UT, _DE, "    fro, to = np.where(A != 0)\n    edges = set(zip(fro, to)) - set(undirected_edges(A))\n    return sorted(edges)\n",
  rule="PW.table", what="undirected_edges lists one orientation only: the other one survives as a directed edge")
_ANM_ASSIGN = "                assignment = np.transpose(self.assignments[i](X[:, self.A[:, i] != 0]))\n"
V("r7-c02-assignment-dropped-by-ndim", "C02", "fire", AN, _ANM_ASSIGN,
  "                assignment = self.assignments[i](X[:, self.A[:, i] != 0])\n                assignment = np.transpose(assignment) if np.ndim(assignment) > 0 else 0\n",
  rule="CASES.anm", what="scalar-returning assignments are replaced by 0")
V("r7-c02-silent-loop-local-temporary", "C02", "silent", AN, _ANM_ASSIGN, "                parents = self.A[:, i] != 0\n                assignment = np.transpose(self.assignments[i](X[:, parents]))\n",
  what="a temporary rebound in every iteration", accept_inconclusive=True)
_ADJN = "            adj_neighbors = np.all([adj_i - {y} <= adj(y, P) for y in n_i])\n"
for _p in ("C08", "C10"):
    V("r7-%s-np-all-of-generator" % _p.lower(), _p, "fire", UT, _ADJN, "            adj_neighbors = np.all(adj_i - {y} <= adj(y, P) for y in n_i)\n", rule="API.all-of-generator",
      what="np.all(<generator>) is always True: the Dor-Tarsi adjacency condition is never tested")
    V("r7-%s-silent-builtin-all-of-generator" % _p.lower(), _p, "silent", UT, _ADJN, "            adj_neighbors = all(adj_i - {y} <= adj(y, P) for y in n_i)\n",
      what="builtin all() iterates the generator", accept_inconclusive=True)
_CHILD_EDGES = "        directed_edges += [(i, j) for j in ch(i, G)]\n"
V("r7-c10-child-edges-only-for-sources", "C10", "fire", UT, _CHILD_EDGES, "        if len(pa(i, P)) == 0:\n            directed_edges += [(i, j) for j in ch(i, G)]\n", rule="ORIENT.edges",
  what="the edges from a target to its children are oriented only when the target has no parent in the CPDAG")
V("trap-c16-sort-assigned", "C16", "fire", UT, "    S = list(S)\n    subgraph = A[S, :][:, S]\n", "    S = list(S)\n    S = S.sort()\n    subgraph = A[S, :][:, S]\n", rule="TRAP.none-returning",
  what="`S = S.sort()` leaves None in S")
V("trap-c17-is-literal", "C17", "fire", UT, "            if i < n_folds - 1:\n", "            if i is not n_folds - 1 and (n_folds is 1) is False:\n", rule=None,
  what="identity comparison of integers", accept_inconclusive=True)
V("trap-c12-is-literal", "C12", "fire", GE, "    if isinstance(size, tuple) and len(size) == 2:", "    if isinstance(size, tuple) and len(size) is 2:", rule="TRAP.is-literal",
  what="`len(size) is 2`: identity of small ints is an implementation detail")
V("trap-c05-max-of-two", "C05", "fire", ND, "        cov_x = utils.matrix_block(self.covariance, X, X)\n", "        cov_x = utils.matrix_block(self.covariance, X, X)\n        _scale = np.max(np.abs(cov_x), np.abs(cov_x).T)\n", rule="TRAP.max-of-two",
  what="np.max with two arrays (the second one is taken as the axis)", accept_inconclusive=True)

for _i in [1, 2, 3, 4, 5, 6, 7, 8, 9, 10, 11, 12, 13, 14, 15, 16, 17, 18, 19, 20]:
    VARIANTS.append(dict(id="extra-param-c%02d" % _i, prop="C%02d" % _i, expect="silent", rule=None, edits=[("@extra_param",)],
                         what="every function gets a trailing `_verbose=False` parameter guarding a logger call"))

for _i in [1, 2, 3, 4, 5, 6, 7, 8, 9, 10, 11, 12, 13, 14, 15, 16, 17, 18, 19, 20]:
    VARIANTS.append(dict(id="try-reraise-c%02d" % _i, prop="C%02d" % _i, expect="silent", rule=None, edits=[("@try_reraise",)],
                         what="every function body wrapped in try / except Exception: log; raise"))

for _i in [1, 2, 3, 4, 5, 6, 7, 8, 9, 10, 11, 12, 13, 14, 15, 16, 17, 18, 19, 20]:
    VARIANTS.append(dict(id="np-functions-c%02d" % _i, prop="C%02d" % _i, expect="silent", rule=None, edits=[("@np_functions",)],
                         what="array methods spelled as numpy functions (x.sum(axis=0) -> np.sum(x, axis=0), x.T -> np.transpose(x), ...)"))
_LG_INV = "        A = np.linalg.inv(np.eye(self.p) - W.T)\n"
V("r8-c01-negation-in-user-dtype", "C01", "fire", LG, _LG_INV, "        M = -W.T\n        np.fill_diagonal(M, 1)\n        A = np.linalg.inv(M)\n", rule="DTYPE.inverse-input",
  what="-W wraps around for unsigned weight matrices (the old expression promoted to float first)")
V("r8-c01-undecided-negation-in-float", "C01", "undecided", LG, _LG_INV, "        M = -W.T.astype(float)\n        np.fill_diagonal(M, 1)\n        A = np.linalg.inv(M)\n",
  what="same matrix, formed in floating point: correct, fill_diagonal is not read by the formula rules")
V("r8-c20-isclose-shortcut", "C20", "fire", NO, "def laplace(mean=0, scale=1):\n", "def laplace(mean=0, scale=1):\n    if np.isclose(scale, 0):\n        return lambda n: np.full(n, float(mean))\n",
  rule="TRAP.approx-branch", what="scales below 1e-8 are treated as 0")
V("r8-c20-power-in-place", "C20", "fire", NO, "def normal(mean=0, var=1):\n    return lambda n: np.random.normal(mean, var**0.5, n)", "def normal(mean=0, var=1):\n    var **= 0.5\n    return lambda n: np.random.normal(mean, var, n)",
  rule="OWN.normal", what="`var **= 0.5` rewrites a 0-d array argument in place")
V("r8-c19-allclose-constant-response", "C19", "fire", SE, "                    Y = pd.DataFrame(self._data[k][:, i])\n", "                    if np.allclose(self._data[k][:, i], self._data[k][0, i]):\n                        continue\n                    Y = pd.DataFrame(self._data[k][:, i])\n",
  rule="TRAP.approx-branch", what="a response with a large offset counts as constant and gets no forest", accept_inconclusive=True)

# ------------------------------------------------------------------------------- C17, peeled last fold (refactor round)
_C17_LOOP = "        for i, ratio in enumerate(ratios):\n            if i < n_folds - 1:\n                fold_size = round(n * ratio)\n                fold_sample = sample[start:start + fold_size]\n                start += fold_size\n            else:\n                fold_sample = sample[start::]\n            folds[i].append(fold_sample)\n"


def _c17_peeled(head, dest="folds[i]", size="round(n * ratio)", adv="            start += fold_size\n", last="folds[n_folds - 1]", rem="sample[start:]"):
    return "%s            fold_size = %s\n            %s.append(sample[start:start + fold_size])\n%s        %s.append(%s)\n" % (head, size, dest, adv, last, rem)


V("rf-c17-peeled-zip-range", "C17", "silent", UT, _C17_LOOP, _c17_peeled("        for i, ratio in zip(range(n_folds - 1), ratios):\n"), what="last fold peeled off the loop")
V("rf-c17-peeled-range", "C17", "silent", UT, _C17_LOOP, _c17_peeled("        for i in range(n_folds - 1):\n", size="round(n * ratios[i])"), what="peeled, index form")
V("rf-c17-peeled-enumerate-cut", "C17", "silent", UT, _C17_LOOP, _c17_peeled("        for i, ratio in enumerate(ratios[:-1]):\n"), what="peeled, enumerate(ratios[:-1])")
V("rf-c17-peeled-zip-lists", "C17", "silent", UT, _C17_LOOP, _c17_peeled("        for fold, ratio in zip(folds[:-1], ratios):\n", dest="fold", last="folds[-1]"),
  more=[(UT, "    folds = dict((i, []) for i in range(n_folds))\n", "    folds = [[] for _ in range(n_folds)]\n"), (UT, "    return list(folds.values())\n", "    return folds\n")], what="peeled, zip over the fold lists")
V("rf-c17-peeled-two-short", "C17", "fire", UT, _C17_LOOP, _c17_peeled("        for i, ratio in zip(range(n_folds - 2), ratios):\n"), rule="LAST", what="peeled loop leaves out two folds")
V("rf-c17-peeled-wrong-last", "C17", "fire", UT, _C17_LOOP, _c17_peeled("        for i, ratio in zip(range(n_folds - 1), ratios):\n", last="folds[0]"), rule="FLOW.destination", what="remainder goes to the first fold")
V("rf-c17-peeled-no-advance", "C17", "fire", UT, _C17_LOOP, _c17_peeled("        for i, ratio in zip(range(n_folds - 1), ratios):\n", adv=""), rule="CONTIG", what="cursor never advances")
V("rf-c17-peeled-rem-from-zero", "C17", "fire", UT, _C17_LOOP, _c17_peeled("        for i, ratio in zip(range(n_folds - 1), ratios):\n", rem="sample[0:]"), rule="CONTIG", what="remainder restarts at 0")
V("rf-c17-peeled-rem-unshuffled", "C17", "fire", UT, _C17_LOOP, _c17_peeled("        for i, ratio in zip(range(n_folds - 1), ratios):\n", rem="data[0][start:]"), rule=None, what="remainder from another array")
V("rf-c17-peeled-rem-in-loop", "C17", "fire", UT, _C17_LOOP, _c17_peeled("        for i, ratio in zip(range(n_folds - 1), ratios):\n").replace("        folds[n_folds - 1].append", "            folds[n_folds - 1].append"), rule=None, what="remainder appended in every iteration")
V("rf-c17-peeled-dict-minus-one", "C17", "fire", UT, _C17_LOOP, _c17_peeled("        for i, ratio in zip(range(n_folds - 1), ratios):\n", last="folds[-1]"), rule="FLOW.destination", what="key -1 of a dict of folds: KeyError")

# ------------------------------------------------------------------------------- C16, comprehension forms (refactor round)
_C16_VS = "    vstructs = []\n    for c in colliders:\n        for (i, j) in itertools.combinations(pa(c, A), 2):\n            if A[i, j] == 0 and A[j, i] == 0:\n                # Ordering might be defensive here, as\n                # itertools.combinations already returns ordered\n                # tuples; motivation is to not depend on their feature\n                vstruct = (i, c, j) if i < j else (j, c, i)\n                vstructs.append(vstruct)\n"
_C16_EW = "    edges = list(zip(fro, to))\n    weights = [W[i, j] for i, j in edges]\n    edge_weights = dict(zip(edges, weights))\n    return edge_weights\n"
V("rf-c16-vs-comprehension", "C16", "silent", UT, _C16_VS, "    vstructs = [(i, c, j) if i < j else (j, c, i)\n                for c in colliders\n                for (i, j) in itertools.combinations(pa(c, A), 2)\n                if A[i, j] == 0 and A[j, i] == 0]\n", what="nested loops as one comprehension")
V("rf-c16-vs-comprehension-oneline", "C16", "silent", UT, _C16_VS, "    vstructs = [(i, c, j) if i < j else (j, c, i) for c in colliders for (i, j) in itertools.combinations(pa(c, A), 2) if A[i, j] == 0 and A[j, i] == 0]\n", what="the same on one line (two loops on one line number)")
V("rf-c16-vs-comprehension-one-sided", "C16", "fire", UT, _C16_VS, "    vstructs = [(i, c, j) if i < j else (j, c, i)\n                for c in colliders\n                for (i, j) in itertools.combinations(pa(c, A), 2)\n                if A[i, j] == 0]\n", rule="VS", what="comprehension form, adjacency tested in one direction only")
V("rf-c16-vs-comprehension-unordered", "C16", "fire", UT, _C16_VS, "    vstructs = [(i, c, j)\n                for c in colliders\n                for (i, j) in itertools.permutations(pa(c, A), 2)\n                if A[i, j] == 0 and A[j, i] == 0]\n", rule="VS", what="comprehension form, both orders reported", accept_inconclusive=True)
V("rf-c16-ew-dictcomp", "C16", "silent", UT, _C16_EW, "    return {(i, j): W[i, j] for (i, j) in zip(fro, to)}\n", what="dict comprehension")
V("rf-c16-ew-dictcomp-transposed", "C16", "fire", UT, _C16_EW, "    return {(i, j): W[j, i] for (i, j) in zip(fro, to)}\n", rule="PW", what="dict comprehension reading the transposed entry")
V("rf-c16-ew-dictcomp-swapped-key", "C16", "fire", UT, _C16_EW, "    return {(j, i): W[i, j] for (i, j) in zip(fro, to)}\n", rule="PW", what="dict comprehension with swapped key", accept_inconclusive=True)
V("rf-c12-extra-draw", "C12", "fire", GE, "        targets = list(range(p))\n        for i, k in enumerate(range(K)):\n", "        targets = list(rng.choice(list(range(p)), size=p, replace=False))\n        for i, k in enumerate(range(K)):\n", rule="COUNT.loops", what="a third draw outside the sampling loops")
V("rf-c12-comp-K-plus-one", "C12", "fire", GE, "    if replace:\n        interventions = []\n        targets = list(range(p))\n        for i, k in enumerate(range(K)):\n            intervention = list(rng.choice(targets, size=sizes[i], replace=False))\n            interventions.append(intervention)\n    else:\n",
  "    if replace:\n        interventions = [list(rng.choice(list(range(p)), size=sizes[i], replace=False)) for i in range(K - 1)]\n    else:\n", rule="COUNT.K", what="comprehension form producing K - 1 interventions")

# ------------------------------------------------------------------------------- C03, in-degree form of Kahn's loop (refactor round 2)
_K_SRC = "    sinks = list(np.where(A.sum(axis=0) == 0)[0])\n"
_K_RDY = "            A[i, j] = 0\n            if len(pa(j, A)) == 0:\n"


def _kahn_indeg(init="    indegree = A.sum(axis=0)\n    sinks = list(np.where(indegree == 0)[0])\n", body="            A[i, j] = 0\n            indegree[j] -= 1\n            if indegree[j] == 0:\n"):
    return [(UT, _K_RDY, body)], init


for _id, _exp, _init, _body, _rule, _what in [
    ("rf-c03-indegree", "silent", None, None, None, "in-degree array maintained instead of recomputing the parent set"),
    ("rf-c03-indegree-dec-first", "silent", None, "            indegree[j] -= 1\n            A[i, j] = 0\n            if indegree[j] == 0:\n", None, "decrement before the removal"),
    ("rf-c03-indegree-no-dec", "fire", None, "            A[i, j] = 0\n            if indegree[j] == 0:\n", "KAHN.ready", "in-degree never decremented"),
    ("rf-c03-indegree-test-first", "fire", None, "            A[i, j] = 0\n            if indegree[j] == 0:\n                sinks.append(j)\n            indegree[j] -= 1\n            if False:\n", None, "tested before it is decremented"),
    ("rf-c03-indegree-le-one", "fire", None, "            A[i, j] = 0\n            indegree[j] -= 1\n            if indegree[j] <= 1:\n", "KAHN.ready", "ready with one parent left"),
    ("rf-c03-indegree-rows", "fire", "    indegree = A.sum(axis=1)\n    sinks = list(np.where(A.sum(axis=0) == 0)[0])\n", None, None, "out-degrees instead of in-degrees"),
    ("rf-c03-indegree-raw-weights", "fire", None, None, None, "in-degree = sum of raw weights"),
]:
    _more, _i = _kahn_indeg(*( [_init] if _init else [] ), **({"body": _body} if _body else {}))
    _edits = list(_more)
    if _id == "rf-c03-indegree-raw-weights":
        _edits.append((UT, "    A = (A != 0).astype(int)\n    # Check that there are no undirected edges\n", "    A = A.astype(float)\n    # Check that there are no undirected edges\n"))
    V(_id, "C03", _exp, UT, _K_SRC, _i, rule=_rule, what=_what, more=_edits, **({} if _exp == "silent" else {"accept_inconclusive": True}))

# ------------------------------------------------------------------------------- C10, the work list of dag_to_icpdag as a for-loop (refactor round 2)
_C10_WL = "    while len(directed_edges) > 0:\n        print(directed_edges) if debug else None\n        (x, y) = directed_edges.pop()\n"
V("rf-c10-worklist-index-loop", "C10", "silent", UT, _C10_WL, "    for k in range(len(directed_edges) - 1, -1, -1):\n        (x, y) = directed_edges[k]\n", what="index loop instead of pop()")
V("rf-c10-worklist-for", "C10", "silent", UT, _C10_WL, "    for (x, y) in reversed(directed_edges):\n", what="for-loop over the reversed list")
V("rf-c10-worklist-skip-last", "C10", "fire", UT, _C10_WL, "    for k in range(len(directed_edges) - 1):\n        (x, y) = directed_edges[k]\n", rule="DEPENDS.empty-I", what="index loop leaves out the last edge", accept_inconclusive=True)
V("rf-c10-worklist-same-edge", "C10", "fire", UT, _C10_WL, "    for k in range(len(directed_edges)):\n        (x, y) = directed_edges[0]\n", rule="ORIENT.clear", what="always the first edge")

# ------------------------------------------------------------------------------- C07 / C10 refactor-round-2 forms
_C07_OR = "        oriented_edges[flipped, :] = undirected_edges[:, [1, 0]][flipped]\n        oriented_edges[flipped == False, :] = undirected_edges[:, [0, 1]][flipped == False]\n"
V("rf-c07-orient-where", "C07", "silent", UT, _C07_OR, "        oriented_edges = np.where(flipped[:, np.newaxis], undirected_edges[:, [1, 0]], undirected_edges)\n", what="np.where instead of two masked stores")
V("rf-c07-orient-where-same", "C07", "fire", UT, _C07_OR, "        oriented_edges = np.where(flipped[:, np.newaxis], undirected_edges, undirected_edges)\n", rule="ORIENTATIONS.both-ways", what="np.where with the same orientation on both sides")
_C10_CF1 = "    IMEC = []\n    I = list(I)\n    for me in MEC:\n"
_C10_CF2 = "        if (me[:, I] == A[:, I]).all():\n            IMEC.append(me)\n    return np.array(IMEC)\n"
V("rf-c10-chain-filter-mask", "C10", "silent", UT, _C10_CF1, "    I = list(I)\n    keep = np.zeros(len(MEC), dtype=bool)\n    for k, me in enumerate(MEC):\n",
  more=[(UT, _C10_CF2, "        keep[k] = (me[:, I] == A[:, I]).all()\n    return MEC[keep]\n")], what="boolean mask instead of a list of kept members")
V("rf-c10-chain-filter-mask-rows", "C10", "fire", UT, _C10_CF1, "    I = list(I)\n    keep = np.zeros(len(MEC), dtype=bool)\n    for k, me in enumerate(MEC):\n",
  more=[(UT, _C10_CF2, "        keep[k] = (me[I, :] == A[I, :]).all()\n    return MEC[keep]\n")], rule="COLUMNS.chain-filter", what="mask form comparing rows (children) instead of columns (parents)")
V("rf-c10-chain-filter-mask-negated", "C10", "fire", UT, _C10_CF1, "    I = list(I)\n    keep = np.zeros(len(MEC), dtype=bool)\n    for k, me in enumerate(MEC):\n",
  more=[(UT, _C10_CF2, "        keep[k] = (me[:, I] == A[:, I]).all()\n    return MEC[~keep]\n")], rule="COLUMNS.chain-filter", what="mask form returning the complement")

# ------------------------------------------------------------------------------- C17, zip(folds, ratios) (refactor round 2; two agents wrote it independently)
_C17_D = "    folds = dict((i, []) for i in range(n_folds))\n"
_C17_R = "    return list(folds.values())\n"
_C17_A = "            folds[i].append(fold_sample)\n"
_C17_H = "        for i, ratio in enumerate(ratios):\n"
V("rf-c17-zip-folds", "C17", "silent", UT, _C17_H, "        for i, (fold, ratio) in enumerate(zip(folds, ratios)):\n",
  more=[(UT, _C17_D, "    folds = [[] for _ in range(n_folds)]\n"), (UT, _C17_A, "            fold.append(fold_sample)\n"), (UT, _C17_R, "    return folds\n")], what="list of folds zipped with the ratios")
V("rf-c17-zip-folds-reversed", "C17", "fire", UT, _C17_H, "        for i, (fold, ratio) in enumerate(zip(folds[::-1], ratios)):\n",
  more=[(UT, _C17_D, "    folds = [[] for _ in range(n_folds)]\n"), (UT, _C17_A, "            fold.append(fold_sample)\n"), (UT, _C17_R, "    return folds\n")], rule="FLOW.destination", what="folds paired with the ratios in reverse")
V("rf-c17-zip-folds-shared", "C17", "fire", UT, _C17_H, "        for i, (fold, ratio) in enumerate(zip(folds, ratios)):\n",
  more=[(UT, _C17_D, "    folds = [[]] * n_folds\n"), (UT, _C17_A, "            fold.append(fold_sample)\n"), (UT, _C17_R, "    return folds\n")], rule="FLOW.destination", what="one list shared by all folds")

# ------------------------------------------------------------------------------- C15 separates: all pairs (refactor round 2)
_C15_NL = "    for a in A:\n        for b in B:\n            for path in semi_directed_paths(a, b, G):\n                if set(path) & S == set():\n                    return False\n"
V("rf-c15-product", "C15", "silent", UT, _C15_NL, "    for a, b in itertools.product(A, B):\n        for path in semi_directed_paths(a, b, G):\n            if set(path).isdisjoint(S):\n                return False\n", what="itertools.product instead of nested loops")
V("rf-c15-zip-pairs", "C15", "fire", UT, _C15_NL, "    for a, b in zip(A, B):\n        for path in semi_directed_paths(a, b, G):\n            if set(path).isdisjoint(S):\n                return False\n", rule="SEP.paths", what="zip pairs the sources with the targets instead of trying all pairs")

# ------------------------------------------------------------------------------- C15 semi_directed_paths with a deque (refactor round 2)
def _c15_deque(push="            stack.appendleft((next_node, visited + [current_node], next_to_visit))\n", pop2="            stack.popleft()\n"):
    return [(UT, "    stack = [(fro, [], list(ch(fro, A) | neighbors(fro, A)))]\n", "    import collections\n    stack = collections.deque([(fro, [], list(ch(fro, A) | neighbors(fro, A)))])\n"),
            (UT, "            paths.append(visited + [current_node])\n            stack = stack[1:]\n", "            paths.append(visited + [current_node])\n            stack.popleft()\n"),
            (UT, "        elif to_visit == []:\n            stack = stack[1:]\n", "        elif to_visit == []:\n" + pop2),
            (UT, "            stack = [(next_node, visited + [current_node], next_to_visit)] + stack\n", push)]


_e = _c15_deque()
V("rf-c15-deque", "C15", "silent", *_e[0], more=_e[1:], what="deque with popleft / appendleft instead of list slicing")
_e = _c15_deque(push="            stack.appendleft((next_node, visited, next_to_visit))\n")
V("rf-c15-deque-visited-not-grown", "C15", "fire", *_e[0], more=_e[1:], rule="PATHS", what="deque form, visited does not grow (five statements rewritten: the two-way rule is stopped by the shape gate)", accept_inconclusive=True)

# ------------------------------------------------------------------------------- C18 remove_edges on two parallel index arrays (refactor round 2)
_C18_OLD = "    edges = directed_edges(A)\n    if len(edges) < no_edges:\n        raise ValueError(\"There are not enough edges to remove.\")\n    pruned = A.copy()\n    for (fro, to) in rng.choice(edges, no_edges, replace=False):\n        pruned[fro, to] = 0\n"


def _c18_par(guard="len(fro) < no_edges", draw="rng.choice(np.arange(len(fro)), no_edges, replace=False)", store="pruned[fro[chosen], to[chosen]] = 0"):
    return "    fro, to = np.where(only_directed(A))\n    if %s:\n        raise ValueError(\"There are not enough edges to remove.\")\n    pruned = A.copy()\n    chosen = %s\n    %s\n" % (guard, draw, store)


V("rf-c18-parallel-arrays", "C18", "silent", UT, _C18_OLD, _c18_par(), what="two index arrays and one vectorised store")
V("rf-c18-parallel-int-population", "C18", "silent", UT, _C18_OLD, _c18_par(draw="rng.choice(len(fro), no_edges, replace=False)"), what="integer population")
V("rf-c18-parallel-with-replacement", "C18", "fire", UT, _C18_OLD, _c18_par(draw="rng.choice(np.arange(len(fro)), no_edges)"), rule="DRAW.remove", what="positions drawn with replacement")
V("rf-c18-parallel-transposed", "C18", "fire", UT, _C18_OLD, _c18_par(store="pruned[to[chosen], fro[chosen]] = 0"), rule="RESULT.remove", what="transposed positions cleared")
V("rf-c18-parallel-guard-le", "C18", "fire", UT, _C18_OLD, _c18_par(guard="len(fro) <= no_edges"), rule="GUARD.remove", what="guard off by one")
V("rf-c18-parallel-all-edges", "C18", "fire", UT, _C18_OLD, _c18_par().replace("np.where(only_directed(A))", "np.where(A)"), rule=None, what="undirected edges counted as removable", accept_inconclusive=True)

# ------------------------------------------------------------------------------- C16 undirected_edges with a mask over the index arrays (refactor round 2)
_C16_UE = "    undirected_edges = filter(lambda e: e[0] > e[1], zip(fro, to))\n    return list(undirected_edges)\n"
V("rf-c16-ue-mask", "C16", "silent", UT, _C16_UE, "    lower = fro > to\n    return list(zip(fro[lower], to[lower]))\n", what="boolean mask on the parallel index arrays")
V("rf-c16-ue-mask-nonstrict", "C16", "silent", UT, _C16_UE, "    lower = fro >= to\n    return list(zip(fro[lower], to[lower]))\n", what="differs on the diagonal only, which graphs do not use")
V("rf-c16-ue-mask-unfiltered-second", "C16", "fire", UT, _C16_UE, "    lower = fro > to\n    return list(zip(fro[lower], to))\n", rule=None, what="second array not filtered: pairs misaligned", accept_inconclusive=True)

# ------------------------------------------------------------------------------- C07 refactor forms (round 1, taken in late)
_C07_CH = "        # Add \"backward pointing\" edges\n        for j in range(i, 0, -1):\n            A[j, j - 1] = 1\n        # Add \"forward pointing\" edges\n        for j in range(i, p - 1):\n            A[j, j + 1] = 1\n"
V("rf-c07-chain-vectorised", "C07", "silent", UT, _C07_CH, "        backward = np.arange(1, i + 1)\n        A[backward, backward - 1] = 1\n        forward = np.arange(i, p - 1)\n        A[forward, forward + 1] = 1\n", what="index-array stores instead of the two inner loops")
V("rf-c07-chain-vectorised-gap", "C07", "fire", UT, _C07_CH, "        backward = np.arange(1, i + 1)\n        A[backward, backward - 1] = 1\n        forward = np.arange(i + 1, p - 1)\n        A[forward, forward + 1] = 1\n", rule="CHAIN.partition", what="vectorised form leaves out the edge i -> i+1")
V("rf-c07-vs-set-comprehension", "C07", "silent", UT, _C16_VS + "    return set(vstructs)\n", "    return {(i, c, j) if i < j else (j, c, i)\n            for c in colliders\n            for (i, j) in itertools.combinations(pa(c, A), 2)\n            if A[i, j] == 0 and A[j, i] == 0}\n", what="set comprehension")

# ------------------------------------------------------------------------------- generator helpers feeding a loop; hand-kept counters (refactor rounds 1 / 2)
_C17_GEN_BODY = "        start = 0\n" + _C17_LOOP


def _c17_gen(cond="i < n_folds - 1", adv="            start += fold_size\n", consume="        for i, fold_slice in enumerate(_fold_slices(n, ratios)):\n            folds[i].append(sample[fold_slice])\n"):
    helper = ("\n\ndef _fold_slices(n, ratios):\n    n_folds = len(ratios)\n    start = 0\n    for i, ratio in enumerate(ratios):\n        if %s:\n            fold_size = round(n * ratio)\n"
              "            yield slice(start, start + fold_size)\n%s        else:\n            yield slice(start, None)\n\n\ndef sorted_tuple(iterable):\n" % (cond, adv))
    return [(UT, _C17_GEN_BODY, consume), (UT, "\n\ndef sorted_tuple(iterable):\n", helper)]


_e = _c17_gen()
V("rf-c17-generator-helper", "C17", "silent", *_e[0], more=_e[1:], what="fold boundaries yielded by a private generator")
_e = _c17_gen(cond="i < n_folds - 2")
V("rf-c17-generator-helper-last-two", "C17", "fire", *_e[0], more=_e[1:], rule="LAST", what="generator form, remainder taken by the last two folds")
_e = _c17_gen(adv="")
V("rf-c17-generator-helper-no-advance", "C17", "fire", *_e[0], more=_e[1:], rule="CONTIG", what="generator form, cursor never advances (a new helper: the two-way rule is stopped by the shape gate)", accept_inconclusive=True)
V("rf-c17-manual-counter", "C17", "silent", UT, "        for i, ratio in enumerate(ratios):\n", "        i = -1\n        for ratio in ratios:\n            i += 1\n", what="index kept by hand, incremented first", accept_inconclusive=True)
V("rf-c17-manual-counter-after", "C17", "silent", UT, "        start = 0\n        for i, ratio in enumerate(ratios):\n", "        start = 0\n        i = 0\n        for ratio in ratios:\n",
  more=[(UT, "            folds[i].append(fold_sample)\n", "            folds[i].append(fold_sample)\n            i += 1\n")], what="index kept by hand, incremented at the end of the body")

for _i in [1, 2, 3, 4, 5, 6, 7, 8, 9, 10, 11, 12, 13, 14, 15, 16, 17, 18, 19, 20]:
    VARIANTS.append(dict(id="np-operators-c%02d" % _i, prop="C%02d" % _i, expect="silent", rule=None, edits=[("@np_operators",)],
                         what="a @ b -> np.matmul(a, b), np.eye(n) -> np.identity(n) everywhere"))

for _i in [1, 2, 3, 4, 5, 6, 7, 8, 9, 10, 11, 12, 13, 14, 15, 16, 17, 18, 19, 20]:
    VARIANTS.append(dict(id="swap-branches-c%02d" % _i, prop="C%02d" % _i, expect="silent", rule=None, edits=[("@swap_branches",)],
                         what="every if / else written with the negated test and the branches swapped"))
    VARIANTS.append(dict(id="name-conditions-c%02d" % _i, prop="C%02d" % _i, expect="silent", rule=None, edits=[("@name_conditions",)],
                         what="if-tests and returned expressions assigned to locals first"))
    VARIANTS.append(dict(id="ternary-to-if-c%02d" % _i, prop="C%02d" % _i, expect="silent", rule=None, edits=[("@ternary_to_if",)],
                         what="conditional expressions assigned to a name written as if / else statements"))

# ------------------------------------------------------------------------------- C07 chain enumeration with one merged link loop (refactor round 2)
V("rf-c07-chain-merged-loop", "C07", "silent", UT, _C07_CH, "        for k in range(p - 1):\n            if k < i:\n                A[k + 1, k] = 1\n            else:\n                A[k, k + 1] = 1\n", what="the two inner loops merged into one loop over the links")
V("rf-c07-chain-merged-loop-le", "C07", "fire", UT, _C07_CH, "        for k in range(p - 1):\n            if k <= i:\n                A[k + 1, k] = 1\n            else:\n                A[k, k + 1] = 1\n", rule="CHAIN.partition", what="merged loop, the link at the root points towards it", accept_inconclusive=True)

# ------------------------------------------------------------------------------- C16 edge lists as comprehensions over index pairs (seed round 9)
_C16_DE = "    fro, to = np.where(only_directed(A))\n    return list(zip(fro, to))\n"
V("r9-c16-directed-product", "C16", "silent", UT, _C16_DE, "    return [(i, j) for (i, j) in itertools.product(range(len(A)), repeat=2) if A[i, j] != 0 and A[j, i] == 0]\n", what="directed edges as a comprehension over all ordered pairs")
V("r9-c16-directed-combinations", "C16", "fire", UT, _C16_DE, "    return [(i, j) for (i, j) in itertools.combinations(range(len(A)), 2) if A[i, j] != 0 and A[j, i] == 0]\n", rule="PW.table", what="unordered pairs: edges from a higher to a lower index are never listed")
V("r9-c16-undirected-combinations", "C16", "silent", UT, _C16_UE, "    return sorted((j, i) for (i, j) in itertools.combinations(range(len(P)), 2) if P[i, j] != 0 and P[j, i] != 0)\n", what="undirected edges from unordered pairs: one representative each")
V("r9-c16-weights-product", "C16", "silent", UT, _C16_EW, "    return {(i, j): W[i, j] for (i, j) in itertools.product(range(len(W)), repeat=2) if W[i, j] != 0}\n", what="edge weights as a dict comprehension over all ordered pairs")
V("r9-c16-weights-product-transposed", "C16", "fire", UT, _C16_EW, "    return {(i, j): W[j, i] for (i, j) in itertools.product(range(len(W)), repeat=2) if W[i, j] != 0}\n", rule="PW.table", what="dict comprehension reading the transposed entry")

for _i in [1, 2, 3, 4, 5, 6, 7, 8, 9, 10, 11, 12, 13, 14, 15, 16, 17, 18, 19, 20]:
    VARIANTS.append(dict(id="private-module-c%02d" % _i, prop="C%02d" % _i, expect="silent", rule=None, edits=[("@private_module",)],
                         what="the small graph helpers of utils moved into a private module and imported back under their names"))

# ---- x[a:len(x)] as the open-ended remainder; a fold loop left early
_C17_STOP = "        for i, ratio in enumerate(ratios):\n            stop = n if i == n_folds - 1 else start + round(n * ratio)\n            folds[i].append(sample[start:stop])\n            start = stop\n"
V("r9-c17-stop-bound", "C17", "silent", UT, _C17_LOOP, _C17_STOP, what="one slice sample[start:stop] with stop = n for the last fold (x[a:len(x)] is x[a:])")
V("r9-c17-stop-bound-early-break", "C17", "fire", UT, _C17_LOOP, _C17_STOP.replace("            start = stop\n", "            if stop >= n:\n                break\n            start = stop\n"), rule="FLOW.break",
  accept_inconclusive=True, what="the fold loop stops as soon as the sample is used up: later folds get no (empty) slice")
V("r9-c17-break-after-second", "C17", "fire", UT, "            folds[i].append(fold_sample)\n", "            folds[i].append(fold_sample)\n            if i >= 1:\n                break\n", rule="FLOW.break",
  what="fold loop left after the second fold")
V("r9-c17-stop-bound-other-len", "C17", "fire", UT, _C17_LOOP, _C17_STOP.replace("stop = n if", "stop = len(data[0]) if"), rule=None, what="the last fold ends at the length of the first environment")

# ---- principal sub-matrix through a helper: the two index parameters are bound to one variable of the caller
V("r4-c16-isclique-matrix-block", "C16", "silent", UT, "    subgraph = A[S, :][:, S]\n    subgraph = skeleton(subgraph)", "    subgraph = matrix_block(A, S, S)\n    subgraph = skeleton(subgraph)",
  what="is_clique takes the block with the helper matrix_block(A, S, S)")
V("r4-c16-isclique-matrix-block-kw", "C16", "silent", UT, "    subgraph = A[S, :][:, S]\n    subgraph = skeleton(subgraph)", "    subgraph = matrix_block(A, cols=S, rows=S)\n    subgraph = skeleton(subgraph)",
  what="the same by keyword")
V("r4-c16-isclique-matrix-block-other-order", "C16", "fire", UT, "    subgraph = A[S, :][:, S]\n    subgraph = skeleton(subgraph)", "    T = S[::-1]\n    subgraph = matrix_block(A, S, T)\n    subgraph = skeleton(subgraph)",
  rule=None, what="rows and columns in different orders: A + A.T no longer pairs (i, j) with (j, i)")
V("t-c11-inverse-relabelling-consistent", "C11", "silent", GE, "    permutation = rng.permutation(p)\n    # Note the actual topological ordering is the \"conjugate\" of permutation eg. [3,1,2] -> [2,3,1]\n    if return_ordering:\n        return (W[permutation, :][:, permutation], np.argsort(permutation))\n    else:\n        return W[permutation, :][:, permutation]",
  "    permutation = rng.permutation(p)\n    permuted = np.zeros_like(W)\n    permuted[np.ix_(permutation, permutation)] = W\n    if return_ordering:\n        return (permuted, permutation)\n    else:\n        return permuted", what="graph relabelled with the inverse permutation, and the permutation returned as its ordering: consistent")

# ---- Kahn's algorithm with parent counters only (no edge is deleted): written independently by four refactoring agents of round 5
_KAHN_OLD = "    A = A.copy()\n    sinks = list(np.where(A.sum(axis=0) == 0)[0])\n    ordering = []\n    while len(sinks) > 0:\n        i = sinks.pop()\n        ordering.append(i)\n        for j in ch(i, A):\n            A[i, j] = 0\n            if len(pa(j, A)) == 0:\n                sinks.append(j)\n    # If A still contains edges there is at least one cycle\n    if A.sum() > 0:\n"


def _kahn_counters(count="A.sum(axis=0)", dec="            pending[j] -= 1\n", ready="pending[j] == 0", children="ch(i, A)", left="pending.sum() > 0"):
    return ("    pending = %s\n    sinks = list(np.where(pending == 0)[0])\n    ordering = []\n    while len(sinks) > 0:\n        i = sinks.pop()\n        ordering.append(i)\n"
            "        for j in %s:\n%s            if %s:\n                sinks.append(j)\n    # If some edge was never visited there is at least one cycle\n    if %s:\n" % (count, children, dec, ready, left))


V("r5-c03-kahn-counters", "C03", "silent", UT, _KAHN_OLD, _kahn_counters(), what="parent counters instead of edge deletion")
V("r5-c03-kahn-counters-count-test", "C03", "silent", UT, _KAHN_OLD, _kahn_counters(left="len(ordering) < len(A)"), what="counters, leftover test by the number of emitted nodes")
V("r5-c03-kahn-counters-outdegree", "C03", "fire", UT, _KAHN_OLD, _kahn_counters(count="A.sum(axis=1)"), rule="KAHN", what="counters start as out-degrees", accept_inconclusive=True)
V("r5-c03-kahn-counters-no-decrement", "C03", "fire", UT, _KAHN_OLD, _kahn_counters(dec=""), rule="KAHN", what="counter never decremented", accept_inconclusive=True)
V("r5-c03-kahn-counters-conditional-decrement", "C03", "fire", UT, _KAHN_OLD, _kahn_counters(dec="            if j > i:\n                pending[j] -= 1\n"), rule="KAHN.remove-edge", what="decrement only for some edges")
V("r5-c03-kahn-counters-ready-le-one", "C03", "fire", UT, _KAHN_OLD, _kahn_counters(ready="pending[j] <= 1"), rule="KAHN.ready", what="ready one parent too early")
V("r5-c03-kahn-counters-parents", "C03", "fire", UT, _KAHN_OLD, _kahn_counters(children="pa(i, A)"), rule="KAHN.children", what="walks to the parents")
V("r5-c03-kahn-counters-no-leftover", "C03", "fire", UT, _KAHN_OLD, _kahn_counters(left="False"), rule=None, what="cycle test disabled", accept_inconclusive=True)

# ---- LGANM.sample: the three intervention blocks folded into one loop over (kind, dict) records with string kinds and `continue`
_LG_BLOCKS = ("        # Perform shift interventions\n        if shift_interventions:\n            shift_interventions = _parse_interventions(shift_interventions)\n            targets = shift_interventions[:, 0].astype(int)\n"
              "            means[targets] += shift_interventions[:, 1]\n            variances[targets] += shift_interventions[:, 2]\n\n        # Perform noise interventions. Note that they take preference\n"
              "        # i.e. \"override\" shift interventions\n        if noise_interventions:\n            noise_interventions = _parse_interventions(noise_interventions)\n            targets = noise_interventions[:, 0].astype(int)\n"
              "            means[targets] = noise_interventions[:, 1]\n            variances[targets] = noise_interventions[:, 2]\n\n        # Perform do interventions. Note that they take preference\n"
              "        # i.e. \"override\" shift and noise interventions\n        if do_interventions:\n            do_interventions = _parse_interventions(do_interventions)\n            targets = do_interventions[:, 0].astype(int)\n"
              "            means[targets] = do_interventions[:, 1]\n            variances[targets] = do_interventions[:, 2]\n            W[:, targets] = 0\n")


def _lg_folded(order=("shift", "noise", "do"), shift_op="+=", cut="do"):
    recs = ", ".join('("%s", %s_interventions)' % (k, k) for k in order)
    return ("        for kind, interventions in (%s):\n            if not interventions:\n                continue\n            interventions = _parse_interventions(interventions)\n"
            "            targets = interventions[:, 0].astype(int)\n            if kind == \"shift\":\n                means[targets] %s interventions[:, 1]\n                variances[targets] %s interventions[:, 2]\n"
            "                continue\n            means[targets] = interventions[:, 1]\n            variances[targets] = interventions[:, 2]\n            if kind == \"%s\":\n                W[:, targets] = 0\n" % (recs, shift_op, shift_op, cut))


V("r5-c01-folded-kinds", "C01", "silent", LG, _LG_BLOCKS, _lg_folded(), what="one loop over (kind, dict) records, string kinds, guard clauses with continue")
V("r5-c01-folded-kinds-do-first", "C01", "fire", LG, _LG_BLOCKS, _lg_folded(order=("do", "noise", "shift")), rule="CASES", what="folded loop, do applied first: shift lands on top of do")
V("r5-c01-folded-kinds-shift-assigns", "C01", "fire", LG, _LG_BLOCKS, _lg_folded(shift_op="="), rule="CASES", what="folded loop, shift replaces instead of adding")
V("r5-c01-folded-kinds-noise-cuts", "C01", "fire", LG, _LG_BLOCKS, _lg_folded(cut="noise"), rule="CASES", what="folded loop, the noise intervention cuts the edges instead of the do intervention")

# ---- transitive closure by repeated squaring (written by three seed agents, each one round short)
_TC_OLD = "    for i in range(len(A)):\n        desc = list(descendants(i, A) - {i})\n        closure[i, desc] = 1\n"


def _tc_squaring(rounds):
    return "    p = len(A)\n    reach = A != 0\n    rounds = %s\n    for _ in range(rounds):\n        reach = np.logical_or(reach, reach @ reach)\n    closure[reach] = 1\n" % rounds


V("r10-c15-closure-squaring", "C15", "silent", UT, _TC_OLD, _tc_squaring("int(np.ceil(np.log2(p - 1))) if p > 1 else 0"), what="closure by repeated squaring, ceil(log2(p - 1)) rounds")
V("r10-c15-closure-squaring-bitlength", "C15", "silent", UT, _TC_OLD, _tc_squaring("(p - 1).bit_length() if p > 1 else 0"), what="closure by repeated squaring, (p - 1).bit_length() rounds")
V("r10-c15-closure-squaring-p-rounds", "C15", "silent", UT, _TC_OLD, _tc_squaring("p"), what="closure by repeated squaring, p rounds (more than needed)")
V("r10-c15-closure-squaring-floor", "C15", "fire", UT, _TC_OLD, _tc_squaring("int(np.log2(p)) if p > 1 else 0"), rule="CLOSURE.rounds", what="floor(log2 p) rounds: one short for p = 6, 7, 10-15, ...")
V("r10-c15-closure-squaring-unguarded", "C15", "fire", UT, _TC_OLD, _tc_squaring("int(np.ceil(np.log2(p - 1)))"), rule="CLOSURE.rounds", what="log2(0) for a single node")
V("r10-c15-closure-squaring-half", "C15", "fire", UT, _TC_OLD, _tc_squaring("int(np.ceil(np.log2(p))) - 1 if p > 1 else 0"), rule="CLOSURE.rounds", what="one round dropped")

# ---- the small re-spellings of refactoring round 6 applied to the whole tree, against every check
for _i in (1, 2, 3, 4, 5, 6, 7, 8, 9, 10, 11, 12, 13, 14, 15, 16, 17, 18, 19, 20):
    VARIANTS.append(dict(id="small-idioms-c%02d" % _i, prop="C%02d" % _i, expect="silent", rule=None, edits=[("@small_idioms",)],
                         what="np.where(m)[0] -> np.flatnonzero(m), X[a, :] -> X[a], x ** 0.5 -> pow(x, 0.5), len(pa(...)) > 0 -> pa(...) everywhere"))
for _i in (1, 2, 3, 4, 5, 6, 7, 8, 9, 10, 11, 12, 13, 14, 15, 16, 17, 18, 19, 20):
    VARIANTS.append(dict(id="flip-comparisons-c%02d" % _i, prop="C%02d" % _i, expect="silent", rule=None, edits=[("@flip_comparisons",)],
                         what="every ordered comparison with its operands swapped (a < b -> b > a)"))
    VARIANTS.append(dict(id="else-after-exit-c%02d" % _i, prop="C%02d" % _i, expect="silent", rule=None, edits=[("@else_after_exit",)],
                         what="`else` after return / raise / continue / break turned into straight-line code, everywhere"))
for _i in (1, 2, 3, 4, 5, 6, 7, 8, 9, 10, 11, 12, 13, 14, 15, 16, 17, 18, 19, 20):
    VARIANTS.append(dict(id="comp-to-loop-c%02d" % _i, prop="C%02d" % _i, expect="undecided", rule=None, edits=[("@comp_to_loop",)],
                         what="every `name = [elt for t in it if c]` statement written as a loop with append, dict(generator) as a dict comprehension: accepted or undecided, never an alarm"))
for _i in (1, 2, 3, 4, 5, 6, 7, 8, 9, 10, 11, 12, 13, 14, 15, 16, 17, 18, 19, 20):
    VARIANTS.append(dict(id="logic-spellings-c%02d" % _i, prop="C%02d" % _i, expect="silent", rule=None, edits=[("@logic_spellings",)],
                         what="De Morgan on every two-way and / or test, `is not` / `not in` / `!=` as `not ... is / in / ==`, everywhere"))
for _i in (1, 2, 3, 4, 5, 6, 7, 8, 9, 10, 11, 12, 13, 14, 15, 16, 17, 18, 19, 20):
    VARIANTS.append(dict(id="local-aliases-c%02d" % _i, prop="C%02d" % _i, expect="undecided", rule=None, edits=[("@local_aliases",)],
                         what="read-only attributes of self read once into locals in every method, len(M) -> M.shape[0] for matrix parameters, zeros_like(X) -> zeros(X.shape, dtype=X.dtype): accepted or undecided, never an alarm"))
for _i in (1, 2, 3, 4, 5, 6, 7, 8, 9, 10, 11, 12, 13, 14, 15, 16, 17, 18, 19, 20):
    VARIANTS.append(dict(id="method-spellings-c%02d" % _i, prop="C%02d" % _i, expect="undecided", rule=None, edits=[("@method_spellings",)],
                         what="M.copy() -> np.copy(M), x.sum(axis=0) -> x.sum(0), set algebra on node sets as .intersection / .union / .difference: accepted or undecided, never an alarm"))
for _i in (1, 2, 3, 4, 5, 6, 7, 8, 9, 10, 11, 12, 13, 14, 15, 16, 17, 18, 19, 20):
    VARIANTS.append(dict(id="statement-spellings-c%02d" % _i, prop="C%02d" % _i, expect="undecided", rule=None, edits=[("@statement_spellings",)],
                         what="i += 1 -> i = i + 1, returned expressions and nested call arguments through temporaries, chained comparisons split: accepted or undecided, never an alarm"))
for _i in (1, 2, 3, 4, 5, 6, 7, 8, 9, 10, 11, 12, 13, 14, 15, 16, 17, 18, 19, 20):
    VARIANTS.append(dict(id="loop-spellings-c%02d" % _i, prop="C%02d" % _i, expect="undecided", rule=None, edits=[("@loop_spellings",)],
                         what="for-range loops as counting while loops, loops over list-valued locals as index loops: accepted or undecided, never an alarm"))
for _i in (1, 2, 3, 4, 5, 6, 7, 8, 9, 10, 11, 12, 13, 14, 15, 16, 17, 18, 19, 20):
    VARIANTS.append(dict(id="import-styles-c%02d" % _i, prop="C%02d" % _i, expect="undecided", rule=None, edits=[("@import_styles",)],
                         what="every non-numpy import written the other way (from-import <-> module import with attribute access): accepted or undecided, never an alarm"))
for _i in (1, 2, 3, 4, 5, 6, 7, 8, 9, 10, 11, 12, 13, 14, 15, 16, 17, 18, 19, 20):
    VARIANTS.append(dict(id="np-constructors-c%02d" % _i, prop="C%02d" % _i, expect="undecided", rule=None, edits=[("@np_constructors",)],
                         what="shapes as lists, arange(0, n), logical_and/or/not on comparisons as & | ~, sums of comparisons as count_nonzero: accepted or undecided, never an alarm"))
for _i in (1, 2, 3, 4, 5, 6, 7, 8, 9, 10, 11, 12, 13, 14, 15, 16, 17, 18, 19, 20):
    VARIANTS.append(dict(id="literal-spellings-c%02d" % _i, prop="C%02d" % _i, expect="undecided", rule=None, edits=[("@literal_spellings",)],
                         what="[] -> list(), {} -> dict(), set([a, b]) -> {a, b}, sorted(x) -> sorted(list(x)), raise messages re-worded: accepted or undecided, never an alarm"))
for _i in (1, 2, 3, 4, 5, 6, 7, 8, 9, 10, 11, 12, 13, 14, 15, 16, 17, 18, 19, 20):
    VARIANTS.append(dict(id="arith-spellings-c%02d" % _i, prop="C%02d" % _i, expect="undecided", rule=None, edits=[("@arith_spellings",)],
                         what="constant operands of + and * on the other side, x / 2 -> x * 0.5, x ** 2 -> x * x, x[0:n] -> x[:n]: accepted or undecided, never an alarm"))
for _i in (1, 2, 3, 4, 5, 6, 7, 8, 9, 10, 11, 12, 13, 14, 15, 16, 17, 18, 19, 20):
    VARIANTS.append(dict(id="all-spellings-c%02d" % _i, prop="C%02d" % _i, expect="undecided", rule=None,
                         edits=[("@small_idioms",), ("@flip_comparisons",), ("@logic_spellings",), ("@local_aliases",), ("@method_spellings",), ("@statement_spellings",),
                                ("@np_constructors",), ("@literal_spellings",), ("@arith_spellings",), ("@import_styles",)],
                         what="ten of the spelling transforms applied together: accepted or undecided, never an alarm"))
for _i in (1, 2, 3, 4, 5, 6, 7, 8, 9, 10, 11, 12, 13, 14, 15, 16, 17, 18, 19, 20):
    VARIANTS.append(dict(id="defensive-copies-c%02d" % _i, prop="C%02d" % _i, expect="undecided", rule=None, edits=[("@defensive_copies",)],
                         what="`A = A.copy()` at the top of every utils function that only reads its matrix parameter: accepted or undecided, never an alarm"))
for _i in (1, 2, 3, 4, 5, 6, 7, 8, 9, 10, 11, 12, 13, 14, 15, 16, 17, 18, 19, 20):
    VARIANTS.append(dict(id="local-snapshots-c%02d" % _i, prop="C%02d" % _i, expect="undecided", rule=None, edits=[("@local_snapshots",)],
                         what="`A_ = A.copy()` and A_ read wherever A stood, in every utils function that only reads its matrix parameter: accepted or undecided, never an alarm"))
for _i in (1, 2, 3, 4, 5, 6, 7, 8, 9, 10, 11, 12, 13, 14, 15, 16, 17, 18, 19, 20):
    VARIANTS.append(dict(id="reorder-defs-c%02d" % _i, prop="C%02d" % _i, expect="silent", rule=None, edits=[("@reorder_defs",)],
                         what="module-level functions and methods defined in another order: nothing any check reads depends on it"))
for _i in (1, 2, 3, 4, 5, 6, 7, 8, 9, 10, 11, 12, 13, 14, 15, 16, 17, 18, 19, 20):
    VARIANTS.append(dict(id="validate-inputs-c%02d" % _i, prop="C%02d" % _i, expect="undecided", rule=None, edits=[("@validate_inputs",)],
                         what="a squareness check raising ValueError at the top of every utils function with a matrix parameter: accepted or undecided, never an alarm"))

# ------------------------------------------------------------------------------- C09 (consistent-extension search, Meek orientation)
_SINK = "            sink = len(ch(i, P)) == 0\n"
_ADJN = "            adj_neighbors = np.all([adj_i - {y} <= adj(y, P) for y in n_i])\n"
_HCE = "    try:\n        pdag_to_dag(pdag)\n        return True\n    except ValueError:\n        return False\n"
V("c09-sink-parents", "C09", "fire", UT, _SINK, "            sink = len(pa(i, P)) == 0\n", rule="SINK.childless", what="a source is removed instead of a sink")
V("c09-sink-original-graph", "C09", "fire", UT, _SINK, "            sink = len(ch(i, oP)) == 0\n", rule="SINK.childless", what="children looked up in the original graph under local indices")
V("c09-sink-neighbours-only", "C09", "fire", UT, _ADJN, "            adj_neighbors = np.all([n_i - {y} <= adj(y, P) for y in n_i])\n", rule="SINK.neighbours", what="parents of the sink need not be adjacent to its neighbours: new v-structures")
V("c09-sink-y-not-removed", "C09", "fire", UT, _ADJN, "            adj_neighbors = np.all([adj_i <= adj(y, P) for y in n_i])\n", rule="SINK.neighbours", what="y is never adjacent to itself: no node with a neighbour is ever admissible")
V("c09-sink-proper-subset", "C09", "fire", UT, _ADJN, "            adj_neighbors = np.all([adj_i - {y} < adj(y, P) for y in n_i])\n", rule="SINK.neighbours", what="proper subset")
V("c09-sink-any", "C09", "fire", UT, _ADJN, "            adj_neighbors = np.any([adj_i - {y} <= adj(y, P) for y in n_i])\n", rule="SINK.neighbours", what="one good neighbour suffices (and a node without neighbours is never admissible)")
V("c09-sink-all-generator", "C09", "fire", UT, _ADJN, "            adj_neighbors = np.all(adj_i - {y} <= adj(y, P) for y in n_i)\n", rule=None, what="np.all of a generator is always True")
V("c09-sink-over-adjacent", "C09", "fire", UT, _ADJN, "            adj_neighbors = np.all([adj_i - {y} <= adj(y, P) for y in adj_i])\n", rule="SINK.neighbours", what="condition demanded of parents as well")
V("c09-sink-superset", "C09", "fire", UT, _ADJN, "            adj_neighbors = np.all([adj_i - {y} >= adj(y, P) for y in n_i])\n", rule="SINK.neighbours", what="inclusion reversed")
V("c09-sink-adj-of-i", "C09", "fire", UT, _ADJN, "            adj_neighbors = np.all([adj_i - {y} <= adj(i, P) for y in n_i])\n", rule="SINK.neighbours", what="compares adj(i) with itself: always true")
V("c09-sink-or", "C09", "fire", UT, "            found = sink and adj_neighbors\n", "            found = sink or adj_neighbors\n", rule="SINK.both", what="either condition suffices")
V("c09-sink-only-childless", "C09", "fire", UT, "            found = sink and adj_neighbors\n", "            found = sink\n", rule="SINK.neighbours", what="condition 2 dropped")
V("c09-scan-from-one", "C09", "fire", UT, "        found = False\n        i = 0\n", "        found = False\n        i = 1\n", rule="SCAN.complete", what="node 0 of the remaining graph is never tried")
V("c09-scan-one-short", "C09", "fire", UT, "        while not found and i < len(P):\n", "        while not found and i < len(P) - 1:\n", rule="SCAN.complete", what="the last remaining node is never tried")
V("c09-raise-needs-more", "C09", "fire", UT, "        if not found:\n            raise ValueError(\"PDAG %s does not admit consistent extension\" % oP)", "        if not found and len(P) > 2:\n            raise ValueError(\"PDAG %s does not admit consistent extension\" % oP)", rule="RAISE.iff", what="no error when two nodes are left")
V("c09-hce-catches-all", "C09", "fire", UT, _HCE, _HCE.replace("except ValueError", "except Exception"), rule="HCE.table", what="any failure is reported as 'no extension'")
V("c09-hce-swapped", "C09", "fire", UT, _HCE, _HCE.replace("return True", "return None").replace("return False", "return True").replace("return None", "return False"), rule="HCE.table", what="answers inverted")
V("c09-hce-handler-true", "C09", "fire", UT, _HCE, _HCE.replace("return False", "return True"), rule="HCE.table", what="always True")
V("c09-hce-unguarded", "C09", "fire", UT, _HCE, "    pdag_to_dag(pdag)\n    return True\n", rule="HCE.table", what="raises instead of answering False")
V("c09-rule1-children", "C09", "fire", UT, "    if len(pa(i, A)) > 0 and not pa(i, A) <= adj(j, A):", "    if len(ch(i, A)) > 0 and not ch(i, A) <= adj(j, A):", rule="RULES.rule_1", what="rule 1 looks at children")
V("c09-rule2-reversed", "C09", "fire", UT, "    return len(ch(i, A) & pa(j, A)) > 0", "    return len(pa(i, A) & ch(j, A)) > 0", rule="RULES.rule_2", what="rule 2 orients against the path")
V("c09-meek-one-pass", "C09", "fire", UT, "    oriented_edges = True\n    while oriented_edges:\n        oriented_edges = False\n        for (i, j) in undirected_edges(P):", "    oriented_edges = True\n    if oriented_edges:\n        oriented_edges = False\n        for (i, j) in undirected_edges(P):", rule="ORIENT.fixpoint", what="a single pass")
V("c09-silent-sink-not", "C09", "silent", UT, _SINK, "            sink = not ch(i, P)\n", what="emptiness by truthiness")
V("c09-silent-sink-eq-set", "C09", "silent", UT, _SINK, "            sink = ch(i, P) == set()\n", what="emptiness by comparison with set()")
V("c09-silent-issubset", "C09", "silent", UT, _ADJN, "            adj_neighbors = all([(adj_i - {y}).issubset(adj(y, P)) for y in n_i])\n", what="issubset / builtin all")
V("c09-silent-union-y", "C09", "silent", UT, _ADJN, "            adj_neighbors = np.all([adj_i <= adj(y, P) | {y} for y in n_i])\n", what="y added on the right instead of removed on the left")
V("c09-silent-gen-all", "C09", "silent", UT, _ADJN, "            adj_neighbors = all(adj_i - {y} <= adj(y, P) for y in n_i)\n", what="builtin all of a generator")
V("c09-silent-sorted-domain", "C09", "silent", UT, _ADJN, "            adj_neighbors = np.all([adj_i - {y} <= adj(y, P) for y in sorted(n_i)])\n", what="iteration order of the neighbours")
V("c09-silent-inline", "C09", "silent", UT, "            found = sink and adj_neighbors\n", "            found = adj_neighbors and sink\n", what="conjuncts swapped")
V("c09-silent-difference", "C09", "silent", UT, _ADJN, "            adj_neighbors = np.all([len((adj_i - {y}) - adj(y, P)) == 0 for y in n_i])\n", what="inclusion as an empty difference")
V("c09-silent-hce-else", "C09", "silent", UT, _HCE, "    try:\n        pdag_to_dag(pdag)\n    except ValueError:\n        return False\n    return True\n", what="success returned after the try")
V("c09-silent-hce-else-clause", "C09", "silent", UT, _HCE, "    try:\n        pdag_to_dag(pdag)\n    except ValueError:\n        return False\n    else:\n        return True\n", what="success returned in the else clause")
V("c09-silent-raise-message", "C09", "silent", UT, "            raise ValueError(\"PDAG %s does not admit consistent extension\" % oP)", "            raise ValueError(\"no consistent extension for\\n%s\" % (oP,))", what="message text")

# ------------------------------------------------------------------------------- round 11 inspired (C02: per-node tables prepared by the constructor)
_AN_ND = "        self.noise_distributions = deepcopy(noise_distributions)\n"
_AN_SEL = "                assignment = np.transpose(self.assignments[i](X[:, self.A[:, i] != 0]))\n"
V("c02-parent-table-set-order", "C02", "fire", AN, _AN_ND, _AN_ND + "        self._parents = [list(utils.pa(i, self.A)) for i in range(self.p)]\n",
  more=[(AN, _AN_SEL, "                assignment = np.transpose(self.assignments[i](X[:, self._parents[i]]))\n")], rule="CASES.anm", what="parent columns in set-iteration order (differs from increasing order from node 8 on)")
V("c02-silent-parent-table-sorted", "C02", "silent", AN, _AN_ND, _AN_ND + "        self._parents = [sorted(utils.pa(i, self.A)) for i in range(self.p)]\n",
  more=[(AN, _AN_SEL, "                assignment = np.transpose(self.assignments[i](X[:, self._parents[i]]))\n")], what="parent index lists prepared once, in increasing order")
V("c02-silent-parent-table-flatnonzero", "C02", "silent", AN, _AN_ND, _AN_ND + "        self._parents = [np.flatnonzero(self.A[:, k]) for k in range(len(A))]\n",
  more=[(AN, _AN_SEL, "                assignment = np.transpose(self.assignments[i](X[:, self._parents[i]]))\n")], what="parent index arrays prepared once from the stored matrix")
V("c02-parent-table-rows", "C02", "fire", AN, _AN_ND, _AN_ND + "        self._parents = [np.flatnonzero(self.A[k, :]) for k in range(len(A))]\n",
  more=[(AN, _AN_SEL, "                assignment = np.transpose(self.assignments[i](X[:, self._parents[i]]))\n")], rule="CASES.anm", what="children instead of parents in the prepared table")

# ------------------------------------------------------------------------------- round 11 inspired (C13: a helper that builds the generator by the type of the seed)
_GE_RNG = "    rng = np.random.default_rng(random_state)\n    # Build intervention sizes\n"
_GE_DEF = "def dag_avg_deg(p, k, w_min=1, w_max=1, return_ordering=False, random_state=None, debug=False):"
def _rng_helper(test):
    return ("def _get_rng(random_state):\n    if isinstance(random_state, np.random.Generator):\n        return random_state\n    elif %s:\n        return np.random.default_rng(random_state)\n"
            "    return np.random.default_rng()\n\n\n" % test) + _GE_DEF
for _pid in ("C13", "C12"):
    V("%s-rng-by-type-int-only" % _pid.lower(), _pid, "fire", GE, _GE_RNG, "    rng = _get_rng(random_state)\n    # Build intervention sizes\n", more=[(GE, _GE_DEF, _rng_helper("isinstance(random_state, int)"))],
      rule="R1.generator", what="numpy integer seeds (np.int64(3), elements of np.arange) fall through to an unseeded generator")
    V("%s-silent-rng-by-type-integers" % _pid.lower(), _pid, "silent" if _pid == "C13" else "undecided", GE, _GE_RNG, "    rng = _get_rng(random_state)\n    # Build intervention sizes\n", more=[(GE, _GE_DEF, _rng_helper("isinstance(random_state, (int, np.integer))"))],
      what="Python and numpy integers are both seeds")
    V("%s-silent-rng-by-none" % _pid.lower(), _pid, "silent" if _pid == "C13" else "undecided", GE, _GE_RNG, "    rng = _get_rng(random_state)\n    # Build intervention sizes\n", more=[(GE, _GE_DEF, _rng_helper("random_state is not None"))],
      what="anything but None is a seed")

# ------------------------------------------------------------------------------- round 11 inspired (C09 / C10: the pass flag of maximally_orient)
_MO_OLD = """            if rule_1(i, j, P) or rule_2(i, j, P) or rule_3(i, j, P) or rule_4(i, j, P):
                # orient i -> j
                oriented_edges = True
                if debug:
                    rules = [rule_1(i, j, P), rule_2(i, j, P), rule_3(i, j, P), rule_4(i, j, P)]
                    print('Rules: %s => Oriented %d -> %d' % (rules, i, j))
                P[j, i] = 0
            elif rule_1(j, i, P) or rule_2(j, i, P) or rule_3(j, i, P) or rule_4(j, i, P):
                oriented_edges = True
                # orient j -> i
"""
def _mo_new(flag):
    return """            forward = rule_1(i, j, P) or rule_2(i, j, P) or rule_3(i, j, P) or rule_4(i, j, P)
            backward = not forward and (rule_1(j, i, P) or rule_2(j, i, P) or rule_3(j, i, P) or rule_4(j, i, P))
            oriented_edges = %s
            if forward:
                # orient i -> j
                if debug:
                    rules = [rule_1(i, j, P), rule_2(i, j, P), rule_3(i, j, P), rule_4(i, j, P)]
                    print('Rules: %%s => Oriented %%d -> %%d' %% (rules, i, j))
                P[j, i] = 0
            elif backward:
                # orient j -> i
""" % flag
for _pid in ("C09", "C10"):
    V("%s-meek-flag-per-edge" % _pid.lower(), _pid, "fire", UT, _MO_OLD, _mo_new("forward or backward"), rule="ORIENT.flag", what="the flag only remembers the last edge of a pass: the loop stops early")
    V("%s-silent-meek-flag-accumulated" % _pid.lower(), _pid, "silent", UT, _MO_OLD, _mo_new("oriented_edges or forward or backward"), what="same restructuring with the flag accumulated over the pass")

# ------------------------------------------------------------------------------- round 10 / 11 inspired (C20: reductions of an empty draw)
_NO_UNI = "    return lambda n: np.random.uniform(lo, hi, n)"
V("c20-uniform-max-of-empty", "C20", "fire", NO, _NO_UNI, "    def draw(n):\n        x = np.random.uniform(lo, hi, n)\n        if x.max() >= hi:\n            x[x >= hi] = np.nextafter(hi, lo)\n        return x\n    return draw",
  rule="SIZE.accepts", what="x.max() of an empty array raises: n = 0 is no longer served")
V("c20-uniform-max-guarded", "C20", "undecided", NO, _NO_UNI, "    def draw(n):\n        x = np.random.uniform(lo, hi, n)\n        if n > 0 and x.max() >= hi:\n            x[x >= hi] = np.nextafter(hi, lo)\n        return x\n    return draw",
  what="the same clamp behind a size test: harmless (whether the clamp keeps the law is not read)")

# ------------------------------------------------------------------------------- round 11 inspired (C09 / C10: rule_4 as a loop over k)
_R4_OLD = """    Ks = pa_j & n_i
    if len(Ks) > 0:
        Hs = n_i & set(reduce(lambda acc, k: acc | pa(k, A), Ks, set()))
        if len(Hs) > 0:
            # Check that h and j are not adjacent
            adj_j = adj(j, A)
            for h in Hs:
                if h not in adj_j:
                    return True
    return False
"""
for _pid in ("C09", "C10"):
    V("%s-rule4-first-k-decides" % _pid.lower(), _pid, "fire", UT, _R4_OLD, "    adj_j = adj(j, A)\n    for k in pa_j & n_i:\n        Hs = n_i & pa(k, A)\n        if len(Hs) > 0:\n            return not Hs <= adj_j\n    return False\n",
      rule="RULES.rule_4", what="the first k with any candidate h answers for all k")
    V("%s-rule4-loop-over-k" % _pid.lower(), _pid, "undecided", UT, _R4_OLD, "    adj_j = adj(j, A)\n    for k in pa_j & n_i:\n        Hs = n_i & pa(k, A)\n        if not Hs <= adj_j:\n            return True\n    return False\n",
      what="the same rule as a loop over k with a set test per k: correct, another form")

# ------------------------------------------------------------------------------- round 11 inspired (C07 / C10: the reference chain is shared)
for _pid in ("C07", "C10"):
    V("%s-chain-reference-memoised" % _pid.lower(), _pid, "fire", UT, "from functools import reduce\n", "from functools import reduce, lru_cache\n", more=[(UT, "def chain_graph(p):", "@lru_cache(maxsize=None)\ndef chain_graph(p):")],
      rule="CHAIN.test.reference", what="a caller that edits chain_graph(p)'s result edits the reference is_chain_graph compares with")

# ------------------------------------------------------------------------------- round 11 inspired (C03: two harmless-looking edits that together accept self-loops)
_K_PRE = "    if only_undirected(A).sum() > 0:\n        raise ValueError(\"The given graph is not a DAG\")"
_K_PRE2 = "    if len(undirected_edges(A)) > 0:\n        raise ValueError(\"The given graph is not a DAG\")"
_K_LOOP = "        for j in ch(i, A):\n            A[i, j] = 0\n            if len(pa(j, A)) == 0:\n                sinks.append(j)\n"
_K_LOOP2 = "        children = ch(i, A)\n        A[i, :] = 0\n        sinks += [j for j in children if len(pa(j, A)) == 0]\n"
V("c03-row-clear-erases-self-loops", "C03", "fire", UT, _K_PRE, _K_PRE2, more=[(UT, _K_LOOP, _K_LOOP2)], rule="CYCLES.self-loop", what="pre-check skips the diagonal and the loop clears whole rows: a self-loop below another parent is accepted")
V("c03-row-clear-alone", "C03", "undecided", UT, _K_LOOP, _K_LOOP2, what="whole-row clear with the full pre-check: self-loops are rejected before the loop")
V("c03-silent-precheck-edges-alone", "C03", "silent", UT, _K_PRE, _K_PRE2, what="pre-check skips the diagonal, but the loop never clears a diagonal entry: the leftover test sees it")
V("c02-silent-parent-table-int-array", "C02", "silent", AN, _AN_ND, _AN_ND + "        self._parents = [np.array(sorted(utils.pa(i, self.A)), dtype=int) for i in range(self.p)]\n",
  more=[(AN, _AN_SEL, "                assignment = np.transpose(self.assignments[i](X[:, self._parents[i]]))\n")], what="sorted parent lists as integer index arrays (false alarm met on refactoring C02-T2-1 after the tables were read)")
V("c02-parent-table-float-array", "C02", "fire", AN, _AN_ND, _AN_ND + "        self._parents = [np.array(sorted(utils.pa(i, self.A))) for i in range(self.p)]\n",
  more=[(AN, _AN_SEL, "                assignment = np.transpose(self.assignments[i](X[:, self._parents[i]]))\n")], rule="CASES.anm", what="np.array([]) of a node without parents is a float array: IndexError for every source node")

# ------------------------------------------------------------------------------- refactoring round 7 inspired (C09: the scan written as for / else)
_SCAN_OLD = '        found = False\n        i = 0\n        while not found and i < len(P):\n            # Check condition 1\n            sink = len(ch(i, P)) == 0\n            # Check condition 2\n            n_i = neighbors(i, P)\n            adj_i = adj(i, P)\n            adj_neighbors = np.all([adj_i - {y} <= adj(y, P) for y in n_i])\n            print("   i:", i, ": n=", n_i, "adj=", adj_i, "ch=", ch(i, P)) if debug else None\n            found = sink and adj_neighbors\n            # If found, orient all incident undirected edges and\n            # remove i from the subgraph\n            if found:\n                print("  Found candidate %d (%d)" % (i, indexes[i])) if debug else None\n                # Orient all incident undirected edges\n                real_i = indexes[i]\n                real_neighbors = [indexes[j] for j in n_i]\n                for j in real_neighbors:\n                    G[j, real_i] = 1\n                # Remove i and its incident (directed and undirected edges)\n                all_but_i = list(set(range(len(P))) - {i})\n                P = P[all_but_i, :][:, all_but_i]\n                indexes.remove(real_i)  # to keep track of the real\n                # variable indices\n            else:\n                i += 1\n        # A node which satisfies conditions 1,2 exists iff the\n        # PDAG admits a consistent extension\n        if not found:\n            raise ValueError("PDAG %s does not admit consistent extension" % oP)\n'
_SCAN_FOR = '        for i in range(len(P)):\n            # Check condition 1\n            sink = len(ch(i, P)) == 0\n            # Check condition 2\n            n_i = neighbors(i, P)\n            adj_i = adj(i, P)\n            adj_neighbors = np.all([adj_i - {y} <= adj(y, P) for y in n_i])\n            print("   i:", i, ": n=", n_i, "adj=", adj_i, "ch=", ch(i, P)) if debug else None\n            found = sink and adj_neighbors\n            # If found, orient all incident undirected edges and\n            # remove i from the subgraph\n            if found:\n                print("  Found candidate %d (%d)" % (i, indexes[i])) if debug else None\n                # Orient all incident undirected edges\n                real_i = indexes[i]\n                real_neighbors = [indexes[j] for j in n_i]\n                for j in real_neighbors:\n                    G[j, real_i] = 1\n                # Remove i and its incident (directed and undirected edges)\n                all_but_i = list(set(range(len(P))) - {i})\n                P = P[all_but_i, :][:, all_but_i]\n                indexes.remove(real_i)  # to keep track of the real\n                # variable indices\n                break\n        else:\n            # A node which satisfies conditions 1,2 exists iff the\n            # PDAG admits a consistent extension\n            raise ValueError("PDAG %s does not admit consistent extension" % oP)\n'
V("c09-silent-scan-for-else", "C09", "silent", UT, _SCAN_OLD, _SCAN_FOR, what="scan as `for i in range(len(P)): ... break` with the ValueError in the else suite")
V("c08-silent-scan-for-else", "C08", "silent", UT, _SCAN_OLD, _SCAN_FOR, what="scan as `for i in range(len(P)): ... break` with the ValueError in the else suite")
V("c09-for-else-neighbours-only", "C09", "fire", UT, _SCAN_OLD, _SCAN_FOR.replace("adj_i - {y} <= adj(y, P)", "n_i - {y} <= adj(y, P)"), rule="SINK.neighbours", what="for / else form with the weakened condition 2")
V("c09-for-else-parents", "C09", "fire", UT, _SCAN_OLD, _SCAN_FOR.replace("sink = len(ch(i, P)) == 0", "sink = len(pa(i, P)) == 0"), rule="SINK.childless", what="for / else form removing sources")
V("c09-for-else-from-one", "C09", "fire", UT, _SCAN_OLD, _SCAN_FOR.replace("for i in range(len(P)):", "for i in range(1, len(P)):"), rule="SCAN.complete", what="for / else form skipping node 0")
V("c09-for-else-or", "C09", "fire", UT, _SCAN_OLD, _SCAN_FOR.replace("found = sink and adj_neighbors", "found = sink or adj_neighbors"), rule="SINK.both", what="for / else form with either condition")

# ------------------------------------------------------------------------------- refactoring round 7: three false alarms of INDEX.* (C08 / C09) on correct re-spellings
_ORI = "                real_neighbors = [indexes[j] for j in n_i]\n                for j in real_neighbors:\n                    G[j, real_i] = 1\n"
_ABI = "                all_but_i = list(set(range(len(P))) - {i})\n"
for _pid in ("C08", "C09"):
    V("%s-silent-orient-inline" % _pid.lower(), _pid, "silent", UT, _ORI, "                for j in n_i:\n                    G[indexes[j], real_i] = 1\n", what="real names looked up at the store")
    V("%s-silent-all-but-comprehension" % _pid.lower(), _pid, "silent", UT, _ABI, "                all_but_i = [j for j in range(len(P)) if j != i]\n", what="the remaining indices as a comprehension")
    V("%s-orient-inline-local" % _pid.lower(), _pid, "fire", UT, _ORI, "                for j in n_i:\n                    G[j, real_i] = 1\n", rule="INDEX.real-names", what="inlined without the name lookup")
    V("%s-deferred-orientation" % _pid.lower(), _pid, "undecided", UT, "    G = only_directed(P)\n    indexes = list(range(len(P)))", "    G = only_directed(P)\n    oriented = []\n    indexes = list(range(len(P)))",
      more=[(UT, _ORI, "                oriented += [(indexes[j], indexes[i]) for j in n_i]\n"), (UT, "            raise ValueError(\"PDAG %s does not admit consistent extension\" % oP)\n    return G", "            raise ValueError(\"PDAG %s does not admit consistent extension\" % oP)\n    for (tail, head) in oriented:\n        G[tail, head] = 1\n    return G")],
      what="orientations collected during the search and written afterwards: another form")

# ------------------------------------------------------------------------------- round 12 inspired (C11: relabelling drawn with replacement)
V("c11-relabel-with-replacement", "C11", "fire", GE, "    permutation = rng.permutation(p)\n    # Note the actual topological ordering is the \"conjugate\" of permutation eg. [3,1,2] -> [2,3,1]\n    print(", "    permutation = rng.choice(p, size=p)\n    # Note the actual topological ordering is the \"conjugate\" of permutation eg. [3,1,2] -> [2,3,1]\n    print(", rule="PERM.random", what="labels drawn with replacement")
V("c11-relabel-choice-without-replacement", "C11", "undecided", GE, "    permutation = rng.permutation(p)\n    # Note the actual topological ordering is the \"conjugate\" of permutation eg. [3,1,2] -> [2,3,1]\n    print(", "    permutation = rng.choice(p, size=p, replace=False)\n    # Note the actual topological ordering is the \"conjugate\" of permutation eg. [3,1,2] -> [2,3,1]\n    print(", what="a permutation drawn through choice(replace=False): another form")

# ------------------------------------------------------------------------------- round 12 inspired (C09 / C10: one orienting branch does not raise the pass flag) - silent on first contact
for _pid in ("C09", "C10"):
    V("%s-meek-flag-missing-in-branch" % _pid.lower(), _pid, "fire", UT, "            elif rule_1(j, i, P) or rule_2(j, i, P) or rule_3(j, i, P) or rule_4(j, i, P):\n                oriented_edges = True\n",
      "            elif rule_1(j, i, P) or rule_2(j, i, P) or rule_3(j, i, P) or rule_4(j, i, P):\n", rule="ORIENT.flag", what="a pass that only orients j -> i edges ends the loop")
    V("%s-silent-meek-flag-after-branches" % _pid.lower(), _pid, "undecided", UT, "            elif rule_1(j, i, P) or rule_2(j, i, P) or rule_3(j, i, P) or rule_4(j, i, P):\n                oriented_edges = True\n",
      "            elif rule_1(j, i, P) or rule_2(j, i, P) or rule_3(j, i, P) or rule_4(j, i, P):\n                oriented_edges = oriented_edges or True\n", what="flag raised by an or-update")

# ------------------------------------------------------------------------------- round 12 inspired (C20 / C04: factories rewritten as location-scale transforms of a standard draw)
_LS_HELP = "def _loc_scale(standard, loc, scale):\n    return lambda n: loc + scale * standard(n)\n\n\ndef normal(mean=0, var=1):"
def _ls(unif="hi - lo", sd="var**0.5", lap="scale"):
    return [(NO, "def normal(mean=0, var=1):", _LS_HELP),
            (NO, "    return lambda n: np.random.normal(mean, var**0.5, n)", "    return _loc_scale(np.random.standard_normal, mean, %s)" % sd),
            (NO, "    return lambda n: np.random.uniform(lo, hi, n)", "    return _loc_scale(np.random.random_sample, lo, %s)" % unif),
            (NO, "    return lambda n: np.random.laplace(mean, scale, n)", "    return _loc_scale(lambda n: np.random.laplace(size=n), mean, %s)" % lap)]
def VL(id, prop, expect, edits, **kw):
    VARIANTS.append(dict(id=id, prop=prop, expect=expect, edits=edits, **kw))
VL("c20-silent-location-scale", "C20", "silent", _ls(), rule=None, what="all three laws as loc + scale * standard draw, parameters right")
VL("c04-silent-location-scale", "C04", "silent", _ls(), rule=None, what="noise.normal as mean + var**0.5 * standard_normal(n)")
VL("c20-location-scale-uniform-hi", "C20", "fire", _ls(unif="hi"), rule="LAW.uniform", what="uniform(lo, hi) lies in [lo, lo + hi)")
VL("c20-location-scale-normal-var", "C20", "fire", _ls(sd="var"), rule="LAW.normal", what="variance used as standard deviation")
VL("c04-location-scale-normal-var", "C04", "fire", _ls(sd="var"), rule="UNIT.noise-normal", what="variance used as standard deviation")
VL("c20-location-scale-laplace-sqrt", "C20", "fire", _ls(lap="scale**0.5"), rule="LAW.laplace", what="square root of the scale")

# ------------------------------------------------------------------------------- rounds 11 / 12 inspired (C11: a memoised mask written in place)
_GF_OLD = "    A = np.triu(np.ones((p, p)), k=1)\n    weights = rng.uniform(w_min, w_max, size=A.shape)\n    W = A * weights\n"
V("c11-memoised-mask-written", "C11", "fire", GE, "import numpy as np\n", "import numpy as np\nfrom functools import lru_cache\n\n\n@lru_cache(maxsize=None)\ndef _full_adjacency(p):\n    return np.triu(np.ones((p, p)), k=1)\n",
  more=[(GE, _GF_OLD, "    W = _full_adjacency(p)\n    W *= rng.uniform(w_min, w_max, size=W.shape)\n")], rule="FRESH", what="the cached mask is multiplied in place: the second graph of a size carries the first one's weights")
V("c11-memoised-mask-read-only", "C11", "undecided", GE, "import numpy as np\n", "import numpy as np\nfrom functools import lru_cache\n\n\n@lru_cache(maxsize=None)\ndef _full_adjacency(p):\n    return np.triu(np.ones((p, p)), k=1)\n",
  more=[(GE, _GF_OLD, "    A = _full_adjacency(p)\n    weights = rng.uniform(w_min, w_max, size=A.shape)\n    W = A * weights\n")], what="the cached mask is only read")

# ------------------------------------------------------------------------------- found by an operator-mutation sweep over the C09 functions (tools/mutation_sweep.py): silent or undecided before
V("c09-outer-loop-never-ends", "C09", "fire", UT, "    while P.size > 0:\n", "    while P.size >= 0:\n", rule="LOOP.until-empty", what="with nothing left the scan fails: every input raises ValueError")
V("c09-silent-outer-loop-one-left", "C09", "silent", UT, "    while P.size > 0:\n", "    while len(P) > 1:\n", what="stopping with one node left: nothing to orient")
V("c09-scan-flag-starts-true", "C09", "fire", UT, "        found = False\n        i = 0\n", "        found = True\n        i = 0\n", rule="SCAN.complete", what="the scan never runs, nothing is removed: the search hangs")
V("c09-raise-when-found", "C09", "fire", UT, "        if not found:\n            raise ValueError(\"PDAG", "        if found:\n            raise ValueError(\"PDAG", rule="RAISE.iff", what="polarity of the flag")
V("c09-sink-exactly-one-child", "C09", "fire", UT, _SINK, "            sink = len(ch(i, P)) == 1\n", rule="SINK.childless", what="cardinality: decided in counting worlds")
for _pid in ("C09", "C10"):
    V("%s-meek-flag-starts-false" % _pid.lower(), _pid, "fire", UT, "    oriented_edges = True\n    while oriented_edges:", "    oriented_edges = False\n    while oriented_edges:", rule="ORIENT.fixpoint", what="no pass is ever made")
    V("%s-meek-guard-conjunction" % _pid.lower(), _pid, "fire", UT, "            if rule_1(i, j, P) or rule_2(i, j, P) or rule_3(i, j, P) or rule_4(i, j, P):", "            if rule_1(i, j, P) and rule_2(i, j, P) or rule_3(i, j, P) or rule_4(i, j, P):", rule="ORIENT.meek", what="rules 1 and 2 must both hold")
    V("%s-rule4-two-ks" % _pid.lower(), _pid, "undecided", UT, "    if len(Ks) > 0:\n", "    if len(Ks) > 1:\n", what="rule 4 needs two common parents: a real defect, no longer accepted as a harmless guard (was silent); not decided")
    V("%s-rule1-two-parents" % _pid.lower(), _pid, "fire", UT, "    if len(pa(i, A)) > 0 and not pa(i, A) <= adj(j, A):", "    if len(pa(i, A)) > 1 and not pa(i, A) <= adj(j, A):", rule="RULES.rule_1", what="cardinality: decided in counting worlds")
    V("%s-silent-rule1-vacuous-guard" % _pid.lower(), _pid, "silent", UT, "    if len(pa(i, A)) > 0 and not pa(i, A) <= adj(j, A):", "    if len(pa(i, A)) >= 0 and not pa(i, A) <= adj(j, A):", what="a guard that always holds")

# ------------------------------------------------------------------------------- round 12 inspired (C08 / C09: isolated nodes dropped before the search; two agents wrote it independently)
_DROP = "    G = only_directed(P)\n    indexes = list(range(len(P)))"
for _pid in ("C08", "C09"):
    V("%s-names-from-reduced-matrix" % _pid.lower(), _pid, "fire", UT, _DROP, "    G = only_directed(P)\n    connected = [i for i in range(len(P)) if len(adj(i, P)) > 0]\n    P = P[connected, :][:, connected]\n    indexes = list(range(len(P)))",
      rule="INDEX.init", what="names are positions in the reduced matrix: shifted after every dropped node")
    V("%s-names-of-kept-nodes" % _pid.lower(), _pid, "undecided", UT, _DROP, "    G = only_directed(P)\n    connected = [i for i in range(len(P)) if len(adj(i, P)) > 0]\n    P = P[connected, :][:, connected]\n    indexes = list(connected)",
      what="the kept nodes' own names: correct, another form")

# ------------------------------------------------------------------------------- mutation sweep (C19: inverted guards of the documented contract passed - the suite cannot import semi.py, so nothing else would notice)
V("c19-graph-type-guard-inverted", "C19", "fire", SE, "        if not isinstance(graph, np.ndarray):\n            raise TypeError(_GRAPH_TYPE_ERROR)", "        if isinstance(graph, np.ndarray):\n            raise TypeError(_GRAPH_TYPE_ERROR)", rule="CONTRACT.graph-not-ndarray", what="every array graph is rejected")
V("c19-data-type-guard-inverted", "C19", "fire", SE, "        if not isinstance(data, list):\n            raise TypeError(_DATA_TYPE_ERROR)", "        if isinstance(data, list):\n            raise TypeError(_DATA_TYPE_ERROR)", rule="CONTRACT.data-not-a-list", what="every list of samples is rejected")
V("c19-n-length-guard-inverted", "C19", "fire", SE, "            if len(n) != self.e:\n                raise ValueError(_N_TYPE_ERROR)", "            if len(n) == self.e:\n                raise ValueError(_N_TYPE_ERROR)", rule="CONTRACT.n-list-wrong-length", what="a list n of the right length is rejected, any other accepted")
V("c19-sample-ndim-guard-inverted", "C19", "fire", SE, "                elif sample.ndim != 2:\n                    raise ValueError(_DATA_TYPE_ERROR)", "                elif sample.ndim == 2:\n                    raise ValueError(_DATA_TYPE_ERROR)", rule="CONTRACT.sample-not-2d", what="two-dimensional samples rejected")

# ------------------------------------------------------------------------------- round 13 inspired (C16: the integer buffer spelled np.zeros(G.shape, dtype=int))
V("c16-induced-int-buffer-shape", "C16", "fire", UT, "    subgraph = np.zeros_like(G)\n", "    subgraph = np.zeros(G.shape, dtype=int)\n", rule="DTYPE.narrow-target", what="real weights truncated in the induced subgraph")
V("c16-induced-float-buffer-shape", "C16", "undecided", UT, "    subgraph = np.zeros_like(G)\n", "    subgraph = np.zeros(G.shape, dtype=G.dtype)\n", what="same dtype as the input: correct")

# ------------------------------------------------------------------------------- refactoring round 8: three false alarms in C08's rules on correct edits of label_edges / dag_to_cpdag
for _pid in ("C08", "C07", "C10"):
    V("%s-silent-label-constants-unpacked" % _pid.lower(), _pid, "silent", UT, "    COM, REV, UNK = 1, -1, -2\n", "    COM, REV, UNK = _COMPELLED, _REVERSIBLE, _UNKNOWN\n",
      more=[(UT, "def label_edges(ordered):", "_COMPELLED, _REVERSIBLE, _UNKNOWN = 1, -1, -2\n\n\ndef label_edges(ordered):")], what="label constants named at module level by one tuple assignment")
    V("%s-silent-reversible-vectorised" % _pid.lower(), _pid, "silent", UT, "    for (x, y) in zip(fros, tos):\n        cpdag[x, y], cpdag[y, x] = 1, 1\n", "    cpdag[fros, tos] = 1\n    cpdag[tos, fros] = 1\n", what="reversible edges set in both directions by two index stores")
    V("%s-silent-select-where" % _pid.lower(), _pid, "silent", UT, "        unknown_edges = (ordered * (labelled == UNK).astype(int)).astype(float)\n        unknown_edges[unknown_edges == 0] = -np.inf\n",
      "        unknown_edges = np.where(labelled == UNK, ordered, 0)\n", what="the largest order number among the unknown edges without the float / -inf round trip")
V("c08-reversible-one-direction-vectorised", "C08", "fire", UT, "    for (x, y) in zip(fros, tos):\n        cpdag[x, y], cpdag[y, x] = 1, 1\n", "    cpdag[fros, tos] = 1\n    cpdag[fros, tos] = 1\n", rule="LABELS.assembly", what="the same direction written twice")
V("c08-select-where-known", "C08", "fire", UT, "        unknown_edges = (ordered * (labelled == UNK).astype(int)).astype(float)\n        unknown_edges[unknown_edges == 0] = -np.inf\n",
  "        unknown_edges = np.where(labelled != UNK, ordered, 0)\n", rule="STEP.select", what="selects among the already labelled edges")

# ------------------------------------------------------------------------------- refactoring round 8: bookkeeping of pdag_to_dag moved out of the scan loop (two false alarms of INDEX.* on first contact)
_SCAN_MOVED = '        found = False\n        i = 0\n        while not found and i < len(P):\n            # Check condition 1\n            sink = len(ch(i, P)) == 0\n            # Check condition 2\n            n_i = neighbors(i, P)\n            adj_i = adj(i, P)\n            adj_neighbors = np.all([adj_i - {y} <= adj(y, P) for y in n_i])\n            found = sink and adj_neighbors\n            if not found:\n                i += 1\n        if not found:\n            raise ValueError("PDAG %s does not admit consistent extension" % oP)\n        real_i = indexes[i]\n        real_neighbors = [indexes[j] for j in n_i]\n        for j in real_neighbors:\n            G[j, real_i] = 1\n        all_but_i = list(set(range(len(P))) - {i})\n        P = P[all_but_i, :][:, all_but_i]\n        indexes.remove(real_i)\n'
for _pid in ("C08", "C09"):
    V("%s-bookkeeping-after-scan" % _pid.lower(), _pid, "undecided", UT, _SCAN_OLD, _SCAN_MOVED, what="the accepted node is processed after the scan loop (code motion): another form")
VL("c20-location-scale-abs-sd", "C20", "undecided", _ls(sd="abs(var**0.5)"), rule=None, what="abs of the standard deviation: the same law; an opaque atom for the polynomial form (was reported by C04 for a wrong reason on seed C20-r5-2)")
VL("c04-location-scale-abs-sd", "C04", "undecided", _ls(sd="abs(var**0.5)"), rule=None, what="abs of the standard deviation: the same law")
