"""Zero/sign domain for matrix entries and the admissible (A[i,j], A[j,i]) pairs (DESIGN.md 3.5).

Entries: Z (0), P (positive), N (negative), ONE (exactly 1), T (unknown).
Admissible pairs = the input domain of the graph properties: binary PDAGs (directed or
undirected 0/1 edges) and DAG weight matrices of any sign (directed edges only).
"""
Z, P, N, ONE, T = "Z", "P", "N", "ONE", "T"

PAIRS = [(Z, Z), (P, Z), (N, Z), (Z, P), (Z, N), (ONE, Z), (Z, ONE), (ONE, ONE)]


def nonzero(s):
    """-> True / False / None"""
    if s == Z:
        return False
    if s in (P, N, ONE):
        return True
    return None


def pos(s):
    return P if s == ONE else s


def add(x, y):
    if x == Z:
        return y
    if y == Z:
        return x
    x, y = pos(x), pos(y)
    if x == y and x in (P, N):
        return x
    return T


def neg(x):
    x = pos(x)
    return {Z: Z, P: N, N: P}.get(x, T)


def sub(x, y):
    return add(x, neg(y))


def mul(x, y):
    if x == Z or y == Z:
        return Z
    if x == ONE:
        return y
    if y == ONE:
        return x
    x, y = pos(x), pos(y)
    if T in (x, y):
        return T
    return P if x == y else N


def smax(x, y):
    if T in (x, y):
        return T
    if x == ONE and y == ONE:
        return ONE
    px, py = pos(x), pos(y)
    if P in (px, py):
        if (x == ONE and py in (Z, N)) or (y == ONE and px in (Z, N)):
            return ONE
        return P
    if Z in (px, py):
        return Z
    return N


def smin(x, y):
    if T in (x, y):
        return T
    if ONE in (x, y):
        return _smin_one(x, y)
    return neg(smax(neg(x), neg(y)))


def _smin_one(x, y):
    px, py = pos(x), pos(y)
    if N in (px, py):
        return N
    if Z in (px, py):
        return Z
    if x == ONE and y == ONE:
        return ONE
    return P          # min(1, positive) is positive


def ev_tree(t, a, b):
    """evaluate an elementwise expression tree over the pair (a, b).
    tree: 'a' | 'b' | ('c', sign) | ('+', l, r) | ('-', l, r) | ('*', l, r) | ('neg', x) | ('abs', x)"""
    if t == "a":
        return a
    if t == "b":
        return b
    op = t[0]
    if op == "c":
        return t[1]
    if op == "neg":
        return neg(ev_tree(t[1], a, b))
    if op == "abs":
        x = pos(ev_tree(t[1], a, b))
        return P if x == N else x
    l, r = ev_tree(t[1], a, b), ev_tree(t[2], a, b)
    if op == "+":
        return add(l, r)
    if op == "-":
        return sub(l, r)
    if op == "*":
        return mul(l, r)
    return T


def swap(t):
    if t == "a":
        return "b"
    if t == "b":
        return "a"
    if t[0] == "c":
        return t
    if t[0] in ("neg", "abs"):
        return (t[0], swap(t[1]))
    return (t[0], swap(t[1]), swap(t[2]))


def const_sign(c):
    if isinstance(c, bool):
        return ONE if c else Z
    if isinstance(c, (int, float)):
        if c == 0:
            return Z
        if c == 1:
            return ONE
        return P if c > 0 else N
    return T


# every sign combination of (A[i,j], A[j,i]): the input domain of the functions that *decide* acyclicity - an arbitrary weighted
# graph, two-cycles with cancelling weights included (C03)
ALL_PAIRS = [(x, y) for x in (Z, P, N, ONE) for y in (Z, P, N, ONE)]


def pattern_only(tree, pairs=None):
    """is `tree != 0` decided by the zero pattern on every admissible pair?  -> (bool, witness pair)"""
    for a, b in (pairs or PAIRS):
        if nonzero(ev_tree(tree, a, b)) is None:
            return False, (a, b)
    return True, None
