"""Decision procedure for predicates over finite sets built from a few set-valued atoms (e.g. pa(i), adj(j)):
&, |, -, emptiness / subset / disjointness tests and boolean connectives.  Two such predicates are equal iff they agree
in every *world* = choice of which Venn regions of the atoms are inhabited (2^(2^n - 1) worlds for n atoms; n <= 3 here).
Exhaustive, static, exact (cardinalities beyond 'empty / non-empty' are outside the fragment -> Inconclusive)."""
import itertools

from .loader import Inconclusive
from .sym import is_const, fmt

EMPTY = (("ext", "set", (), ()), ("set", ()), ("list", ()), ("tuple", ()))


class SetAlg:
    def __init__(self, atoms, max_atoms=3, feasible=None):
        """feasible: optional predicate on a region (tuple of memberships); regions that cannot hold an element (e.g. "a neighbour that is not
        adjacent") are left out, so two predicates are compared only in worlds that can occur"""
        self.atoms = list(atoms)
        n = len(self.atoms)
        if n > max_atoms:
            raise Inconclusive("more than %d set atoms" % max_atoms)
        # a region = tuple of booleans (membership in each atom), not all False
        self.regions = [r for r in itertools.product([False, True], repeat=n) if any(r) and (feasible is None or feasible(r))]

    @property
    def counting(self):
        """with few regions a world says how many elements a region holds (0, 1, 2 = two or more), so `len(S) > 1`, `len(S) == 1` are decided too"""
        return len(self.regions) <= 7

    def worlds(self):
        for bits in itertools.product([0, 1, 2] if self.counting else [False, True], repeat=len(self.regions)):
            yield dict(zip(self.regions, bits))

    def card(self, t, w):
        """number of elements of the set expression, capped at 2 (counting worlds only)"""
        return min(2, sum(int(w[r]) for r in self.sets(t)))

    def sets(self, t):
        """-> frozenset of regions covered by the set expression t"""
        if t in self.atoms:
            k = self.atoms.index(t)
            return frozenset(r for r in self.regions if r[k])
        if t in EMPTY:
            return frozenset()
        if isinstance(t, tuple) and t and t[0] == "binop" and t[1] in ("&", "|", "-"):
            a, b = self.sets(t[2]), self.sets(t[3])
            return a & b if t[1] == "&" else a | b if t[1] == "|" else a - b
        if isinstance(t, tuple) and t and t[0] == "method" and t[2] in ("intersection", "union", "difference") and len(t[3]) == 1:
            a, b = self.sets(t[1]), self.sets(t[3][0])
            return a & b if t[2] == "intersection" else a | b if t[2] == "union" else a - b
        if isinstance(t, tuple) and t and t[0] == "ext" and t[1] in ("set", "frozenset", "list", "sorted") and len(t[2]) == 1:
            return self.sets(t[2][0])
        raise Inconclusive("set expression outside the fragment: %s" % fmt(t)[:60])

    def nonempty(self, t, w):
        return any(w[r] for r in self.sets(t))

    def truth(self, t, w):
        if not isinstance(t, tuple):
            raise Inconclusive("predicate %r" % (t,))
        k = t[0]
        if k == "const" and isinstance(t[1], bool):
            return t[1]
        if k == "unop" and t[1] == "not":
            return not self.truth(t[2], w)
        if k == "unop" and t[1] == "truth":
            return self.truth(t[2], w)
        if k == "bool":
            vs = [self.truth(x, w) for x in t[2]]
            return all(vs) if t[1] == "and" else any(vs)
        if k == "ext" and t[1] == "len" and len(t[2]) == 1:
            return self.nonempty(t[2][0], w)            # truthiness of a length
        if k == "ext" and t[1] == "bool" and len(t[2]) == 1:
            return self.truth(t[2][0], w)
        if k == "cmp":
            op, l, r = t[1], t[2], t[3]
            if l[0] == "ext" and l[1] == "len" and is_const(r) and isinstance(r[1], int):
                s_ = l[2][0]
                c = r[1]
                ne = self.nonempty(s_, w)
                table = {(">", 0): ne, ("!=", 0): ne, (">=", 1): ne, ("==", 0): not ne, ("<=", 0): not ne, ("<", 1): not ne, (">=", 0): True, ("<", 0): False}
                if (op, c) in table:
                    return table[(op, c)]
                if self.counting and 0 <= c <= 2:
                    k_ = self.card(s_, w)          # 0, 1, 2 (= two or more)
                    exact = {(">", 1): k_ == 2, (">=", 2): k_ == 2, ("<", 2): k_ < 2, ("<=", 1): k_ < 2, ("==", 1): k_ == 1, ("!=", 1): k_ != 1}
                    if (op, c) in exact:
                        return exact[(op, c)]
                raise Inconclusive("cardinality test `len(.) %s %s` is beyond empty / non-empty" % (op, c))
            if op in ("<=", ">=", "<", ">", "==", "!="):
                a, b = self.sets(l), self.sets(r)
                sub = not any(w[x] for x in a - b)
                sup = not any(w[x] for x in b - a)
                return {"<=": sub, ">=": sup, "==": sub and sup, "!=": not (sub and sup), "<": sub and not sup, ">": sup and not sub}[op]
        if k == "method" and t[2] in ("isdisjoint", "issubset", "issuperset") and len(t[3]) == 1:
            a, b = self.sets(t[1]), self.sets(t[3][0])
            if t[2] == "isdisjoint":
                return not any(w[x] for x in a & b)
            if t[2] == "issubset":
                return not any(w[x] for x in a - b)
            return not any(w[x] for x in b - a)
        # a set used as a condition: non-empty
        return self.nonempty(t, w)

    def equal(self, code, spec, admissible=None):
        """-> (True, None) | (False, witness description); admissible: optional predicate on worlds (e.g. "the singleton {y} is inhabited")"""
        for w in self.worlds():
            if admissible is not None and not admissible(w):
                continue
            a, b = code(w), spec(w)
            if a != b:
                desc = []
                for r, inhabited in w.items():
                    name = " ∩ ".join(("" if m else "not ") + fmt(at)[:24] for at, m in zip(self.atoms, r))
                    desc.append("%s: %s" % (name, "non-empty" if inhabited else "empty"))
                return False, "code says %s, definition says %s when {%s}" % (a, b, "; ".join(desc))
        return True, None
