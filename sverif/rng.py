"""RNG - randomness provenance and effects (DESIGN.md 3.4).

Abstract values: SeedV (the API's random_state argument), GenV (a numpy Generator created at a
site from a seed value), RV (anything else).  Analysis state `$g`: what numpy's *global* stream
was last seeded with on every path reaching this point (must-information).
Effects (recorded with the call chain and loop depth): generator construction, draw from a
generator, draw from the global stream, reseed of the global stream.
An API is analysed once per mode: SEEDED (random_state is an int, `is not None` tests are decided
true, truthiness tests are *not* decided - seed 0 is falsy) and UNSEEDED (random_state is None).
"""
import ast

from . import api
from .core import (Interp, TupleV, Closure, FuncRef, ClassRef, ExtRef, ObjV, BoundMethod, SuperV, SliceV)
from .loader import Inconclusive, norm


class RV:
    __slots__ = ()

    def __repr__(self):
        return "·"


R = RV()


class NoneV(RV):
    def __repr__(self):
        return "None"


NONE = NoneV()


class SeedV:
    __slots__ = ("api", "mode")

    def __init__(self, api_q, mode):
        self.api, self.mode = api_q, mode

    def __repr__(self):
        return "Seed(%s,%s)" % (self.api, self.mode)


class GenV:
    __slots__ = ("site", "seed")

    def __init__(self, site, seed):
        self.site, self.seed = site, seed

    def __repr__(self):
        return "Gen@%s(%r)" % (self.site[1], self.seed)


class Effect:
    __slots__ = ("kind", "site", "what", "depth", "state", "chain", "text", "file")

    def __init__(self, kind, site, what, depth, state, chain, text, file):
        self.kind, self.site, self.what, self.depth, self.state, self.chain, self.text, self.file = \
            kind, site, what, depth, state, chain, text, file

    def key(self):
        return (self.kind, self.site, repr(self.what), self.depth, self.state, self.chain)

    def __repr__(self):
        return "<%s %s:%s %r depth=%d state=%s>" % (self.kind, self.site[0], self.site[1], self.what, self.depth, self.state)


SEED_OBJECT_TYPES = {"numpy.random.Generator", "numpy.random.RandomState", "numpy.random.BitGenerator", "numpy.random.SeedSequence",
                     "numpy.random.MT19937", "numpy.random.PCG64", "numpy.random.PCG64DXSM", "numpy.random.Philox", "numpy.random.SFC64"}


class Rng(Interp):
    name = "RNG"

    def __init__(self, prog):
        super().__init__(prog)
        self.depth = 0
        self.truthy_seed_tests = []     # (qname, node): `if random_state:` style guards
        self.unknown = []

    # ------------------------------------------------------------------ effects
    def eff(self, ctx, kind, n, what, env):
        e = Effect(kind, (ctx.qname, getattr(n, "lineno", 0)), what, self.depth, env.get("$g"), (), norm(n)[:120],
                   ctx.func.module.relpath if ctx.func else (ctx.mod.relpath if ctx.mod else "?"))
        if not any(x.key() == e.key() for x in ctx.effects):
            ctx.effects.append(e)

    def h_apply_effects(self, effects, func, bound, n, env, ctx):
        for e in effects:
            ne = Effect(e.kind, e.site, e.what, e.depth + self.depth, e.state, ((ctx.qname, getattr(n, "lineno", 0)),) + e.chain,
                        e.text, e.file)
            if not any(x.key() == ne.key() for x in ctx.effects):
                ctx.effects.append(ne)

    def summary(self, func, selfobj, bound, env, ctx, n=None):
        # effects inside a callee are recorded relative to the callee's own loop depth
        saved = self.depth
        self.depth = 0
        try:
            summ = super().summary(func, selfobj, bound, env, ctx, n)
        finally:
            self.depth = saved
        if getattr(func, "cached", False) and summ is not None and isinstance(summ.ret, GenV) and not (isinstance(summ.ret.seed, tuple) and summ.ret.seed[:1] == ("memoised",)):
            # a memoised function hands every caller the *same* generator object: its position in the stream carries over
            # from call to call, whatever seed it was built from
            summ.ret = GenV(summ.ret.site, ("memoised", repr(summ.ret.seed)))
        return summ

    def _loop(self, s, env, ctx, is_for):
        self.depth += 1
        try:
            return super()._loop(s, env, ctx, is_for)
        finally:
            self.depth -= 1

    def _comp(self, n, env, ctx, kind):
        self.depth += 1
        try:
            return super()._comp(n, env, ctx, kind)
        finally:
            self.depth -= 1

    # ------------------------------------------------------------------ values
    def h_const(self, n, ctx):
        return NONE if n.value is None else R

    def h_unbound(self, name, n, ctx):
        return R

    def h_seq(self, kind, vals, n, ctx):
        if kind == "tuple":
            return TupleV(vals)
        return self.pick(vals)

    def pick(self, vals):
        """a container keeps track of a generator / seed stored in it (over-approximation)"""
        for v in vals:
            if isinstance(v, (GenV, SeedV)):
                return v
        return R

    def h_dict(self, keys, vals, n, ctx):
        return R

    def h_attr(self, v, attr, n, env, ctx):
        if isinstance(v, tuple) and len(v) == 2 and v[0] == "bitgen" and attr == "state":
            return ("state-of", v[1])           # the state of a bit generator seeded with v[1]: setting the global stream to it is seeding with v[1]
        return R

    def h_subscript(self, base, idx, n, env, ctx):
        if isinstance(base, TupleV):
            return self.pick(base.items)
        return base if isinstance(base, (GenV, SeedV)) else R

    def h_unary(self, op, v, n, ctx):
        if isinstance(op, ast.Not) and isinstance(v, tuple) and v and v[0] in ("isnotnone", "isnone", "not", "seedtype"):
            return ("not", v)
        if isinstance(op, ast.Not) and isinstance(v, SeedV):
            self.truthy_seed_tests.append((ctx.qname, n, ctx.func.module.relpath if ctx.func else "?"))
        return R

    def h_boolop(self, op, vals, n, ctx):
        # `random_state or 42` is *not* the seed itself
        return ("boolop", tuple(repr(v) for v in vals)) if any(isinstance(v, SeedV) for v in vals) else R

    def h_binop(self, op, l, r, n, ctx):
        if isinstance(l, SeedV) or isinstance(r, SeedV):
            return ("derived", repr(l), repr(r))
        return R

    def h_compare(self, ops, vals, n, ctx):
        if len(ops) == 1 and len(vals) == 2:
            a, b = vals
            for s, o in ((a, b), (b, a)):
                if isinstance(s, SeedV) and isinstance(o, NoneV):
                    if isinstance(ops[0], (ast.IsNot, ast.NotEq)):
                        return ("isnotnone", s)
                    if isinstance(ops[0], (ast.Is, ast.Eq)):
                        return ("isnone", s)
        return R

    def h_ifexp(self, tv, bv, ov, n, ctx):
        if bv is None:
            return ov
        if ov is None:
            return bv
        return self.v_join(bv, ov)

    def h_iter(self, v, n, ctx):
        if isinstance(v, TupleV):
            return self.pick(v.items)
        return v if isinstance(v, (GenV, SeedV)) else R

    def h_unpack(self, v, k, n, ctx):
        return [R] * k

    def h_comp(self, kind, elt, n, ctx, key=None):
        return R

    def h_fstring(self, vals, n, ctx):
        return R

    def h_test(self, tv, test, kind, env, ctx):
        if isinstance(tv, SeedV):
            self.truthy_seed_tests.append((ctx.qname, test, ctx.func.module.relpath if ctx.func else "?"))

    def h_assume(self, tv, test, polarity, env, ctx):
        if isinstance(tv, tuple) and tv and tv[0] in ("isnotnone", "isnone"):
            seeded = tv[1].mode == "seeded"
            truth = seeded if tv[0] == "isnotnone" else (not seeded)
            return env if truth == polarity else None
        if isinstance(tv, tuple) and tv and tv[0] == "not":
            return self.h_assume(tv[1], test, not polarity, env, ctx)
        if isinstance(tv, tuple) and tv and tv[0] == "seedtype":
            # isinstance(random_state, T): the documented seeds are integers - Python ints *and* numpy integer scalars (elements of np.arange, of
            # rng.integers(...)); None in the unseeded mode.  Decided where every documented seed answers alike, left open (both branches) otherwise
            names = tv[2]
            if tv[1].mode != "seeded":
                truth = bool(names & {"NoneType", "types.NoneType"})
            elif names <= SEED_OBJECT_TYPES:
                truth = False
            elif {"int", "numpy.integer"} <= names or names & {"numbers.Integral", "numbers.Real", "numbers.Number", "object"}:
                truth = True
            else:
                return env
            return env if truth == polarity else None
        return env

    def h_store_sub(self, base, idx, val, target, env, ctx, aug=None):
        return None

    def h_store_attr(self, obj, attr, val, target, env, ctx):
        if isinstance(obj, ObjV):
            obj.attrs[attr] = val

    def h_augassign(self, op, cur, val, n, env, ctx):
        return R

    def h_missing_arg(self, func, pname, n, ctx):
        return R

    def h_default(self, func, pname, dnode, ctx):
        return NONE if isinstance(dnode, ast.Constant) and dnode.value is None else R

    def h_none(self, ctx):
        return NONE

    def h_bottom(self, func):
        return R

    def h_exc_var(self, handler, env, ctx):
        return R

    def h_new(self, module, clsname, n, ctx):
        return ObjV(module, clsname, {}, tag=getattr(n, "lineno", 0))

    def v_join(self, a, b):
        if self.key(a) == self.key(b):
            return a
        if isinstance(a, GenV) and isinstance(b, GenV):
            if self.key(a.seed) == self.key(b.seed):
                return a                  # two construction sites, one seed
            # one of two generators, depending on a branch the mode does not decide: a draw from it is a draw from either
            return GenV(a.site, ("either", a.seed, b.seed))
        if isinstance(a, GenV) and isinstance(b, SeedV) or isinstance(b, GenV) and isinstance(a, SeedV):
            g, sd = (a, b) if isinstance(a, GenV) else (b, a)
            return GenV(g.site, ("either", g.seed, ("passed-in", repr(sd))))
        for v in (a, b):
            if isinstance(v, (GenV,)):
                return v
        return R

    def key(self, v):
        if isinstance(v, SeedV):
            return ("Seed", v.api, v.mode)
        if isinstance(v, GenV):
            return ("Gen", v.site, self.key(v.seed))
        if isinstance(v, NoneV):
            return "None"
        if isinstance(v, RV):
            return "R"
        if isinstance(v, ObjV):
            return ("O", v.cls)
        if isinstance(v, tuple):
            return repr(v)
        return super().key(v)

    def join_state(self, k, a, b):
        if a == b:
            return a
        if k == "$g" and a is not None and b is not None:
            # seeded on both ways, not in the same manner: neither "seeded with the caller's seed" nor "not seeded"
            return ("seeded-mixed", tuple(sorted({repr(a), repr(b)})))
        return None

    # ------------------------------------------------------------------ calls
    def seed_state(self, v):
        if isinstance(v, SeedV):
            return ("seeded", v.api) if v.mode == "seeded" else None
        if isinstance(v, NoneV):
            return None
        return ("seeded-other", repr(v)[:60])

    def h_call_ext(self, d, n, args, kwargs, env, ctx):
        a0 = args[0] if args else kwargs.get("seed")
        if d == "isinstance" and len(args) == 2 and isinstance(args[0], SeedV) and not kwargs:
            ts = args[1].items if isinstance(args[1], TupleV) else [args[1]]
            names = frozenset(getattr(t, "dotted", None) for t in ts)
            return ("seedtype", args[0], names) if None not in names else R
        if d in api.GENERATOR_CTORS:
            if isinstance(a0, GenV):
                return a0                 # default_rng(generator) returns that very generator
            g = GenV((ctx.qname, getattr(n, "lineno", 0)), a0 if a0 is not None else NONE)
            self.eff(ctx, "make_gen", n, g, env)
            return g
        if d in api.GLOBAL_SEED:
            st = self.seed_state(a0 if a0 is not None else NONE)
            self.eff(ctx, "seed_global", n, a0 if a0 is not None else NONE, env)
            env["$g"] = st
            return NONE
        if d in ("numpy.random.MT19937", "numpy.random.RandomState") and isinstance(a0, SeedV) and len(args) + len(kwargs) == 1:
            return ("bitgen", a0)
        if d == "numpy.random.set_state" and isinstance(a0, tuple) and len(a0) == 2 and a0[0] == "state-of" and len(args) + len(kwargs) == 1:
            # np.random.set_state(np.random.MT19937(seed).state): the global stream starts where a generator seeded with `seed` starts
            st = self.seed_state(a0[1])
            self.eff(ctx, "seed_global", n, a0[1], env)
            env["$g"] = st
            return NONE
        if d in ("numpy.random.set_state", "numpy.random.set_bit_generator"):
            # the global stream is put back to an earlier position: whatever is drawn next repeats what was drawn after that
            # position - for a call that did not ask for a seed this is "consecutive unseeded calls repeat"
            self.eff(ctx, "seed_global", n, ("restored-state",), env)
            env["$g"] = ("seeded-other", "restored state")
            return NONE
        if d in api.GLOBAL_DRAWS or d.startswith("numpy.random.") and d.split(".")[-1] in api.GENERATOR_DRAWS:
            self.eff(ctx, "draw_global", n, d, env)
            return R
        if d in api.TIME_SOURCES:
            return ("time", d)
        if d in ("filter", "map", "functools.reduce", "sorted", "max", "min"):
            for a in list(args) + list(kwargs.values()):
                if isinstance(a, (Closure, FuncRef, BoundMethod)):
                    self.depth += 1
                    try:
                        try:
                            self.apply(a, [R] * self.arity(a), {}, n, env, ctx)
                        except Inconclusive:
                            pass
                    finally:
                        self.depth -= 1
            return R
        if d in ("copy.deepcopy", "copy.copy", "list", "tuple") and args and isinstance(args[0], (GenV, SeedV)):
            return args[0]
        return R

    def arity(self, f):
        node = f.node if isinstance(f, Closure) else f.func.node
        k = len(node.args.args)
        if isinstance(f, BoundMethod) or (isinstance(f, FuncRef) and f.func.is_method):
            k -= 1
        return max(k, 0)

    def h_call_method(self, recv, attr, n, args, kwargs, env, ctx):
        if isinstance(recv, GenV):
            if attr in api.GENERATOR_DRAWS:
                self.eff(ctx, "draw_gen", n, recv, env)
            return R
        if isinstance(recv, SeedV) and attr in api.GENERATOR_DRAWS:
            self.eff(ctx, "draw_gen", n, GenV((ctx.qname, getattr(n, "lineno", 0)), ("passed-in", repr(recv))), env)
            return R
        if attr in ("append", "add", "extend", "insert") and any(isinstance(a, (GenV, SeedV)) for a in args):
            self.rebind(n.func.value, self.pick(args), env, ctx)
            return NONE
        # class-hierarchy resolution of a method on an opaque receiver: unique repository method of that name
        if isinstance(recv, RV) or isinstance(recv, ObjV):
            cands = [f for f in self.prog.funcs.values() if f.cls and f.name == attr and f.is_method]
            if isinstance(recv, ObjV):
                return R
            if len(cands) == 1 and attr not in ("copy", "items", "keys", "values", "append", "pop", "get", "sum", "all", "any"):
                f = cands[0]
                obj = ObjV(f.module, f.cls, {}, tag="cha")
                try:
                    return self.call_repo(f, obj, args, kwargs, n, env, ctx)
                except Inconclusive as e:
                    self.unknown.append((ctx.qname, getattr(n, "lineno", 0), "could not analyse %s: %s" % (f.qname, e.why)))
                    return R
        return R

    def h_call_opaque(self, fv, n, args, kwargs, env, ctx):
        # a user supplied callable (noise distribution, assignment): may read numpy's global stream
        self.eff(ctx, "draw_global", n, "opaque callable", env)
        return R


# ====================================================================== driver
def analyse_api(prog, func, mode, seed_param="random_state"):
    """-> (effects, interpreter) for one API in one mode"""
    Rg = Rng(prog)
    ctx = Rg.module_ctx(func.module)
    bound = {p: R for p in func.params}
    if func.vararg:
        bound[func.vararg] = R
    bound[seed_param] = SeedV(func.qname, mode)
    obj = ObjV(func.module, func.cls, {}, tag="self") if func.is_method else None
    env = {"$g": None}
    summ = Rg.summary(func, obj, bound, env, ctx, func.node)
    return summ.effects, Rg, summ
