"""Hand-written API model of the numpy / stdlib / pandas entry points the repository calls
(DESIGN.md 2.4).  One place; every analysis reads the column it needs.  Names are canonical
dotted names ('np' -> 'numpy').  Methods are keyed by attribute name.
"""

# ---------------------------------------------------------------- zero-pattern class (PATTERN)
# truthiness consumers: the result depends on the argument only through which entries are non-zero
TRUTHY_FUNCS = {"numpy.where", "numpy.logical_and", "numpy.logical_or", "numpy.logical_not", "numpy.logical_xor",
                "numpy.all", "numpy.any", "numpy.nonzero", "numpy.count_nonzero", "numpy.flatnonzero",
                "numpy.argwhere", "bool", "all", "any"}
TRUTHY_METHODS = {"all", "any", "nonzero"}
# structure-preserving: entries are moved / copied / selected, never combined
KEEP_FUNCS = {"numpy.array", "numpy.asarray", "numpy.atleast_1d", "numpy.atleast_2d", "numpy.copy", "numpy.transpose",
              "numpy.triu", "numpy.tril", "numpy.diag", "numpy.reshape", "numpy.ravel", "numpy.hstack", "numpy.vstack",
              "numpy.stack", "numpy.concatenate", "numpy.repeat", "numpy.tile", "numpy.delete", "numpy.squeeze",
              "numpy.abs", "numpy.absolute", "numpy.fliplr", "numpy.flipud", "numpy.take",
              "list", "tuple", "set", "frozenset", "zip", "enumerate", "reversed", "iter", "dict", "next",
              "copy.deepcopy", "copy.copy", "itertools.combinations", "itertools.product", "itertools.permutations",
              "itertools.chain", "pandas.DataFrame", "pandas.Series", "str", "repr", "print"}
KEEP_METHODS = {"copy", "transpose", "reshape", "ravel", "flatten", "tolist", "items", "keys", "values", "get",
                "pop", "squeeze", "union", "intersection", "difference", "issubset", "issuperset", "to_numpy", "view"}
# order / extremum / arithmetic: value sensitive on raw weights
VALUE_FUNCS = {"numpy.sum", "numpy.prod", "numpy.mean", "numpy.cumsum", "numpy.dot", "numpy.matmul", "numpy.linalg.inv", "numpy.linalg.pinv",
               "numpy.linalg.solve", "numpy.linalg.det", "numpy.maximum", "numpy.minimum", "numpy.max", "numpy.min",
               "numpy.amax", "numpy.amin", "numpy.argmax", "numpy.argmin", "numpy.sort", "numpy.argsort", "numpy.unique",
               "numpy.cov", "numpy.allclose", "numpy.isclose", "numpy.sign", "numpy.round", "numpy.trace",
               "numpy.linalg.matrix_power", "numpy.linalg.cholesky", "numpy.sqrt", "numpy.exp", "numpy.log",
               "numpy.array_equal", "numpy.linalg.norm", "numpy.linalg.matrix_rank", "numpy.average", "numpy.interp",
               "sorted", "sum", "max", "min", "round", "int", "float", "abs", "divmod", "pow"}
VALUE_METHODS = {"sum", "prod", "mean", "max", "min", "dot", "argmax", "argmin", "cumsum", "sort", "argsort", "trace",
                 "round", "std", "var", "index", "count"}
# results that depend on shapes / nothing only
CLEAN_FUNCS = {"numpy.zeros", "numpy.ones", "numpy.eye", "numpy.arange", "numpy.empty", "numpy.full", "numpy.identity",
               "numpy.zeros_like", "numpy.ones_like", "numpy.empty_like", "numpy.full_like", "range", "isinstance",
               "type", "numpy.random.default_rng", "numpy.random.seed", "ValueError", "TypeError", "Exception",
               "AssertionError", "IndexError", "KeyError", "RuntimeError", "NotImplementedError", "numpy.shape",
               "numpy.ndim", "numpy.size", "time.time", "warnings.warn", "id", "hash", "callable", "object",
               "numpy.unravel_index", "numpy.ndindex", "numpy.indices", "numpy.triu_indices", "numpy.tril_indices",
               "numpy.diag_indices", "numpy.version.version", "numpy.result_type", "numpy.promote_types", "numpy.dtype",
               "numpy.can_cast", "numpy.issubdtype"}
CLEAN_ATTRS = {"shape", "size", "ndim", "dtype", "itemsize", "nbytes"}
# builtins whose result is at most as informative as their arguments, without combining entries
LEN_FUNCS = {"len"}

# ---------------------------------------------------------------- mutation / aliasing (OWN)
# result may alias argument 0 (views or the very same object)
ALIAS_FUNCS = {"numpy.asarray", "numpy.atleast_1d", "numpy.atleast_2d", "numpy.atleast_3d", "numpy.transpose",
               "numpy.diag", "numpy.diagonal", "numpy.squeeze", "numpy.ravel", "numpy.reshape", "numpy.asanyarray",
               "numpy.ascontiguousarray", "numpy.swapaxes", "numpy.moveaxis", "numpy.expand_dims", "numpy.broadcast_to",
               "numpy.fliplr", "numpy.flipud", "numpy.real", "numpy.imag"}
ALIAS_METHODS = {"transpose", "reshape", "ravel", "squeeze", "view", "swapaxes", "diagonal", "values", "items", "keys",
                 "get", "setdefault", "pop", "__iter__"}
ALIAS_ATTRS = {"T", "flat", "real", "imag", "base"}
# methods that write their receiver
MUTATING_METHODS = {"__delitem__", "append", "extend", "insert", "pop", "remove", "clear", "sort", "reverse", "add", "discard",
                    "update", "fill", "setdefault", "popitem", "resize", "put", "itemset", "setflags", "partition",
                    "difference_update", "intersection_update", "symmetric_difference_update", "byteswap"}
# functions that write argument k
MUTATING_FUNCS = {"numpy.fill_diagonal": 0, "numpy.put": 0, "numpy.copyto": 0, "numpy.place": 0, "numpy.putmask": 0,
                  "numpy.random.shuffle": 0, "random.shuffle": 0, "numpy.put_along_axis": 0}
GENERATOR_MUTATING = {"shuffle": 0}          # rng.shuffle(x) writes x
# values that can never be written
IMMUTABLE_FUNCS = {"len", "int", "float", "round", "range", "str", "isinstance", "type", "tuple", "bool", "abs", "min",
                   "max", "sum", "frozenset", "repr", "hash", "id", "numpy.sum", "numpy.prod", "numpy.all", "numpy.any",
                   "numpy.allclose"}

# ---------------------------------------------------------------- randomness (RNG)
GLOBAL_DRAWS = {"numpy.random.normal", "numpy.random.uniform", "numpy.random.laplace", "numpy.random.multivariate_normal",
                "numpy.random.choice", "numpy.random.rand", "numpy.random.randn", "numpy.random.randint",
                "numpy.random.random", "numpy.random.random_sample", "numpy.random.permutation", "numpy.random.shuffle",
                "numpy.random.binomial", "numpy.random.exponential", "numpy.random.standard_normal", "numpy.random.sample",
                "numpy.random.beta", "numpy.random.gamma", "numpy.random.poisson", "numpy.random.lognormal",
                "random.random", "random.choice", "random.shuffle", "random.sample", "random.randint", "random.uniform",
                "random.gauss"}
GLOBAL_SEED = {"numpy.random.seed"}
GENERATOR_CTORS = {"numpy.random.default_rng", "numpy.random.RandomState", "numpy.random.Generator"}
GENERATOR_DRAWS = {"uniform", "choice", "shuffle", "permutation", "integers", "normal", "random", "binomial",
                   "standard_normal", "multivariate_normal", "laplace", "exponential", "permuted", "bytes", "beta",
                   "gamma", "poisson", "rand", "randn", "randint", "random_sample"}
TIME_SOURCES = {"time.time", "time.time_ns", "os.urandom", "os.getpid", "datetime.datetime.now", "time.perf_counter",
                "time.monotonic", "uuid.uuid4", "secrets.randbits"}

# ---------------------------------------------------------------- slots (DIM / slots)
# positional parameter names of the samplers; value = ordered parameter list
SLOTS = {
    "numpy.random.normal": ["loc", "scale", "size"],
    "numpy.random.uniform": ["low", "high", "size"],
    "numpy.random.laplace": ["loc", "scale", "size"],
    "numpy.random.multivariate_normal": ["mean", "cov", "size", "check_valid", "tol"],
    "numpy.random.choice": ["a", "size", "replace", "p"],
    "numpy.random.seed": ["seed"],
    "numpy.random.default_rng": ["seed"],
    "numpy.zeros": ["shape", "dtype", "order"],
    "numpy.triu": ["m", "k"],
    "numpy.argsort": ["a", "axis", "kind", "order"],
    "numpy.isclose": ["a", "b", "rtol", "atol", "equal_nan"],
    "numpy.allclose": ["a", "b", "rtol", "atol", "equal_nan"],
}
# leading positional parameters of further numpy / builtin functions (used only to canonicalise keyword spelling)
EXT_SIGNATURES = {
    "numpy.ones": ["shape", "dtype"], "numpy.empty": ["shape", "dtype"], "numpy.full": ["shape", "fill_value", "dtype"],
    "numpy.zeros_like": ["a", "dtype"], "numpy.ones_like": ["a", "dtype"], "numpy.eye": ["N", "M", "k"], "numpy.identity": ["n"],
    "numpy.tril": ["m", "k"], "numpy.diag": ["v", "k"], "numpy.where": ["condition", "x", "y"], "numpy.sum": ["a", "axis"],
    "numpy.transpose": ["a"], "numpy.dot": ["a", "b"], "numpy.matmul": ["x1", "x2"], "numpy.linalg.inv": ["a"], "numpy.linalg.solve": ["a", "b"],
    "numpy.atleast_1d": ["arys"], "numpy.atleast_2d": ["arys"], "numpy.array": ["object", "dtype"], "numpy.asarray": ["a", "dtype"],
    "numpy.unravel_index": ["indices", "shape"], "numpy.argmax": ["a", "axis"], "numpy.argmin": ["a", "axis"], "numpy.unique": ["ar"],
    "numpy.hstack": ["tup"], "numpy.maximum": ["x1", "x2"], "numpy.minimum": ["x1", "x2"], "numpy.abs": ["x"], "numpy.sqrt": ["x"],
    "numpy.count_nonzero": ["a", "axis"], "numpy.flatnonzero": ["a"], "numpy.nonzero": ["a"], "numpy.logical_and": ["x1", "x2"],
    "numpy.logical_or": ["x1", "x2"], "numpy.logical_not": ["x"], "numpy.any": ["a", "axis"], "numpy.all": ["a", "axis"],
    "sorted": ["iterable"], "round": ["number", "ndigits"], "copy.deepcopy": ["x"],
}
EXT_NPOS = {"numpy.dot": 2, "numpy.matmul": 2, "numpy.linalg.solve": 2, "numpy.maximum": 2, "numpy.minimum": 2, "numpy.logical_and": 2,
            "numpy.logical_or": 2, "numpy.isclose": 2, "numpy.allclose": 2, "numpy.where": 3, "numpy.unravel_index": 2, "numpy.full": 2}
GEN_SLOTS = {
    "uniform": ["low", "high", "size"],
    "integers": ["low", "high", "size", "dtype", "endpoint"],
    "choice": ["a", "size", "replace", "p", "axis", "shuffle"],
    "permutation": ["x", "axis"],
    "shuffle": ["x", "axis"],
    "normal": ["loc", "scale", "size"],
    "random": ["size", "dtype", "out"],
    "binomial": ["n", "p", "size"],
    "multivariate_normal": ["mean", "cov", "size"],
}
SLOT_DEFAULTS = {
    ("numpy.random.uniform", "low"): 0.0, ("numpy.random.uniform", "high"): 1.0,
    ("numpy.random.normal", "loc"): 0.0, ("numpy.random.normal", "scale"): 1.0,
    ("numpy.random.laplace", "loc"): 0.0, ("numpy.random.laplace", "scale"): 1.0,
    ("gen.uniform", "low"): 0.0, ("gen.uniform", "high"): 1.0,
    ("gen.choice", "replace"): True, ("numpy.random.choice", "replace"): True,
    ("gen.integers", "endpoint"): False,
}

# ---------------------------------------------------------------- order class (IDX requested order)
ORDER_KEEP = {"numpy.atleast_1d", "numpy.asarray", "numpy.array", "list", "tuple", "numpy.copy", "numpy.ravel",
              "numpy.atleast_2d", "copy.deepcopy", "copy.copy", "numpy.asanyarray", "numpy.squeeze", "numpy.int_",
              "numpy.reshape"}
ORDER_DESTROY = {"sorted", "numpy.sort", "numpy.unique", "set", "frozenset", "reversed", "numpy.flip", "numpy.argsort",
                 "numpy.random.permutation", "numpy.roll", "numpy.setdiff1d", "numpy.union1d", "numpy.intersect1d"}
ORDER_KEEP_METHODS = {"copy", "astype", "ravel", "tolist", "flatten", "reshape", "squeeze"}
ORDER_DESTROY_METHODS = {"sort", "reverse", "argsort"}


def bind_slots(names, args, kwargs):
    """map positional + keyword arguments of a call to slot names"""
    out = {}
    for name, a in zip(names, args):
        out[name] = a
    extra = args[len(names):]
    for k, v in kwargs.items():
        out[k] = v
    return out, extra
