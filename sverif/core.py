"""Abstract-interpreter core shared by all analyses (DESIGN.md section 2.3).

A syntax-directed interpreter over the statement kinds the repository uses.  The Python
structure (scopes, closures, calls into repository functions with memoised summaries,
branches, loops to fixpoint, try/except, early exits) lives here; the *meaning* of
values lives in the domain hooks (``h_*``) that each analysis overrides.  A hook that
is not overridden raises ``Inconclusive`` - leaving the modelled fragment is never a
silent pass and never an alarm.
"""
import ast
import builtins

from .loader import Inconclusive, dotted_of, local_names, norm

BUILTINS = set(dir(builtins))
MAX_ITER = 24


# --------------------------------------------------------------------------- generic values
class TupleV:
    """fixed-length tuple / list literal, tracked field by field"""
    __slots__ = ("items", "kind")

    def __init__(self, items, kind="tuple"):
        self.items, self.kind = list(items), kind

    def __repr__(self):
        return "T(%s)" % ", ".join(map(repr, self.items))


class NamedTupleV(TupleV):
    """instance of a collections.namedtuple class: a tuple whose items can also be read by field name"""
    __slots__ = ("fields",)

    def __init__(self, items, fields):
        TupleV.__init__(self, items, "tuple")
        self.fields = tuple(fields)


class NamedTupleCls:
    """the class collections.namedtuple(name, fields) returns"""
    __slots__ = ("name", "fields", "defaults")

    def __init__(self, name, fields, defaults=()):
        self.name, self.fields, self.defaults = name, tuple(fields), tuple(defaults)

    def __repr__(self):
        return "<namedtuple %s%s>" % (self.name, self.fields)


class GenV:
    """what calling a generator function of the repository returns: nothing has run yet; the body runs where the value is iterated (st_For fuses it)"""
    __slots__ = ("func", "selfobj", "bound")

    def __init__(self, func, selfobj, bound):
        self.func, self.selfobj, self.bound = func, selfobj, bound

    def __repr__(self):
        return "<generator %s>" % self.func.qname


class Closure:
    __slots__ = ("node", "env", "ctx", "locals")

    def __init__(self, node, env, ctx):
        self.node, self.env, self.ctx = node, env, ctx
        self.locals = local_names(node)

    def __repr__(self):
        return "<closure@%d>" % self.node.lineno


class FuncRef:
    __slots__ = ("func",)

    def __init__(self, func):
        self.func = func

    def __repr__(self):
        return "<fn %s>" % self.func.qname


class RawRef(FuncRef):
    """the function itself, underneath its decorators (what a decorator receives as its argument)"""
    __slots__ = ()

    def __repr__(self):
        return "<raw fn %s>" % self.func.qname


class StaticV:
    """a Python scalar the interpreter itself knows (len(args), 'k' in kwargs, the constants a decorator factory was applied to):
    wrapper code that re-packs *args / **kwargs is evaluated, not abstracted"""
    __slots__ = ("value",)

    def __init__(self, value):
        self.value = value

    def __repr__(self):
        return "St(%r)" % (self.value,)


class KwV:
    """the **kwargs of one call: keyword names known, values abstract; insertion order = order at the call site"""
    __slots__ = ("items", "persistent", "oid", "rest")

    def __init__(self, items=None, rest=None):
        self.items = dict(items or {})
        self.persistent = False
        self.rest = rest           # an abstract mapping holding further, unknown keywords (the entry point's own **kwargs)
        self.oid = id(self)        # identity of the dict object it stands for (kept by the per-branch copies)

    def __repr__(self):
        return "Kw(%s)" % ", ".join("%s=%r" % kv for kv in self.items.items())


class CodeV:
    """f.__code__ of a repository function (signature introspection in decorators)"""
    __slots__ = ("func",)

    def __init__(self, func):
        self.func = func


class ClassRef:
    __slots__ = ("module", "name")

    def __init__(self, module, name):
        self.module, self.name = module, name

    def __repr__(self):
        return "<class %s.%s>" % (self.module.name, self.name)


class ExtRef:
    """external module / function / builtin, by dotted name (e.g. numpy.random.seed)"""
    __slots__ = ("dotted",)

    def __init__(self, dotted):
        self.dotted = dotted

    def __repr__(self):
        return "<ext %s>" % self.dotted


class ObjV:
    """instance of a repository class with abstract attribute values"""
    __slots__ = ("module", "cls", "attrs", "tag")

    def __init__(self, module, cls, attrs=None, tag=None):
        self.module, self.cls, self.attrs, self.tag = module, cls, attrs if attrs is not None else {}, tag

    def __repr__(self):
        return "<obj %s>" % self.cls


class BoundMethod:
    __slots__ = ("obj", "func")

    def __init__(self, obj, func):
        self.obj, self.func = obj, func


class SuperV:
    __slots__ = ("obj", "module", "cls")

    def __init__(self, obj, module, cls):
        self.obj, self.module, self.cls = obj, module, cls


class SliceV:
    __slots__ = ("lower", "upper", "step")

    def __init__(self, lower, upper, step):
        self.lower, self.upper, self.step = lower, upper, step

    def __repr__(self):
        return "S(%r:%r:%r)" % (self.lower, self.upper, self.step)


GENERIC = (TupleV, Closure, FuncRef, ClassRef, ExtRef, ObjV, BoundMethod, SuperV, SliceV, StaticV, KwV)
ARGS = "args"           # kind of a TupleV whose length / items the interpreter computes with (varargs and what is derived from them)


MUTATING_METHODS = {"fill", "sort", "put", "itemset", "resize", "setfield", "setflags", "partition", "byteswap", "append", "extend", "insert", "remove", "pop", "clear",
                    "reverse", "add", "discard", "update", "setdefault", "popitem", "difference_update", "intersection_update", "symmetric_difference_update"}
_SELF_COPIES = {}


def _noop_self_copies(fnode):
    """{statement: source name} for the statements `M = N.copy()` / `M = np.array(N)` of `fnode` (N a local or parameter name, M the same name or another one bound
    nowhere else) after which M is only read: never the base of a subscript or attribute store or of an augmented assignment, never deleted, never the receiver
    of a mutating method, never handed to `out=` or as the first argument of a numpy function that writes it (np.fill_diagonal, np.put, np.copyto, ...), not
    captured by a nested function.  For *values* M is then N as it was at that point (ownership is decided elsewhere, on the unchanged statements)."""
    key = id(fnode)
    if key in _SELF_COPIES and _SELF_COPIES[key][0] is fnode:
        return _SELF_COPIES[key][1]
    out = {}
    if isinstance(fnode, (ast.FunctionDef, ast.AsyncFunctionDef)):
        a = fnode.args
        params = {x.arg for x in a.posonlyargs + a.args + a.kwonlyargs}
        cands = {}
        for st in ast.walk(fnode):
            if isinstance(st, ast.Assign) and len(st.targets) == 1 and isinstance(st.targets[0], ast.Name):
                n, v = st.targets[0].id, st.value
                src = None
                if isinstance(v, ast.Call) and isinstance(v.func, ast.Attribute) and v.func.attr == "copy" and not v.args and not v.keywords:
                    src = v.func.value
                elif isinstance(v, ast.Call) and isinstance(v.func, ast.Attribute) and isinstance(v.func.value, ast.Name) and v.func.value.id in ("np", "numpy") and \
                        v.func.attr in ("array", "copy") and len(v.args) == 1 and not v.keywords and isinstance(v.args[0], ast.Name) and v.args[0].id in params:
                    # only for a parameter (read as an array by the input-domain assumption): np.array(rows) of a local list is a conversion, not a copy
                    src = v.args[0]
                if isinstance(src, ast.Name) and (src.id == n and n in params or src.id != n and n not in params):
                    cands.setdefault(n, []).append((st, src))
        for n, sts in cands.items():
            if len(sts) != 1:
                continue
            ok = True
            for x in ast.walk(fnode):
                if isinstance(x, ast.Name) and x.id == n and isinstance(x.ctx, (ast.Store, ast.Del)) and x is not sts[0][0].targets[0]:
                    ok = False
                elif isinstance(x, (ast.Subscript, ast.Attribute)) and isinstance(x.ctx, (ast.Store, ast.Del)):
                    b = x.value
                    while isinstance(b, (ast.Subscript, ast.Attribute)):
                        b = b.value
                    if isinstance(b, ast.Name) and b.id == n:
                        ok = False
                elif isinstance(x, ast.AugAssign):
                    b = x.target
                    while isinstance(b, (ast.Subscript, ast.Attribute)):
                        b = b.value
                    if isinstance(b, ast.Name) and b.id == n:
                        ok = False
                elif isinstance(x, ast.Call):
                    f = x.func
                    if isinstance(f, ast.Attribute) and f.attr in MUTATING_METHODS:
                        b = f.value
                        while isinstance(b, (ast.Subscript, ast.Attribute)):
                            b = b.value
                        if isinstance(b, ast.Name) and b.id == n:
                            ok = False
                    if any(k.arg == "out" for k in x.keywords):
                        ok = False
                    if isinstance(f, ast.Attribute) and isinstance(f.value, ast.Name) and f.value.id in ("np", "numpy") and f.attr in (
                            "fill_diagonal", "put", "place", "putmask", "copyto", "put_along_axis") and x.args and \
                            any(isinstance(y, ast.Name) and y.id == n for y in ast.walk(x.args[0])):
                        ok = False
                elif isinstance(x, (ast.Global, ast.Nonlocal)) and n in x.names:
                    ok = False
                elif isinstance(x, (ast.FunctionDef, ast.Lambda)) and x is not fnode and any(isinstance(y, ast.Name) and y.id == n for y in ast.walk(x)):
                    ok = False          # captured by a nested function: read under another activation
                elif isinstance(x, (ast.For, ast.comprehension)) and any(isinstance(y, ast.Name) and y.id == n for y in ast.walk(x.target)):
                    ok = False
            if ok:
                out[sts[0][0]] = sts[0][1]
    _SELF_COPIES[key] = (fnode, out)
    return out


class Ctx:
    """per-activation context"""

    def __init__(self, func, module, cls, stack=(), parent=None):
        self.func, self.mod, self.cls, self.stack, self.parent = func, module, cls, stack, parent
        self.rets = []      # (value, node, env)
        self.raises = []    # (exc value, node, env)
        self.effects = []   # domain specific
        self.loops = []     # stack of dict(breaks=[], conts=[])
        self.pc = []        # stack of (test value, test node, polarity)
        self.self_obj = None
        self.notes = []

    @property
    def qname(self):
        return self.func.qname if self.func else "<lambda>"


class Summary:
    __slots__ = ("ret", "effects", "raises", "state", "used", "params_out")

    def __init__(self, ret, effects, raises):
        self.ret, self.effects, self.raises, self.state, self.used = ret, effects, raises, None, False
        self.params_out = {}       # value of each parameter variable at function exit (for in-place updates)


class CallFormError(Inconclusive):
    """the arguments of a call do not fit the callee's signature (Python raises TypeError)"""


NOTSTATIC = object()
# how an analysed *entry point* that carries decorators is called: the first CALL_FORM[0] parameters by position, the others by
# keyword (in signature order, or reversed when CALL_FORM[1]); None = all by position.  Undecorated functions bind the same
# way whatever the form, so the form only matters behind a wrapper that re-packs *args / **kwargs.
CALL_FORM = [None, False]
DECORATED_ENTRIES = {}     # qname -> number of parameters, for every decorated function analysed as an entry point


def is_static(v):
    return isinstance(v, (StaticV, KwV)) or (isinstance(v, TupleV) and v.kind == ARGS)


ALL_INTERPS = []       # every interpreter built during one check (to know which functions the check analysed)


class PartialV:
    """functools.partial(f, *args, **kwargs) (only built by domains that set model_partial)"""
    __slots__ = ("fv", "args", "kwargs", "node")

    def __init__(self, fv, args, kwargs, node):
        self.fv, self.args, self.kwargs, self.node = fv, list(args), dict(kwargs), node

    def __repr__(self):
        return "<partial %r>" % (self.fv,)


class Interp:
    """Base interpreter.  Subclasses provide the domain."""

    name = "base"
    model_partial = False

    def __init__(self, prog):
        self.prog = prog
        self.memo = {}
        self.inprogress = {}
        self.visited_funcs = set()
        ALL_INTERPS.append(self)
        self.call_sites = 0
        self.notes = []            # (qname, line, message): unmodelled constructs met
        self._module_ctx = {}
        self._raw_once = None      # the next call of this function is the call of the undecorated function, made by its wrapper
        self.decorated_ok = set()  # decorated functions whose decorators were applied by evaluating them
        self.persistent_writes = []
        self.persistent_reads = []
        self.decorator_funcs = set()
        self.raw_calls = {}        # qname -> [(args, kwargs)] : what the undecorated entry point was finally called with
        self.force_interpret = set()
        self._entry_bind = None
        self.signature_mismatch = []

    # =================================================================== domain hooks
    def h_const(self, n, ctx):
        raise Inconclusive("constant not modelled", n)

    def h_unbound(self, name, n, ctx):
        raise Inconclusive("read of unbound name %s" % name, n)

    def h_seq(self, kind, vals, n, ctx):
        if kind == "tuple":
            return TupleV(vals)
        raise Inconclusive("%s literal not modelled" % kind, n)

    def h_dict(self, keys, vals, n, ctx):
        raise Inconclusive("dict literal not modelled", n)

    def h_attr(self, v, attr, n, env, ctx):
        raise Inconclusive("attribute .%s not modelled" % attr, n)

    def h_slice(self, lo, up, st, n, ctx):
        return SliceV(lo, up, st)

    def h_subscript(self, base, idx, n, env, ctx):
        raise Inconclusive("subscript not modelled", n)

    def h_unary(self, op, v, n, ctx):
        raise Inconclusive("unary op not modelled", n)

    def h_boolop(self, op, vals, n, ctx):
        raise Inconclusive("bool op not modelled", n)

    def h_binop(self, op, l, r, n, ctx):
        raise Inconclusive("binary op not modelled", n)

    def h_compare(self, ops, vals, n, ctx):
        raise Inconclusive("comparison not modelled", n)

    def h_ifexp(self, tv, bv, ov, n, ctx):
        if bv is None:
            return ov
        if ov is None:
            return bv
        return self.v_join(bv, ov)

    def h_iter(self, v, n, ctx):
        if isinstance(v, TupleV):
            r = None
            for x in v.items:
                r = x if r is None else self.v_join(r, x)
            if r is not None:
                return r
        raise Inconclusive("iteration not modelled", n)

    def h_comp(self, kind, elt, n, ctx, key=None):
        raise Inconclusive("comprehension not modelled", n)

    def h_fstring(self, vals, n, ctx):
        return self.h_const(ast.Constant(value=""), ctx)

    def h_call_ext(self, dotted, n, args, kwargs, env, ctx):
        raise Inconclusive("external call %s not modelled" % dotted, n)

    def h_call_method(self, recv, attr, n, args, kwargs, env, ctx):
        raise Inconclusive("method .%s not modelled" % attr, n)

    def h_call_opaque(self, fv, n, args, kwargs, env, ctx):
        raise Inconclusive("call of an opaque callable", n)

    def h_store_sub(self, base, idx, val, target, env, ctx, aug=None):
        raise Inconclusive("subscript store not modelled", target)

    def h_store_attr(self, obj, attr, val, target, env, ctx):
        if isinstance(obj, ObjV):
            obj.attrs[attr] = val
            return
        raise Inconclusive("attribute store not modelled", target)

    def h_augassign(self, op, cur, val, n, env, ctx):
        return self.h_binop(op, cur, val, n, ctx)

    def h_bind(self, name, v, n, env, ctx):
        return v

    def h_returns(self, rets, entry_env, ctx):
        """the value of a call whose body has several return statements: [(value, node, env at the return)] -> value | None"""
        return None

    def h_raw_entry_args(self, func, args, kwargs, n, ctx):
        """the arguments with which the wrapper(s) of an analysed entry point finally call the function itself"""
        return args, kwargs

    def h_test(self, tv, test, kind, env, ctx):
        """a value is used as a branch / loop / assert condition"""

    def h_assume(self, tv, test, polarity, env, ctx):
        """refine env for the branch; return None when the branch is infeasible"""
        return env

    def h_return(self, v, n, env, ctx):
        return v

    def h_raise(self, v, n, env, ctx):
        pass

    def h_param(self, func, pname, v, ctx):
        return v

    def h_default(self, func, pname, dnode, ctx):
        return self.ev(dnode, {}, self.module_ctx(func.module))

    def h_missing_arg(self, func, pname, n, ctx):
        raise Inconclusive("missing argument %s of %s" % (pname, func.qname), n)

    def h_new(self, module, clsname, n, ctx):
        return ObjV(module, clsname, {}, tag=getattr(n, "lineno", None))

    def h_none(self, ctx):
        return self.h_const(ast.Constant(value=None), ctx)

    def h_bottom(self, func):
        """initial summary value for recursive calls"""
        return None

    def h_apply_effects(self, effects, func, bound, n, env, ctx):
        """translate a callee's recorded effects into the caller"""
        ctx.effects.extend(effects)

    def h_enter(self, func, env, ctx):
        pass

    def h_stmt(self, s, env, ctx):
        pass

    def h_with(self, item_v, n, ctx):
        return item_v

    def h_exc_var(self, handler, env, ctx):
        return self.h_none(ctx)

    def v_join(self, a, b):
        raise Inconclusive("join not modelled")

    def v_same(self, a, b):
        return self.key(a) == self.key(b)

    def key(self, v):
        if isinstance(v, TupleV):
            return ("T",) + tuple(self.key(x) for x in v.items)
        if isinstance(v, ObjV):
            return ("O", v.cls, tuple(sorted((k, self.key(x)) for k, x in v.attrs.items())))
        if isinstance(v, Closure):
            return ("C", id(v.node))
        if isinstance(v, PartialV):
            return ("PV", id(v.node))
        if isinstance(v, RawRef):
            return ("RF", v.func.qname)
        if isinstance(v, FuncRef):
            return ("F", v.func.qname)
        if isinstance(v, StaticV):
            return ("ST", repr(v.value))
        if isinstance(v, KwV):
            return ("KW",) + tuple((k, self.key(x)) for k, x in v.items.items())
        if isinstance(v, ExtRef):
            return ("E", v.dotted)
        if isinstance(v, ClassRef):
            return ("K", v.name)
        if isinstance(v, SliceV):
            return ("S", self.key(v.lower), self.key(v.upper), self.key(v.step))
        if isinstance(v, BoundMethod):
            return ("B", v.func.qname)
        return repr(v)

    # =================================================================== helpers
    def note(self, ctx, n, msg):
        self.notes.append((ctx.qname if ctx else "?", getattr(n, "lineno", 0), msg))

    def module_ctx(self, module):
        c = self._module_ctx.get(module.name)
        if c is None:
            c = self._module_ctx[module.name] = Ctx(None, module, None)
        return c

    def join_generic(self, a, b):
        """join that understands the generic containers; falls back to v_join"""
        if a is b:
            return a
        if isinstance(a, TupleV) and isinstance(b, TupleV) and len(a.items) == len(b.items):
            return TupleV([self.join_generic(x, y) for x, y in zip(a.items, b.items)], a.kind)
        if isinstance(a, ObjV) and isinstance(b, ObjV) and a.cls == b.cls:
            if a.attrs is b.attrs:
                return a
            at = {}
            for k in set(a.attrs) | set(b.attrs):
                if k in a.attrs and k in b.attrs:
                    at[k] = self.join_generic(a.attrs[k], b.attrs[k])
                else:
                    at[k] = a.attrs.get(k, b.attrs.get(k))
            return ObjV(a.module, a.cls, at, a.tag)
        if isinstance(a, (FuncRef, ExtRef, ClassRef, Closure, PartialV, StaticV)) and type(a) is type(b) and self.key(a) == self.key(b):
            return a
        if isinstance(a, KwV) and isinstance(b, KwV) and list(a.items) == list(b.items):
            return KwV({k: self.join_generic(a.items[k], b.items[k]) for k in a.items})
        if isinstance(a, (StaticV, KwV)) or isinstance(b, (StaticV, KwV)):
            return self.v_join(self.dom(a, None), self.dom(b, None))
        return self.v_join(a, b)

    def join_env(self, e1, e2):
        if e1 is None:
            return e2
        if e2 is None:
            return e1
        if e1 is e2:
            return e1
        out = {}
        mu = set(e1.get("$mu", ())) | set(e2.get("$mu", ()))
        for k in set(e1) | set(e2):
            if k == "$mu":
                continue
            if k in e1 and k in e2:
                if k.startswith("$"):
                    out[k] = self.join_state(k, e1[k], e2[k])
                else:
                    out[k] = self.join_generic(e1[k], e2[k])
            else:
                if k.startswith("$"):
                    out[k] = self.join_state(k, e1.get(k), e2.get(k))
                else:
                    out[k] = e1.get(k, e2.get(k))
                    mu.add(k)
        if mu:
            out["$mu"] = frozenset(mu)
        return out

    def join_state(self, k, a, b):
        """join of analysis-state pseudo variables ('$...'); default: must-information (equal or dropped)"""
        if k == "$globals":
            return frozenset(set(a or ()) | set(b or ()))
        if a is None or b is None:
            return None
        return a if a == b else None

    def same_env(self, e1, e2):
        if e1 is None or e2 is None:
            return e1 is e2
        if set(e1) != set(e2):
            return False
        for k in e1:
            if k.startswith("$"):
                if e1[k] != e2[k]:
                    return False
            elif not self.v_same(e1[k], e2[k]):
                return False
        return True

    # =================================================================== the static world
    # Wrappers (decorators) re-pack *args / **kwargs with tuple / dict operations; those are evaluated, not abstracted: the
    # length of args, the names in kwargs and the constants a decorator factory was applied to are known to the interpreter.
    def dom(self, v, ctx):
        """hand a static value over to the abstract domain"""
        if isinstance(v, StaticV):
            return self.h_const(ast.Constant(value=v.value), ctx)
        if isinstance(v, KwV):
            if v.rest is not None:
                if not v.items:
                    return v.rest
                raise Inconclusive("a **kwargs mapping with known and unknown keywords is used as a whole")
            return self.h_dict([self.h_const(ast.Constant(value=k), ctx) for k in v.items], [self.dom(x, ctx) for x in v.items.values()], None, ctx)
        if isinstance(v, TupleV) and v.kind == ARGS:
            return TupleV([self.dom(x, ctx) for x in v.items])
        if isinstance(v, SliceV) and any(is_static(x) for x in (v.lower, v.upper, v.step)):
            return SliceV(*[self.dom(x, ctx) if x is not None else None for x in (v.lower, v.upper, v.step)])
        return v

    def static_of(self, node, v):
        """(known?, python value) of an evaluated expression: static values and literal constants"""
        if isinstance(v, StaticV):
            return True, v.value
        if isinstance(node, ast.Constant):
            return True, node.value
        if isinstance(node, ast.UnaryOp) and isinstance(node.op, ast.USub) and isinstance(node.operand, ast.Constant) and isinstance(node.operand.value, (int, float)):
            return True, -node.operand.value
        return False, None

    def literal_truth(self, tv, test):
        """True / False when the abstract value of an `if` test is a boolean literal in this domain, else None (both branches are analysed)"""
        return None

    def static_truth(self, v):
        if isinstance(v, StaticV):
            return bool(v.value)
        if isinstance(v, KwV) and v.rest is not None and not v.items:
            raise Inconclusive("truth value of a **kwargs mapping whose keywords are not known")
        if isinstance(v, (KwV, TupleV)):
            return bool(v.items)
        return None

    def fork_env(self, env):
        """copy of an environment for one branch: the mutable static dicts are copied too (aliases stay aliases)"""
        out, m = {}, {}
        for k, v in env.items():
            if isinstance(v, KwV):
                if id(v) not in m:
                    m[id(v)] = KwV(v.items, v.rest)
                    m[id(v)].persistent = v.persistent
                    m[id(v)].oid = v.oid
                out[k] = m[id(v)]
            else:
                out[k] = v
        return out

    def static_subscript(self, base, n, env, ctx):
        sl = n.slice
        if isinstance(sl, ast.Slice):
            if not isinstance(base, TupleV):
                return NOTSTATIC
            bounds = []
            for b in (sl.lower, sl.upper, sl.step):
                if b is None:
                    bounds.append(None)
                    continue
                ok, c = self.static_of(b, self.ev(b, env, ctx))
                if not ok or not isinstance(c, int) or isinstance(c, bool):
                    return NOTSTATIC
                bounds.append(c)
            return TupleV(base.items[slice(*bounds)], ARGS)
        ok, c = self.static_of(sl, self.ev(sl, env, ctx))
        if not ok:
            return NOTSTATIC
        if isinstance(base, TupleV) and isinstance(c, int) and not isinstance(c, bool):
            if -len(base.items) <= c < len(base.items):
                return base.items[c]
            raise Inconclusive("index %d of a %d-tuple of arguments: IndexError in this call form" % (c, len(base.items)), n)
        if isinstance(base, KwV) and isinstance(c, str):
            if base.persistent:
                self.persistent_reads.append((base.oid, ctx.qname, getattr(n, "lineno", 0), norm(n)[:100]))
            if c in base.items:
                return base.items[c]
            raise Inconclusive("kwargs[%r]: KeyError in this call form" % c, n)
        return NOTSTATIC

    def kw_method(self, recv, attr, n, args, kwargs, env, ctx):
        """dict methods on the keyword arguments of a call"""
        def skey(i):
            if i >= len(args):
                return False, None
            return self.static_of(n.args[i] if i < len(n.args) else None, args[i])
        if recv.rest is not None:
            ok, k = skey(0)
            if not (attr in ("get", "pop", "setdefault") and ok and k in recv.items):
                raise Inconclusive("kwargs.%s on a mapping whose keywords are not all known" % attr, n)
        if recv.persistent and attr in ("get", "items", "values", "copy", "pop"):
            self.persistent_reads.append((recv.oid, ctx.qname, getattr(n, "lineno", 0), norm(n)[:100]))
        if attr in ("get", "pop", "setdefault"):
            ok, k = skey(0)
            if not ok or not isinstance(k, str):
                raise Inconclusive("kwargs.%s with a key that is not a literal" % attr, n)
            if k in recv.items:
                v = recv.items[k]
                if attr == "pop":
                    self.kw_write(recv, n, ctx)
                    del recv.items[k]
                return v
            if len(args) > 1:
                if attr == "setdefault":
                    self.kw_write(recv, n, ctx)
                    recv.items[k] = args[1]
                return args[1]
            if attr == "pop":
                raise Inconclusive("kwargs.pop(%r): KeyError in this call form" % k, n)
            if attr == "setdefault":
                self.kw_write(recv, n, ctx)
                recv.items[k] = self.h_none(ctx)
            return self.h_none(ctx)
        if attr == "items" and not args:
            return TupleV([TupleV([StaticV(k), v], ARGS) for k, v in recv.items.items()], ARGS)
        if attr == "keys" and not args:
            return TupleV([StaticV(k) for k in recv.items], ARGS)
        if attr == "values" and not args:
            return TupleV(list(recv.items.values()), ARGS)
        if attr == "copy" and not args:
            return KwV(recv.items)
        if attr == "clear" and not args:
            self.kw_write(recv, n, ctx)
            recv.items.clear()
            return self.h_none(ctx)
        if attr == "update":
            new = {}
            for a in args:
                pairs = self.static_pairs(a)
                if pairs is None:
                    raise Inconclusive("kwargs.update with an argument whose keys are not known", n)
                new.update(pairs)
            new.update(kwargs)
            self.kw_write(recv, n, ctx)
            recv.items.update(new)
            return self.h_none(ctx)
        return self.h_call_method(self.dom(recv, ctx), attr, n, [self.dom(a, ctx) for a in args], {k: self.dom(v, ctx) for k, v in kwargs.items()}, env, ctx)

    def kw_write(self, recv, n, ctx):
        """a dict that lives in a decorator's closure (built once, when the function is decorated) is written by a call"""
        if recv.persistent:
            self.persistent_writes.append((recv.oid, ctx.qname, getattr(n, "lineno", 0), norm(n)[:100], ctx.mod.relpath if ctx.mod else "?"))

    def static_pairs(self, v):
        """{name: value} of a static mapping / sequence of (name, value) pairs"""
        if isinstance(v, KwV):
            return dict(v.items)
        if isinstance(v, TupleV) and all(isinstance(x, TupleV) and len(x.items) == 2 and isinstance(x.items[0], StaticV) and isinstance(x.items[0].value, str)
                                         for x in v.items):
            return {x.items[0].value: x.items[1] for x in v.items}
        return None

    STATIC_BUILTINS = ("len", "tuple", "list", "dict", "zip", "sorted", "reversed", "enumerate", "bool")

    def static_builtin(self, name, n, args, kwargs, ctx):
        if kwargs or not args:
            return NOTSTATIC
        a = args[0]
        if name == "len" and len(args) == 1:
            if isinstance(a, (KwV, TupleV)):
                return StaticV(len(a.items))
            if isinstance(a, StaticV) and isinstance(a.value, str):
                return StaticV(len(a.value))
        if name == "bool" and len(args) == 1:
            return StaticV(self.static_truth(a))
        if name in ("tuple", "list") and len(args) == 1:
            if isinstance(a, TupleV):
                return TupleV(a.items, ARGS)
            if isinstance(a, KwV):
                return TupleV([StaticV(k) for k in a.items], ARGS)
        if name == "dict" and len(args) == 1:
            pairs = self.static_pairs(a)
            if pairs is not None:
                return KwV(pairs)
        if name == "zip" and all(isinstance(x, TupleV) for x in args):
            k = min(len(x.items) for x in args)
            return TupleV([TupleV([x.items[i] for x in args], ARGS) for i in range(k)], ARGS)
        if name == "reversed" and len(args) == 1 and isinstance(a, TupleV):
            return TupleV(a.items[::-1], ARGS)
        if name == "enumerate" and len(args) == 1 and isinstance(a, TupleV):
            return TupleV([TupleV([StaticV(i), x], ARGS) for i, x in enumerate(a.items)], ARGS)
        if name == "sorted" and len(args) == 1 and isinstance(a, TupleV):
            def sk(x):
                x = x.items[0] if isinstance(x, TupleV) and x.items else x
                return x.value if isinstance(x, StaticV) else None
            ks = [sk(x) for x in a.items]
            if all(isinstance(k, str) for k in ks) or all(isinstance(k, (int, float)) for k in ks):
                return TupleV([x for _, x in sorted(zip(ks, a.items), key=lambda kv: kv[0])], ARGS)
        return NOTSTATIC

    # =================================================================== expressions
    def ev(self, n, env, ctx):
        m = getattr(self, "ev_" + type(n).__name__, None)
        if m is None:
            raise Inconclusive("expression kind %s not modelled" % type(n).__name__, n)
        return m(n, env, ctx)

    def ev_Constant(self, n, env, ctx):
        return self.h_const(n, ctx)

    def lookup_name(self, name, n, env, ctx):
        if name in env:
            return env[name]
        if name in env.get("$globals", ()) or (name in getattr(ctx.mod, "rebound_globals", ()) and not (ctx.func is not None and name in ctx.func.locals
                                                                                                     and name not in env.get("$globals", ()))):
            if name in ctx.mod.globals or name in env.get("$globals", ()):
                return self.h_global_load(ctx.mod, name, n, env, ctx)
        e = env
        while "$outer" in e:        # closure chain
            e = e["$outer"]
            if name in e:
                return e[name]
        if ctx.func is not None and name in ctx.func.locals:
            return self.h_unbound(name, n, ctx)
        d = self.prog.resolve_global(name, ctx.mod)
        if d is not None:
            return self.global_value(d, n, ctx)
        if name in BUILTINS:
            return ExtRef(name)
        return self.h_unbound(name, n, ctx)

    def global_value(self, dotted, n, ctx):
        k = self.prog.lookup(dotted)
        if k[0] == "func":
            return FuncRef(k[1])
        if k[0] == "class":
            return ClassRef(k[1], k[2])
        if k[0] == "global":
            return self.ev(k[2], {}, self.module_ctx(k[1]))
        if k[0] == "module":
            return ExtRef(k[1].name)
        return ExtRef(k[1])

    def ev_Name(self, n, env, ctx):
        return self.lookup_name(n.id, n, env, ctx)

    def literal_string(self, v):
        """the Python string a domain value stands for, when it is a literal (domains that keep constants override this)"""
        return v.value if isinstance(v, StaticV) and isinstance(v.value, str) else None

    def _namedtuple_fields(self, cref):
        info = cref.module.classes.get(cref.name) if hasattr(cref.module, "classes") else None
        if not info:
            return None
        for b in info["bases"]:
            if isinstance(b, ast.Call) and (dotted_of(b.func) or "").split(".")[-1] == "namedtuple" and len(b.args) >= 2:
                try:
                    fl = ast.literal_eval(b.args[1])
                except (ValueError, SyntaxError):
                    return None
                if isinstance(fl, str):
                    fl = fl.replace(",", " ").split()
                return list(fl) if all(isinstance(x, str) for x in fl) else None
        return None

    def h_star_element(self, v, n, env, ctx):
        """`*x` in a display where x is not known item by item: the display holds x's items - abstractly, whatever x holds"""
        return v

    def _elts(self, n, env, ctx):
        """elements of a tuple / list / set display; `*x` is spliced when x is a tuple known item by item"""
        out = []
        for e in n.elts:
            if isinstance(e, ast.Starred):
                v = self.ev(e.value, env, ctx)
                if isinstance(v, TupleV):
                    out.extend(v.items)
                else:
                    out.append(self.h_star_element(v, n, env, ctx))
            else:
                out.append(self.ev(e, env, ctx))
        return out

    def ev_Tuple(self, n, env, ctx):
        return self.h_seq("tuple", self._elts(n, env, ctx), n, ctx)

    def ev_List(self, n, env, ctx):
        return self.h_seq("list", self._elts(n, env, ctx), n, ctx)

    def ev_Set(self, n, env, ctx):
        return self.h_seq("set", self._elts(n, env, ctx), n, ctx)

    def ev_Dict(self, n, env, ctx):
        ks = [self.ev(k, env, ctx) if k is not None else None for k in n.keys]
        vs = [self.ev(v, env, ctx) for v in n.values]
        return self.h_dict(ks, vs, n, ctx)

    def ev_Starred(self, n, env, ctx):
        return self.ev(n.value, env, ctx)

    def ev_JoinedStr(self, n, env, ctx):
        vals = [self.ev(v.value, env, ctx) for v in n.values if isinstance(v, ast.FormattedValue)]
        return self.h_fstring(vals, n, ctx)

    def ev_Attribute(self, n, env, ctx):
        v = self.ev(n.value, env, ctx)
        return self.attr_of(v, n.attr, n, env, ctx)

    def attr_of(self, v, attr, n, env, ctx):
        if isinstance(v, FuncRef) and attr in ("__name__", "__qualname__", "__code__", "__defaults__"):
            f = v.func
            if attr in ("__name__", "__qualname__"):
                return StaticV(f.name)
            if attr == "__code__":
                return CodeV(f)
            ds = [p_ for p_ in f.posparams if p_ in f.defaults]
            if not ds:
                return StaticV(None)
            return TupleV([self.h_default(f, p_, f.defaults[p_], ctx) for p_ in ds], ARGS)
        if isinstance(v, CodeV):
            if attr == "co_argcount":
                return StaticV(len(v.func.posparams))
            if attr == "co_varnames":
                rest = sorted(x for x in v.func.locals if x not in v.func.posparams and x not in v.func.kwonly)
                return TupleV([StaticV(x) for x in list(v.func.posparams) + list(v.func.kwonly) + rest], ARGS)
            raise Inconclusive("code object attribute .%s not modelled" % attr, n)
        if isinstance(v, NamedTupleV) and attr in v.fields:
            return v.items[v.fields.index(attr)]
        if isinstance(v, ExtRef):
            return self.global_value(v.dotted + "." + attr, n, ctx)
        if isinstance(v, ObjV):
            f = self.prog.method(v.module, v.cls, attr)
            if f is not None and getattr(f, "is_static", False):
                return FuncRef(f)
            if f is not None and getattr(f, "is_property", False):
                return self.call_repo(f, v, [], {}, n, env, ctx)
            if f is not None:
                return BoundMethod(v, f)
            if attr in v.attrs:
                return v.attrs[attr]
            return self.h_attr(v, attr, n, env, ctx)
        if isinstance(v, ClassRef):
            f = self.prog.method(v.module, v.name, attr)
            if f is not None and getattr(f, "is_static", False):
                return FuncRef(f)
        if isinstance(v, SuperV):
            f = self.prog.base_method(v.module, v.cls, attr)
            if f is None:
                raise Inconclusive("super().%s not found" % attr, n)
            return BoundMethod(v.obj, f)
        return self.h_attr(v, attr, n, env, ctx)

    def ev_slice(self, s, env, ctx):
        return self.ev(s, env, ctx)

    def ev_Slice(self, n, env, ctx):
        lo = self.ev(n.lower, env, ctx) if n.lower is not None else None
        up = self.ev(n.upper, env, ctx) if n.upper is not None else None
        st = self.ev(n.step, env, ctx) if n.step is not None else None
        return self.h_slice(lo, up, st, n, ctx)

    def ev_Subscript(self, n, env, ctx):
        base = self.ev(n.value, env, ctx)
        if is_static(base):
            r = self.static_subscript(base, n, env, ctx)
            if r is not NOTSTATIC:
                return r
            base = self.dom(base, ctx)
        idx = self.ev_slice(n.slice, env, ctx)
        return self.h_subscript(base, self.dom(idx, ctx), n, env, ctx)

    def ev_UnaryOp(self, n, env, ctx):
        v = self.ev(n.operand, env, ctx)
        if is_static(v):
            if isinstance(n.op, ast.Not):
                return StaticV(not self.static_truth(v))
            if isinstance(v, StaticV) and isinstance(v.value, (int, float)) and isinstance(n.op, (ast.USub, ast.UAdd)):
                return StaticV(-v.value if isinstance(n.op, ast.USub) else v.value)
            v = self.dom(v, ctx)
        return self.h_unary(n.op, v, n, ctx)

    def ev_BoolOp(self, n, env, ctx):
        vals = [self.ev(v, env, ctx) for v in n.values]
        if any(is_static(v) for v in vals):
            if all(is_static(v) for v in vals):
                for v in vals[:-1]:
                    t = self.static_truth(v)
                    if (isinstance(n.op, ast.Or) and t) or (isinstance(n.op, ast.And) and not t):
                        return v
                return vals[-1]
            # a static operand that cannot be the result is dropped; the rest is the domain's business
            keep = []
            for i, v in enumerate(vals):
                if is_static(v) and i < len(vals) - 1:
                    t = self.static_truth(v)
                    if (isinstance(n.op, ast.Or) and not t) or (isinstance(n.op, ast.And) and t):
                        continue
                    if not keep:
                        return v        # decides the whole expression
                keep.append(self.dom(v, ctx))
            if len(keep) == 1:
                return keep[0]
            vals = keep
        return self.h_boolop(n.op, vals, n, ctx)

    _ARITH = {ast.Add: lambda a, b: a + b, ast.Sub: lambda a, b: a - b, ast.Mult: lambda a, b: a * b, ast.FloorDiv: lambda a, b: a // b,
              ast.Mod: lambda a, b: a % b}
    _CMP = {ast.Eq: lambda a, b: a == b, ast.NotEq: lambda a, b: a != b, ast.Lt: lambda a, b: a < b, ast.LtE: lambda a, b: a <= b,
            ast.Gt: lambda a, b: a > b, ast.GtE: lambda a, b: a >= b, ast.Is: lambda a, b: a is b, ast.IsNot: lambda a, b: a is not b}

    def ev_BinOp(self, n, env, ctx):
        l, r = self.ev(n.left, env, ctx), self.ev(n.right, env, ctx)
        if is_static(l) or is_static(r):
            if isinstance(n.op, ast.Add) and isinstance(l, TupleV) and isinstance(r, TupleV):
                return TupleV(list(l.items) + list(r.items), ARGS)
            okl, cl = self.static_of(n.left, l)
            okr, cr = self.static_of(n.right, r)
            f = self._ARITH.get(type(n.op))
            if okl and okr and f is not None and not (isinstance(n.op, ast.Mod) and isinstance(cl, str)):
                try:
                    return StaticV(f(cl, cr))
                except Exception:
                    pass
            l, r = self.dom(l, ctx), self.dom(r, ctx)
        return self.h_binop(n.op, l, r, n, ctx)

    def ev_Compare(self, n, env, ctx):
        vals = [self.ev(n.left, env, ctx)] + [self.ev(c, env, ctx) for c in n.comparators]
        if len(n.ops) == 1 and any(is_static(v) for v in vals):
            l, r = vals
            op = n.ops[0]
            okl, cl = self.static_of(n.left, l)
            if isinstance(op, (ast.In, ast.NotIn)) and okl and isinstance(r, KwV) and r.rest is not None and cl not in r.items:
                raise Inconclusive("membership test on a **kwargs mapping whose keywords are not all known", n)
            if isinstance(op, (ast.In, ast.NotIn)) and okl and (isinstance(r, KwV) or (isinstance(r, TupleV) and all(isinstance(x, StaticV) for x in r.items))):
                inside = cl in (r.items if isinstance(r, KwV) else [x.value for x in r.items])
                return StaticV(inside if isinstance(op, ast.In) else not inside)
            okr, cr = self.static_of(n.comparators[0], r)
            f = self._CMP.get(type(op))
            if okl and okr and f is not None:
                try:
                    return StaticV(bool(f(cl, cr)))
                except Exception:
                    pass
        vals = [self.dom(v, ctx) for v in vals]
        return self.h_compare(n.ops, vals, n, ctx)

    def ev_IfExp(self, n, env, ctx):
        tv = self.ev(n.test, env, ctx)
        if is_static(tv):
            return self.ev(n.body if self.static_truth(tv) else n.orelse, env, ctx)
        self.h_test(tv, n.test, "ifexp", env, ctx)
        e1 = self.h_assume(tv, n.test, True, self.fork_env(env), ctx)
        e2 = self.h_assume(tv, n.test, False, self.fork_env(env), ctx)
        ctx.pc.append((tv, n.test, None))
        try:
            bv = self.ev(n.body, e1, ctx) if e1 is not None else None
            ov = self.ev(n.orelse, e2, ctx) if e2 is not None else None
        finally:
            ctx.pc.pop()
        # analysis state changed inside a branch (e.g. `seed(s) if s is not None else None`) flows back
        feas = [e for e in (e1, e2) if e is not None]
        if feas:
            st = self._state_only(feas[0])
            for e in feas[1:]:
                st = self.join_env(st, self._state_only(e))
            for k, v in st.items():
                env[k] = v
        return self.h_ifexp(tv, bv, ov, n, ctx)

    def ev_Lambda(self, n, env, ctx):
        return Closure(n, env, ctx)

    def ev_NamedExpr(self, n, env, ctx):
        v = self.ev(n.value, env, ctx)
        self.assign(n.target, v, env, ctx, n)
        return self.lookup_name(n.target.id, n.target, env, ctx) if isinstance(n.target, ast.Name) else v

    def _comp(self, n, env, ctx, kind):
        e = {"$outer": env}
        for k, v in env.items():
            if k.startswith("$") and k != "$outer":
                e[k] = v

        def rec(gi):
            if gi == len(n.generators):
                if kind == "dict":
                    return (self.ev(n.key, e, ctx), self.ev(n.value, e, ctx))
                return self.ev(n.elt, e, ctx)
            g = n.generators[gi]
            itv = self.ev(g.iter, e, ctx)
            self.assign(g.target, self.h_iter(itv, g.iter, ctx), e, ctx, n)
            for c in g.ifs:
                tv = self.ev(c, e, ctx)
                self.h_test(tv, c, "filter", e, ctx)
                ctx.pc.append((tv, c, True))
            try:
                return rec(gi + 1)
            finally:
                for c in g.ifs:
                    ctx.pc.pop()

        r = rec(0)
        # propagate state pseudo variables back (effects inside comprehensions)
        for k, v in e.items():
            if k.startswith("$") and k != "$outer":
                env[k] = v
        if kind == "dict":
            return self.h_comp(kind, r[1], n, ctx, key=r[0])
        return self.h_comp(kind, r, n, ctx)

    def static_rooted(self, node, env, ctx):
        """can this expression evaluate to a static tuple / dict?  Only names, subscripts, attributes and a few builtins rooted
        in a variable that holds a static value can - nothing else is evaluated twice (evaluation records facts / effects)."""
        root = node
        for _ in range(12):
            if isinstance(root, ast.Call):
                if isinstance(root.func, ast.Name) and root.func.id in ("zip", "enumerate", "reversed", "sorted", "tuple", "list") and root.args:
                    root = root.args[0]
                else:
                    root = root.func
            elif isinstance(root, (ast.Subscript, ast.Attribute)):
                root = root.value
            else:
                break
        if not isinstance(root, ast.Name):
            return False
        try:
            rv = self.lookup_name(root.id, root, env, ctx)
        except Inconclusive:
            return False
        return is_static(rv)

    def _comp_static(self, n, env, ctx, kind):
        """comprehension over a tuple the interpreter knows item by item (args[:n], kwargs.items(), ...): one element per item"""
        if len(n.generators) != 1 or n.generators[0].is_async:
            return NOTSTATIC
        e = {"$outer": env}
        for k, v in env.items():
            if k.startswith("$") and k != "$outer":
                e[k] = v
        g = n.generators[0]
        if not self.static_rooted(g.iter, e, ctx):
            return NOTSTATIC
        itv = self.ev(g.iter, e, ctx)
        if isinstance(itv, KwV):
            itv = TupleV([StaticV(k) for k in itv.items], ARGS)
        if not (isinstance(itv, TupleV) and itv.kind == ARGS):
            return NOTSTATIC
        out = []
        for item in itv.items:
            self.assign(g.target, item, e, ctx, n)
            keep = True
            for c in g.ifs:
                tv = self.ev(c, e, ctx)
                if not is_static(tv):
                    raise Inconclusive("comprehension over the arguments with a filter that is not decided", n)
                keep = keep and self.static_truth(tv)
            if keep:
                out.append((self.ev(n.key, e, ctx), self.ev(n.value, e, ctx)) if kind == "dict" else self.ev(n.elt, e, ctx))
        for k, v in e.items():
            if k.startswith("$") and k != "$outer":
                env[k] = v
        if kind == "dict":
            if all(isinstance(k, StaticV) and isinstance(k.value, str) for k, _ in out):
                return KwV({k.value: v for k, v in out})
            raise Inconclusive("dict comprehension over the arguments with keys that are not literals", n)
        return TupleV(out, ARGS)

    def ev_ListComp(self, n, env, ctx):
        r = self._comp_static(n, env, ctx, "list")
        return r if r is not NOTSTATIC else self._comp(n, env, ctx, "list")

    def ev_SetComp(self, n, env, ctx):
        r = self._comp_static(n, env, ctx, "set")
        return r if r is not NOTSTATIC else self._comp(n, env, ctx, "set")

    def ev_GeneratorExp(self, n, env, ctx):
        r = self._comp_static(n, env, ctx, "gen")
        return r if r is not NOTSTATIC else self._comp(n, env, ctx, "gen")

    def ev_DictComp(self, n, env, ctx):
        r = self._comp_static(n, env, ctx, "dict")
        return r if r is not NOTSTATIC else self._comp(n, env, ctx, "dict")

    # ------------------------------------------------------------------- calls
    def _collected(self, n, env, ctx):
        """list(G) / set(G) / tuple(G) / sorted(G) with G a generator of this module (a generator function call, or an object whose __iter__ is one):
        the elements are collected by the loop `for x in G: tmp.append(x)`, which the generator fusion reads -> the AST of the collection, or None"""
        if not (isinstance(n.func, ast.Name) and n.func.id in ("list", "set", "tuple", "sorted", "frozenset", "sum", "max", "min") and n.func.id not in env and len(n.args) == 1 and not n.keywords):
            return None
        g = n.args[0]
        if isinstance(g, (ast.GeneratorExp, ast.ListComp, ast.Starred)) or "$outer" in env:
            return None
        tmp, x = "_collected_%d_%d" % (n.lineno, n.col_offset), "_item_%d_%d" % (n.lineno, n.col_offset)
        loop = ast.For(ast.Name(x, ast.Store()), g, [ast.Expr(ast.Call(ast.Attribute(ast.Name(tmp, ast.Load()), "append", ast.Load()), [ast.Name(x, ast.Load())], []))], [], None)
        first = ast.Assign([ast.Name(tmp, ast.Store())], ast.List([], ast.Load()))
        for st in (first, loop):
            ast.copy_location(st, n)
            ast.fix_missing_locations(st)
        if self._fuse_generator(loop, env, ctx) is None:
            return None
        out = self.exec_block([first, loop], env, ctx)
        if out is None:
            raise Inconclusive("collecting a generator leaves the function", n)
        if out is not env:
            for k_, v_ in out.items():
                env[k_] = v_
        val = env.pop(tmp)
        env.pop(x, None)
        if n.func.id == "list":
            return val
        env[tmp] = val
        try:
            return self.ev(ast.copy_location(ast.Call(n.func, [ast.copy_location(ast.Name(tmp, ast.Load()), n)], []), n), env, ctx)
        finally:
            env.pop(tmp, None)

    def ev_Call(self, n, env, ctx):
        self.call_sites += 1
        if isinstance(n.func, ast.Name) and n.func.id in ("list", "set", "tuple", "sorted", "frozenset", "sum", "max", "min"):
            got = self._collected(n, env, ctx)
            if got is not None:
                return got
        # super()
        if isinstance(n.func, ast.Name) and n.func.id == "super" and not n.args and "super" not in env:
            if ctx.self_obj is None or ctx.cls is None:
                raise Inconclusive("super() outside a method", n)
            return SuperV(ctx.self_obj, ctx.mod, ctx.cls)
        recv = None
        if isinstance(n.func, ast.Attribute):
            recv = self.ev(n.func.value, env, ctx)
            fv = self.attr_of_callable(recv, n.func.attr, n, env, ctx)
        else:
            fv = self.ev(n.func, env, ctx)
        args = []
        for a in n.args:
            if isinstance(a, ast.Starred):
                v = self.ev(a.value, env, ctx)
                if isinstance(v, TupleV):
                    args.extend(v.items)
                else:
                    args.append(("*", v))
            else:
                args.append(self.ev(a, env, ctx))
        kwargs = {}
        for k in n.keywords:
            v = self.ev(k.value, env, ctx)
            if k.arg is None:
                if isinstance(v, KwV):
                    if v.persistent:
                        self.persistent_reads.append((v.oid, ctx.qname, getattr(n, "lineno", 0), norm(n)[:100]))
                    kwargs.update(v.items)
                    if v.rest is not None:
                        kwargs["**"] = v.rest
                else:
                    kwargs["**"] = v
            else:
                kwargs[k.arg] = v
        if fv is _METHOD:
            if isinstance(recv, KwV):
                return self.kw_method(recv, n.func.attr, n, args, kwargs, env, ctx)
            return self.h_call_method(self.dom(recv, ctx) if isinstance(recv, StaticV) else recv, n.func.attr, n, [self.dom(a, ctx) for a in args],
                                      {k: self.dom(v, ctx) for k, v in kwargs.items()}, env, ctx)
        if isinstance(fv, ExtRef):
            if fv.dotted in self.STATIC_BUILTINS and any(is_static(a) for a in args):
                r = self.static_builtin(fv.dotted, n, args, kwargs, ctx)
                if r is not NOTSTATIC:
                    return r
            if fv.dotted in ("functools.wraps", "functools.update_wrapper"):
                return ExtRef("functools.wraps()")          # applied to the wrapper: the wrapper itself
            if fv.dotted == "functools.wraps()" and len(args) == 1:
                return args[0]
            args = [self.dom(a, ctx) for a in args]
            kwargs = {k: self.dom(v, ctx) for k, v in kwargs.items()}
        elif not isinstance(fv, Closure):
            args = [self.dom(a, ctx) if isinstance(a, StaticV) else a for a in args]
            kwargs = {k: (self.dom(v, ctx) if isinstance(v, StaticV) else v) for k, v in kwargs.items()}
        return self.apply(fv, args, kwargs, n, env, ctx)

    def attr_of_callable(self, recv, attr, n, env, ctx):
        if isinstance(recv, (ExtRef, ObjV, SuperV)):
            if isinstance(recv, ObjV) and self.prog.method(recv.module, recv.cls, attr) is None and attr not in recv.attrs:
                return _METHOD
            return self.attr_of(recv, attr, n.func, env, ctx)
        return _METHOD

    def apply(self, fv, args, kwargs, n, env, ctx):
        if isinstance(fv, RawRef):
            f = fv.func
            self._raw_once = f.qname
            if f.is_method:
                if not args or (isinstance(args[0], tuple) and len(args[0]) == 2 and args[0][0] == "*"):
                    raise Inconclusive("undecorated method %s called without an explicit self" % f.qname, n)
                return self.call_repo(f, args[0], args[1:], kwargs, n, env, ctx)
            return self.call_repo(f, None, args, kwargs, n, env, ctx)
        if isinstance(fv, FuncRef):
            return self.call_repo(fv.func, None, args, kwargs, n, env, ctx)
        if isinstance(fv, BoundMethod):
            return self.call_repo(fv.func, fv.obj, args, kwargs, n, env, ctx)
        if isinstance(fv, ClassRef):
            obj = self.h_new(fv.module, fv.name, n, ctx)
            init = self.prog.method(fv.module, fv.name, "__init__")
            if init is not None:
                self.call_repo(init, obj, args, kwargs, n, env, ctx)
            elif isinstance(obj, ObjV):
                # class X(namedtuple('X', [...])): no __init__ of its own - the arguments are the fields of the record
                fields = self._namedtuple_fields(fv)
                if fields is not None and not any(isinstance(a, tuple) and len(a) == 2 and a[0] == "*" for a in args) and "**" not in kwargs and \
                        len(args) <= len(fields) and not (set(kwargs) - set(fields)):
                    vals = dict(zip(fields, args))
                    vals.update(kwargs)
                    if set(vals) == set(fields):
                        obj.attrs.update(vals)
            return obj
        if isinstance(fv, ObjV):
            call = self.prog.method(fv.module, fv.cls, "__call__")
            if call is not None:
                return self.call_repo(call, fv, args, kwargs, n, env, ctx)       # obj(...) is obj.__call__(...)
        if isinstance(fv, ExtRef) and fv.dotted == "getattr" and len(args) == 2 and not kwargs and isinstance(args[0], ExtRef) and isinstance(n, ast.Call) and len(n.args) == 2:
            # getattr(np.random, 'normal') with a name that is a literal on this path: the attribute itself
            nm = self.literal_string(args[1])
            if nm is not None and nm.isidentifier():
                return self.global_value(args[0].dotted + "." + nm, n, ctx)
        if isinstance(fv, Closure):
            return self.call_closure(fv, args, kwargs, n, env, ctx)
        if isinstance(fv, NamedTupleCls):
            if any(isinstance(a, tuple) and len(a) == 2 and a[0] == "*" for a in args) or "**" in kwargs:
                raise Inconclusive("star-argument construction of namedtuple %s not modelled" % fv.name, n)
            vals = dict(zip(fv.fields, args))
            if len(args) > len(fv.fields) or set(kwargs) - set(fv.fields) or set(kwargs) & set(vals):
                raise Inconclusive("namedtuple %s constructed with arguments that do not fit its fields" % fv.name, n)
            vals.update(kwargs)
            nd = len(fv.defaults)
            for k_, fld in enumerate(fv.fields):
                if fld not in vals:
                    j_ = k_ - (len(fv.fields) - nd)
                    if j_ < 0:
                        raise Inconclusive("namedtuple %s constructed without its field %s" % (fv.name, fld), n)
                    vals[fld] = fv.defaults[j_]
            return NamedTupleV([vals[fld] for fld in fv.fields], fv.fields)
        if isinstance(fv, ExtRef) and fv.dotted == "len" and len(args) == 1 and not kwargs and isinstance(args[0], ObjV):
            m_ = self.prog.method(args[0].module, args[0].cls, "__len__")
            if m_ is not None:
                return self.call_repo(m_, args[0], [], {}, n, env, ctx)
        if isinstance(fv, ExtRef) and fv.dotted == "collections.namedtuple" and len(args) >= 2 and not (set(kwargs) - {"defaults"}):
            # namedtuple('Name', ['a', 'b']) / 'a b' / 'a, b': a record class with these fields
            nm = fl = None
            if isinstance(n, ast.Call) and len(n.args) >= 2 and not any(isinstance(a_, ast.Starred) for a_ in n.args):
                try:
                    nm, fl = ast.literal_eval(n.args[0]), ast.literal_eval(n.args[1])
                except (ValueError, SyntaxError):
                    nm = fl = None
            if isinstance(fl, str):
                fl = fl.replace(",", " ").split()
            if isinstance(nm, str) and isinstance(fl, (list, tuple)) and all(isinstance(x_, str) for x_ in fl):
                dv = kwargs.get("defaults")
                dl = list(dv.items) if isinstance(dv, TupleV) else []
                if dv is None or isinstance(dv, TupleV):
                    return NamedTupleCls(nm, fl, dl)
        if isinstance(fv, ExtRef):
            if self.model_partial and fv.dotted == "functools.partial" and args and not any(isinstance(a, tuple) and a and a[0] == "*" for a in args[:1]) \
                    and isinstance(args[0], (ExtRef, FuncRef, Closure, BoundMethod, PartialV)):
                return PartialV(args[0], args[1:], kwargs, n)
            return self.h_call_ext(fv.dotted, n, args, kwargs, env, ctx)
        if isinstance(fv, PartialV):
            kw = dict(fv.kwargs)
            kw.update(kwargs)
            return self.apply(fv.fv, list(fv.args) + list(args), kw, n, env, ctx)
        return self.h_call_opaque(fv, n, args, kwargs, env, ctx)

    def bind_args(self, func_like, posparams, defaults, vararg, kwarg, args, kwargs, n, ctx, missing):
        bound = {}
        pos = [a for a in args]
        if any(isinstance(a, tuple) and len(a) == 2 and a[0] == "*" for a in pos):
            raise Inconclusive("star-argument call not modelled", n)
        for p, a in zip(posparams, pos):
            bound[p] = a
        if len(pos) > len(posparams):
            if vararg:
                bound[vararg] = TupleV(pos[len(posparams):], ARGS)
            else:
                raise CallFormError("too many positional arguments", n)
        elif vararg:
            bound[vararg] = TupleV([], ARGS)
        if kwarg:
            bound[kwarg] = KwV()
        for k, v in kwargs.items():
            if k == "**":
                if kwarg:
                    bound[kwarg].rest = v       # unknown further keywords: they can only end up in the callee's own **kwargs
                    continue
                raise Inconclusive("**kwargs call not modelled", n)
            if k in posparams or k in getattr(func_like, "kwonly", ()):
                if k in bound:
                    raise CallFormError("argument %s given twice" % k, n)
                bound[k] = v
            elif kwarg:
                bound[kwarg].items[k] = v
            else:
                raise CallFormError("unexpected keyword argument %s" % k, n)
        if kwarg and isinstance(bound.get(kwarg), KwV) and bound[kwarg].rest is not None and not bound[kwarg].items and not isinstance(func_like, _FakeFunc):
            bound[kwarg] = bound[kwarg].rest         # a repository function gets the abstract mapping itself
        for p in list(posparams) + list(getattr(func_like, "kwonly", ())):
            if p not in bound:
                if p in defaults:
                    bound[p] = defaults[p](p)
                else:
                    bound[p] = missing(p)
        return bound

    def call_closure(self, clo, args, kwargs, n, env, ctx):
        node = clo.node
        a = node.args
        posparams = [x.arg for x in a.posonlyargs + a.args]
        nd = len(a.defaults)
        dmap = {}
        for p, d in zip(posparams[len(posparams) - nd:], a.defaults):
            dmap[p] = (lambda _p, d=d: self.ev(d, clo.env, clo.ctx))
        entry_bind, self._entry_bind = self._entry_bind, None
        try:
            bound = self.bind_args(_FakeFunc(node), posparams, dmap, a.vararg.arg if a.vararg else None,
                                   a.kwarg.arg if a.kwarg else None, args, kwargs, n, ctx,
                                   lambda p: self.h_missing_arg(_FakeFunc(node), p, n, ctx))
        except CallFormError as e:
            if entry_bind is not None:
                # the outermost wrapper of an analysed entry point does not accept a call its function accepts
                self.signature_mismatch.append((entry_bind, CALL_FORM[0], CALL_FORM[1], e.why, getattr(node, "lineno", 0)))
            raise
        e = {"$outer": clo.env}
        for k, v in env.items():
            if k.startswith("$") and k != "$outer":
                e[k] = v
        e.update(bound)
        if isinstance(node, ast.Lambda):
            r = self.ev(node.body, e, clo.ctx if clo.ctx is not None else ctx)
        else:
            sub = Ctx(clo.ctx.func if clo.ctx else None, clo.ctx.mod if clo.ctx else ctx.mod, clo.ctx.cls if clo.ctx else None,
                      ctx.stack, parent=ctx)
            sub.self_obj = clo.ctx.self_obj if clo.ctx else None
            out = self.exec_block(node.body, e, sub)
            r = None
            for v, _, _ in sub.rets:
                r = v if r is None else self.join_generic(r, v)
            if out is not None:
                r = self.h_none(ctx) if r is None else self.join_generic(r, self.h_none(ctx))
            ctx.effects.extend(sub.effects)
            ctx.raises.extend(sub.raises)
        for k, v in e.items():
            if k.startswith("$") and k != "$outer":
                env[k] = v
        return r

    def call_repo(self, func, selfobj, args, kwargs, n, env, ctx):
        """call of a repository function *by its name*: through its decorators, if it has any"""
        if self._raw_once == func.qname:
            self._raw_once = None
            if func.qname in DECORATED_ENTRIES and func.qname + "@entry" in ctx.stack and not any(q == func.qname for q in ctx.stack):
                self.raw_calls.setdefault(func.qname, []).append((list(args), dict(kwargs), CALL_FORM[0], CALL_FORM[1]))
                args, kwargs = self.h_raw_entry_args(func, args, kwargs, n, ctx)
                self.force_interpret.add(func.qname)
                try:
                    return self.call_repo_raw(func, selfobj, args, kwargs, n, env, ctx)
                finally:
                    self.force_interpret.discard(func.qname)
            return self.call_repo_raw(func, selfobj, args, kwargs, n, env, ctx)
        self._raw_once = None
        if func.decorators:
            return self.call_decorated(func, selfobj, args, kwargs, n, env, ctx)
        return self.call_repo_raw(func, selfobj, args, kwargs, n, env, ctx)

    STATELESS_VALUES = (ast.Constant, ast.Name, ast.Attribute, ast.Subscript, ast.BinOp, ast.UnaryOp, ast.Compare, ast.Tuple, ast.Lambda, ast.IfExp, ast.BoolOp)

    def decorated_value(self, func, n, env, ctx):
        """evaluate `@d1 @d2 def f` = d1(d2(f)): the callable bound to the function's name"""
        dv = RawRef(func)
        mctx = self.module_ctx(func.module)
        for d in reversed(func.decorators):
            if isinstance(d, ast.Call):
                fac = self.ev(d.func, {}, mctx)
                if isinstance(fac, FuncRef):
                    self.force_interpret.add(fac.func.qname)
                    self.decorator_funcs.add(fac.func.qname)
                fargs = [StaticV(a.value) if isinstance(a, ast.Constant) else self.ev(a, {}, mctx) for a in d.args]
                fkw = {k.arg: (StaticV(k.value.value) if isinstance(k.value, ast.Constant) else self.ev(k.value, {}, mctx)) for k in d.keywords}
                if any(k is None for k in fkw):
                    raise Inconclusive("decorator factory called with **kwargs", d)
                decf = self.apply(fac, fargs, fkw, d, env, ctx)
            else:
                decf = self.ev(d, {}, mctx)
            if not isinstance(decf, (FuncRef, Closure)):
                raise Inconclusive("decorator %s is not a function defined in the repository" % norm(d)[:60], d)
            if isinstance(decf, FuncRef):
                self.force_interpret.add(decf.func.qname)
                self.decorator_funcs.add(decf.func.qname)
            dv = self.apply(decf, [dv], {}, d, env, ctx)
            if not isinstance(dv, (Closure, FuncRef)):
                raise Inconclusive("decorator %s does not return a function the analysis can follow" % norm(d)[:60], d)
            if isinstance(dv, Closure):
                self.mark_persistent(dv, d)
        return dv

    def mark_persistent(self, clo, d):
        """objects built while the function is being decorated live as long as the module: a dict in the wrapper's closure is
        shared by all calls.  Static dicts are tracked (writes are recorded); any other mutable closure state is not modelled."""
        e = clo.env
        seen = 0
        while e is not None and seen < 8:
            for k, v in e.items():
                if isinstance(v, KwV):
                    v.persistent = True
            e = e.get("$outer")
            seen += 1
        # the decorator's own body: anything but definitions, constants and the return of the wrapper is state
        owner = clo.ctx.func if clo.ctx is not None else None
        if owner is not None:
            for st in owner.node.body:
                if isinstance(st, (ast.FunctionDef, ast.Return, ast.Pass)) or (isinstance(st, ast.Expr) and isinstance(st.value, ast.Constant)):
                    continue
                if isinstance(st, ast.Assign) and (isinstance(st.value, self.STATELESS_VALUES) or self._static_call(st.value)):
                    continue
                raise Inconclusive("the decorator %s keeps state between calls (%s): not modelled" % (owner.qname, norm(st)[:60]), st)

    def _static_call(self, v):
        """dict(zip(names, defaults)) and the like: evaluated into a tracked static dict / tuple"""
        return isinstance(v, ast.Call) and isinstance(v.func, ast.Name) and v.func.id in ("dict", "tuple", "zip", "len", "sorted")

    def call_decorated(self, func, selfobj, args, kwargs, n, env, ctx):
        eb, self._entry_bind = self._entry_bind, None       # decorators are applied first; only the call of the result is the entry call
        dv = self.decorated_value(func, n, env, ctx)
        self._entry_bind = eb if isinstance(dv, Closure) else None
        self.decorated_ok.add(func.qname)
        a2 = ([selfobj] if func.is_method and selfobj is not None else []) + list(args)
        return self.apply(dv, a2, kwargs, n, env, ctx)

    def enter(self, func, selfobj, bound, env, ctx, n=None):
        """analyse a decorated function as an entry point: the caller's arguments go through the wrapper, in the current call form"""
        params = [p_ for p_ in func.params if p_ in bound]
        DECORATED_ENTRIES[func.qname] = len(params)
        npos = len([p_ for p_ in params if p_ not in func.kwonly])
        k = npos if CALL_FORM[0] is None else min(CALL_FORM[0], npos)
        args = [bound[p_] for p_ in params[:k]]
        kws = params[k:][::-1] if CALL_FORM[1] else params[k:]
        kwargs = {p_: bound[p_] for p_ in kws}
        if func.kwarg and func.kwarg in bound:
            kwargs["**"] = bound[func.kwarg]         # the entry point's own **kwargs: an unknown mapping, handed on as such
        if func.vararg and func.vararg in bound and any(isinstance(x, ast.Name) and x.id == func.vararg for x in ast.walk(func.node)):
            raise Inconclusive("an entry point that uses its *args behind a decorator is not modelled", n or func.node)
        sub = Ctx(func, func.module, func.cls, ctx.stack + (func.qname + "@entry",), parent=ctx)
        sub.self_obj = selfobj
        self._entry_bind = func.qname
        try:
            r = self.call_decorated(func, selfobj, args, kwargs, n or func.node, env, sub)
        finally:
            self._entry_bind = None
        summ = Summary(r, list(sub.effects), list(sub.raises))
        summ.state = self._state_only(env)
        return summ

    def call_repo_raw(self, func, selfobj, args, kwargs, n, env, ctx):
        posparams = func.posparams[1:] if func.is_method else func.posparams
        dmap = {p: (lambda _p, func=func: self.h_default(func, _p, func.defaults[_p], ctx)) for p in func.defaults}
        bound = self.bind_args(func, posparams, dmap, func.vararg, func.kwarg, args, kwargs, n, ctx,
                               lambda p: self.h_missing_arg(func, p, n, ctx))
        bound = {p: self.h_param(func, p, v, ctx) for p, v in bound.items()}
        if getattr(func, "is_generator", False) and not func.decorators and not func.vararg and not func.kwarg:
            return GenV(func, selfobj, bound)                # a generator object: the body has not started
        summ = self.summary(func, selfobj, bound, env, ctx, n)
        self._last_call = (summ, bound)
        self.h_apply_effects(summ.effects, func, bound, n, env, ctx)
        for r in summ.raises:
            ctx.raises.append(r)
        return summ.ret

    def state_key(self, env):
        return tuple(sorted((k, repr(v)) for k, v in env.items() if k.startswith("$") and k not in ("$outer", "$mu")))

    def summary(self, func, selfobj, bound, env, ctx, n=None):
        if func.decorators and ctx.func is None and not ctx.stack:
            return self.enter(func, selfobj, bound, env, ctx, n)      # an entry point with decorators: analysed through them
        key = (func.qname, self.key(selfobj) if selfobj is not None else None,
               tuple((p, self.key(v)) for p, v in sorted(bound.items())), self.state_key(env))
        if key in self.memo:
            s = self.memo[key]
            self._restore_state(s, env)
            return s
        if key in self.inprogress:
            self.inprogress[key].used = True      # recursion: the caller iterates to a fixpoint
            return self.inprogress[key]
        if len(ctx.stack) > 60:
            raise Inconclusive("call depth exceeded at %s" % func.qname, n)
        cur = Summary(self.h_bottom(func), [], [])
        cur.state = None
        self.inprogress[key] = cur
        self.visited_funcs.add(func.qname)
        try:
            for _ in range(MAX_ITER):
                sub = Ctx(func, func.module, func.cls, ctx.stack + (func.qname,), parent=ctx)
                sub.self_obj = selfobj
                e = {}
                for k, v in env.items():
                    if k.startswith("$") and k not in ("$outer", "$mu"):
                        e[k] = v
                if func.is_method:
                    e[func.posparams[0]] = selfobj
                e.update(bound)
                self.h_enter(func, e, sub)
                out = self.exec_block(func.node.body, e, sub)
                ret = None
                exit_env = None
                for v, _, renv in sub.rets:
                    ret = v if ret is None else self.join_generic(ret, v)
                    exit_env = self.join_env(exit_env, self._state_only(renv))
                if out is not None:
                    nv = self.h_none(sub)
                    ret = nv if ret is None else self.join_generic(ret, nv)
                    exit_env = self.join_env(exit_env, self._state_only(out))
                if len(sub.rets) + (1 if out is not None else 0) > 1:
                    # several exits: a domain that tracks path conditions can say *which* value is returned when
                    r2 = self.h_returns(list(sub.rets) + ([(self.h_none(sub), None, out)] if out is not None else []), e, sub)
                    if r2 is not None:
                        ret = r2
                new = Summary(ret, list(sub.effects), list(sub.raises))
                new.state = exit_env
                pout = {}
                for _, _, renv in sub.rets:
                    for p_ in bound:
                        if p_ in renv:
                            pout[p_] = renv[p_] if p_ not in pout else self.join_generic(pout[p_], renv[p_])
                if out is not None:
                    for p_ in bound:
                        if p_ in out:
                            pout[p_] = out[p_] if p_ not in pout else self.join_generic(pout[p_], out[p_])
                cur.params_out = pout
                stable = (cur.ret is None and ret is None) or (cur.ret is not None and ret is not None and self.v_same(cur.ret, ret))
                cur.ret, cur.effects, cur.raises, cur.state = new.ret, new.effects, new.raises, new.state
                if stable or not cur.used:
                    break
            else:
                raise Inconclusive("summary of %s did not stabilise" % func.qname, n)
        finally:
            del self.inprogress[key]
        self.memo[key] = cur
        self._restore_state(cur, env)
        return cur

    def _state_only(self, env):
        return {k: v for k, v in env.items() if k.startswith("$") and k not in ("$outer", "$mu")}

    def _restore_state(self, summ, env):
        st = getattr(summ, "state", None)
        if st:
            for k, v in st.items():
                env[k] = v

    # =================================================================== statements
    def exec_block(self, stmts, env, ctx):
        for s in stmts:
            if env is None:
                return None
            self.h_stmt(s, env, ctx)
            m = getattr(self, "st_" + type(s).__name__, None)
            if m is None:
                raise Inconclusive("statement kind %s not modelled" % type(s).__name__, s)
            env = m(s, env, ctx)
        return env

    def st_Expr(self, s, env, ctx):
        v = s.value
        if isinstance(v, ast.Call) and len(v.args) == 2 and isinstance(v.args[0], ast.Name) and not any(isinstance(a, ast.Starred) for a in v.args) and \
                all(k.arg == "where" for k in v.keywords) and len(v.keywords) <= 1 and self.prog.canon(self._dotted_in(v.func, ctx)) == "numpy.copyto":
            # np.copyto(dst, src, where=mask) is the statement dst[mask] = src[mask] (dst[...] = src without a mask): read as that store by every domain
            if v.keywords:
                m = v.keywords[0].value
                st = ast.Assign([ast.Subscript(v.args[0], m, ast.Store())], ast.Subscript(v.args[1], m, ast.Load()))
            else:
                st = ast.Assign([ast.Subscript(v.args[0], ast.Constant(Ellipsis), ast.Store())], v.args[1])
            ast.copy_location(st, s)
            ast.fix_missing_locations(st)
            return self.st_Assign(st, env, ctx)
        self.ev(s.value, env, ctx)
        return env

    def _dotted_in(self, node, ctx):
        """the dotted name an expression like np.copyto stands for in this module (import aliases resolved), or ''"""
        d = dotted_of(node) or ""
        head, _, rest = d.partition(".")
        base = ctx.mod.imports.get(head) if hasattr(ctx.mod, "imports") else None
        return (base + ("." + rest if rest else "")) if base else d

    def st_Pass(self, s, env, ctx):
        return env

    def st_Import(self, s, env, ctx):
        for a in s.names:
            if a.asname:
                env[a.asname] = ExtRef(self.prog.canon(a.name))
            else:
                env[a.name.split(".")[0]] = ExtRef(a.name.split(".")[0])
        return env

    def st_ImportFrom(self, s, env, ctx):
        for a in s.names:
            env[a.asname or a.name] = self.global_value("%s.%s" % (s.module, a.name), s, ctx)
        return env

    def st_FunctionDef(self, s, env, ctx):
        for d in s.decorator_list:
            dn = dotted_of(d.func if isinstance(d, ast.Call) else d) or ""
            if dn.split(".")[-1] != "wraps":
                raise Inconclusive("decorator @%s on the nested function %s not modelled" % (dn, s.name), s)
        env[s.name] = Closure(s, env, ctx)
        return env

    SELF_COPY_NOOP = False      # value domains: `A = A.copy()` of a parameter that is only read afterwards leaves every value as it was

    def st_Assign(self, s, env, ctx):
        if self.SELF_COPY_NOOP and ctx.func is not None and s in _noop_self_copies(ctx.func.node):
            src = _noop_self_copies(ctx.func.node)[s]
            if src.id == s.targets[0].id:
                return env
            self.assign(s.targets[0], self.ev(src, env, ctx), env, ctx, s)
            return env
        v = self.ev(s.value, env, ctx)
        for t in s.targets:
            self.assign(t, v, env, ctx, s)
        return env

    def st_AnnAssign(self, s, env, ctx):
        if s.value is not None:
            self.assign(s.target, self.ev(s.value, env, ctx), env, ctx, s)
        return env

    def st_AugAssign(self, s, env, ctx):
        t = s.target
        val = self.ev(s.value, env, ctx)
        if isinstance(t, ast.Name):
            cur = self.lookup_name(t.id, t, env, ctx)
            env[t.id] = self.h_bind(t.id, self.h_augassign(s.op, cur, val, s, env, ctx), s, env, ctx)
        elif isinstance(t, ast.Subscript):
            base = self.ev(t.value, env, ctx)
            idx = self.ev_slice(t.slice, env, ctx)
            nb = self.h_store_sub(base, idx, val, t, env, ctx, aug=s.op)
            if nb is not None:
                self.rebind(t.value, nb, env, ctx)
        elif isinstance(t, ast.Attribute):
            obj = self.ev(t.value, env, ctx)
            cur = self.attr_of(obj, t.attr, t, env, ctx)
            self.h_store_attr(obj, t.attr, self.h_augassign(s.op, cur, val, s, env, ctx), t, env, ctx)
        else:
            raise Inconclusive("augmented assignment target not modelled", s)
        return env

    def assign(self, t, v, env, ctx, stmt):
        if isinstance(t, ast.Name):
            if t.id in env.get("$globals", ()):
                v = self.h_global_store(ctx.mod, t.id, v, stmt, env, ctx)
            env[t.id] = self.h_bind(t.id, v, stmt, env, ctx)
            if "$mu" in env and t.id in env["$mu"]:
                env["$mu"] = env["$mu"] - {t.id}
        elif isinstance(t, (ast.Tuple, ast.List)):
            if any(isinstance(e, ast.Starred) for e in t.elts):
                raise Inconclusive("starred assignment target not modelled", t)
            if isinstance(v, TupleV) and len(v.items) == len(t.elts):
                for e, x in zip(t.elts, v.items):
                    self.assign(e, x, env, ctx, stmt)
            else:
                parts = self.h_unpack(v, len(t.elts), t, ctx)
                for e, x in zip(t.elts, parts):
                    self.assign(e, x, env, ctx, stmt)
        elif isinstance(t, ast.Subscript):
            base = self.ev(t.value, env, ctx)
            idx = self.ev_slice(t.slice, env, ctx)
            nb = self.h_store_sub(base, idx, v, t, env, ctx)
            if nb is not None:
                self.rebind(t.value, nb, env, ctx)
        elif isinstance(t, ast.Attribute):
            obj = self.ev(t.value, env, ctx)
            self.h_store_attr(obj, t.attr, v, t, env, ctx)
        else:
            raise Inconclusive("assignment target not modelled", t)

    def h_unpack(self, v, k, n, ctx):
        x = self.h_iter(v, n, ctx)
        return [x] * k

    def rebind(self, node, newval, env, ctx):
        """weak update of the variable an lvalue expression is rooted in"""
        if isinstance(node, ast.Name):
            if node.id in env:
                env[node.id] = newval
            else:
                e = env
                while "$outer" in e:
                    e = e["$outer"]
                    if node.id in e:
                        e[node.id] = newval
                        return
                env[node.id] = newval
        elif isinstance(node, ast.Attribute):
            obj = self.ev(node.value, env, ctx)
            if isinstance(obj, ObjV):
                obj.attrs[node.attr] = newval
        elif isinstance(node, ast.Subscript):
            base = self.ev(node.value, env, ctx)
            idx = self.ev_slice(node.slice, env, ctx)
            nb = self.h_rebind_sub(base, idx, newval, node, env, ctx)
            if nb is not None:
                self.rebind(node.value, nb, env, ctx)

    def h_rebind_sub(self, base, idx, newval, node, env, ctx):
        return None

    def _quantifier_as_loop(self, s, env, ctx):
        """`return all(c for x in gen(...))` / `return any(...)` over a *generator function* of the repository: the loop with an early return that the
        builtin abbreviates (for x in gen(...): if not c: return False / return True) - which the generator fusion of st_For can then read"""
        v = s.value
        if not (isinstance(v, ast.Call) and isinstance(v.func, ast.Name) and v.func.id in ("all", "any") and v.func.id not in env and len(v.args) == 1 and not v.keywords
                and isinstance(v.args[0], ast.GeneratorExp)):
            return None
        ge = v.args[0]
        g0 = ge.generators[0].iter
        if not (isinstance(g0, ast.Call) and isinstance(g0.func, (ast.Name, ast.Attribute))):
            return None
        probe = ast.For(ge.generators[0].target, g0, [ast.Pass()], [], None)
        ast.copy_location(probe, s)
        ast.fix_missing_locations(probe)
        if self._fuse_generator(probe, env, ctx) is None:
            return None
        is_all = v.func.id == "all"
        test = ast.UnaryOp(ast.Not(), ge.elt) if is_all else ge.elt
        body = ast.If(test, [ast.Return(ast.Constant(not is_all))], [])
        for g in reversed(ge.generators):
            for c in reversed(g.ifs):
                body = ast.If(c, [body], [])
            body = ast.For(g.target, g.iter, [body], [], None)
        out = [body, ast.Return(ast.Constant(is_all))]
        for x in out:
            ast.copy_location(x, s)
            ast.fix_missing_locations(x)
        return out

    def st_Return(self, s, env, ctx):
        q = self._quantifier_as_loop(s, env, ctx) if s.value is not None else None
        if q is not None:
            return self.exec_block(q, env, ctx)
        v = self.ev(s.value, env, ctx) if s.value is not None else self.h_none(ctx)
        v = self.h_return(v, s, env, ctx)
        ctx.rets.append((v, s, env))
        return None

    def st_Raise(self, s, env, ctx):
        h = getattr(ctx, "handling", None)
        if h is not None and (s.exc is None or (isinstance(s.exc, ast.Name) and s.exc.id == h[0].name and s.cause is None)):
            # `raise` / `raise e` inside `except ... as e`: the exception that was caught travels on unchanged
            for item in h[1]:
                ctx.raises.append(item)
            return None
        v = self.ev(s.exc, env, ctx) if s.exc is not None else None
        self.h_raise(v, s, env, ctx)
        ctx.raises.append((v, s, env))
        return None

    def st_Assert(self, s, env, ctx):
        tv = self.ev(s.test, env, ctx)
        self.h_test(tv, s.test, "assert", env, ctx)
        if s.msg is not None:
            self.ev(s.msg, env, ctx)
        e = self.h_assume(tv, s.test, True, env, ctx)
        return e

    def st_Delete(self, s, env, ctx):
        for t in s.targets:
            if isinstance(t, ast.Name):
                env.pop(t.id, None)
            elif isinstance(t, ast.Subscript):
                # del x[i]  is  x.__delitem__(i): a mutating method call on x
                fake = ast.Call(func=ast.Attribute(value=t.value, attr="__delitem__", ctx=ast.Load()), args=[t.slice], keywords=[])
                ast.copy_location(fake, s)
                ast.copy_location(fake.func, s)
                recv = self.ev(t.value, env, ctx)
                idx = self.ev_slice(t.slice, env, ctx)
                self.h_call_method(recv, "__delitem__", fake, [idx], {}, env, ctx)
            else:
                raise Inconclusive("del of an attribute not modelled", s)
        return env

    def st_Global(self, s, env, ctx):
        env["$globals"] = frozenset(set(env.get("$globals", ())) | set(s.names))
        return env

    def st_Nonlocal(self, s, env, ctx):
        raise Inconclusive("nonlocal statement not modelled", s)

    def h_global_store(self, module, name, v, n, env, ctx):
        raise Inconclusive("assignment to the module-level variable %s is not modelled in this domain" % name, n)

    def h_global_load(self, module, name, n, env, ctx):
        raise Inconclusive("read of the mutable module-level variable %s is not modelled in this domain" % name, n)

    def st_If(self, s, env, ctx):
        tv = self.ev(s.test, env, ctx)
        if is_static(tv):
            return self.exec_block(s.body if self.static_truth(tv) else s.orelse, env, ctx)
        lit = self.literal_truth(tv, s.test)
        if lit is not None:
            # a flag that is a literal on this path (keyword or default of an inlined helper): only one branch exists
            return self.exec_block(s.body if lit else s.orelse, env, ctx)
        self.h_test(tv, s.test, "if", env, ctx)
        e1 = self.h_assume(tv, s.test, True, self.fork_env(env), ctx)
        e2 = self.h_assume(tv, s.test, False, self.fork_env(env), ctx)
        ctx.pc.append((tv, s.test, True))
        try:
            o1 = self.exec_block(s.body, e1, ctx) if e1 is not None else None
            ctx.pc[-1] = (tv, s.test, False)
            o2 = self.exec_block(s.orelse, e2, ctx) if e2 is not None else None
        finally:
            ctx.pc.pop()
        return self.join_env(o1, o2)

    @staticmethod
    def _uncontinue(stmts):
        """`if c: A; continue` followed by REST is `if c: A else: REST` (guard clauses and early ends of one round of a loop body); None when a
        `continue` / `break` remains that this reading does not cover"""
        def leaves(sts):
            for st in sts:
                if isinstance(st, (ast.Continue, ast.Break)):
                    return True
                if isinstance(st, (ast.For, ast.While, ast.FunctionDef, ast.AsyncFunctionDef, ast.ClassDef)):
                    continue
                for fld in ("body", "orelse", "finalbody"):
                    sub = getattr(st, fld, None)
                    if isinstance(sub, list) and leaves(sub):
                        return True
                for h in getattr(st, "handlers", []) or []:
                    if leaves(h.body):
                        return True
            return False

        def rec(sts):
            out = []
            for k_, st in enumerate(sts):
                if isinstance(st, ast.If) and st.body and isinstance(st.body[-1], ast.Continue) and not leaves(st.body[:-1]) and not leaves(st.orelse):
                    rest = rec(list(st.orelse) + list(sts[k_ + 1:]))
                    if rest is None:
                        return None
                    new = ast.If(st.test, list(st.body[:-1]) or [ast.copy_location(ast.Pass(), st)], rest or [ast.copy_location(ast.Pass(), st)])
                    out.append(ast.copy_location(new, st))
                    return out
                out.append(st)
            return None if leaves(out) else out
        return rec(list(stmts))

    def _unrolled(self, s, items, env, ctx):
        """for-loop over a tuple the interpreter knows item by item (*args, kwargs.items(), zip(names, args), ...)"""
        body_ = self._uncontinue(s.body)
        if body_ is not None and body_ is not s.body:
            import copy as _copy
            s = _copy.copy(s)
            s.body = body_
        ctx.loops.append({"breaks": [], "conts": []})
        cur, brk = env, None
        try:
            for item in items:
                if cur is None:
                    break
                lp = ctx.loops[-1]
                lp["conts"] = []
                body_env = self.fork_env(cur)
                self.assign(s.target, item, body_env, ctx, s)
                out = self.exec_block(s.body, body_env, ctx)
                for c in lp["conts"]:
                    out = self.join_env(out, c)
                cur = out
            for b in ctx.loops[-1]["breaks"]:
                brk = self.join_env(brk, b)
        finally:
            ctx.loops.pop()
        if s.orelse and cur is not None:
            cur = self.exec_block(s.orelse, cur, ctx)
        return self.join_env(cur, brk)

    def _loop(self, s, env, ctx, is_for):
        if is_for and isinstance(s.iter, (ast.Tuple, ast.List)) and 0 < len(s.iter.elts) <= 8 and not any(isinstance(e_, ast.Starred) for e_ in s.iter.elts) \
                and any(isinstance(e_, (ast.Tuple, ast.List)) for e_ in s.iter.elts):
            # for (x, flag) in ((a, False), (b, True)): a loop over a literal display of records is the sequence of its bodies
            return self._unrolled(s, [self.ev(e_, env, ctx) for e_ in s.iter.elts], env, ctx)
        if is_for and isinstance(s.iter, ast.Name):
            # the same with the display bound to a name first (a local `stages = ((a, f), (b, g))`, a module-level dispatch table)
            try:
                tv_ = self.ev(s.iter, env, ctx)
            except Inconclusive:
                tv_ = None
            if isinstance(tv_, TupleV) and tv_.kind != ARGS and 0 < len(tv_.items) <= 8 and all(isinstance(x_, TupleV) for x_ in tv_.items):
                return self._unrolled(s, list(tv_.items), env, ctx)
        if is_for and self.static_rooted(s.iter, env, ctx):
            itv0 = self.ev(s.iter, env, ctx)
            if isinstance(itv0, KwV):
                itv0 = TupleV([StaticV(k) for k in itv0.items], ARGS)
            if isinstance(itv0, TupleV) and itv0.kind == ARGS:
                return self._unrolled(s, list(itv0.items), env, ctx)
        ctx.loops.append({"breaks": [], "conts": []})
        cur = env
        exit_env = None
        try:
            if is_for:
                itv = self.ev(s.iter, cur, ctx)
            for it in range(MAX_ITER):
                lp = ctx.loops[-1]
                lp["breaks"], lp["conts"] = [], []
                if is_for:
                    itv = self.ev(s.iter, cur, ctx) if it else itv
                    body_env = dict(cur)
                    self.h_test(itv, s.iter, "for", body_env, ctx)
                    self.assign(s.target, self.h_iter(itv, s.iter, ctx), body_env, ctx, s)
                    ctx.pc.append((itv, s.iter, None))
                    exit_base = cur
                else:
                    tv = self.ev(s.test, cur, ctx)
                    self.h_test(tv, s.test, "while", cur, ctx)
                    body_env = self.h_assume(tv, s.test, True, dict(cur), ctx)
                    exit_base = self.h_assume(tv, s.test, False, dict(cur), ctx)
                    ctx.pc.append((tv, s.test, True))
                try:
                    out = self.exec_block(s.body, body_env, ctx) if body_env is not None else None
                finally:
                    ctx.pc.pop()
                for c in lp["conts"]:
                    out = self.join_env(out, c)
                brk = None
                for b in lp["breaks"]:
                    brk = self.join_env(brk, b)
                new = self.join_env(cur, out) if out is not None else cur
                exit_env = exit_base
                self._brk = brk
                if self.same_env(new, cur):
                    break
                cur = new
            else:
                raise Inconclusive("loop did not stabilise", s)
            # one more evaluation of the exit condition on the stable state
            if not is_for:
                tv = self.ev(s.test, cur, ctx)
                exit_env = self.h_assume(tv, s.test, False, dict(cur), ctx)
            else:
                exit_env = cur
            brk = self._brk
        finally:
            ctx.loops.pop()
        if s.orelse and exit_env is not None:
            exit_env = self.exec_block(s.orelse, exit_env, ctx)
        return self.join_env(exit_env, brk)

    def st_For(self, s, env, ctx):
        fused = self._fuse_generator(s, env, ctx)
        if fused is not None:
            return self.exec_block(fused, env, ctx)
        e_ = s.iter
        while isinstance(e_, ast.Attribute):
            e_ = e_.value
        if isinstance(e_, ast.Name) and not isinstance(s.iter, ast.Call) and (e_.id in env or e_.id == "self"):
            # `for x in obj`: obj of a class of the repository with an ordinary __iter__ is iterated through what that method returns
            try:
                ov = self.ev(s.iter, env, ctx)
            except Inconclusive:
                ov = None
            if isinstance(ov, ObjV) and self.prog.method(ov.module, ov.cls, "__iter__") is not None:
                import copy
                s2 = copy.copy(s)
                s2.iter = ast.copy_location(ast.Call(ast.Attribute(s.iter, "__iter__", ast.Load()), [], []), s.iter)
                ast.fix_missing_locations(s2.iter)
                return self._loop(s2, env, ctx, True)
        return self._loop(s, env, ctx, True)

    def _fuse_generator(self, s, env, ctx):
        """`for T in gen(args): BODY` with gen a generator function of the same module whose body only yields at statement level:
        the loop is the generator's body with every `yield e` replaced by `T = e; BODY` (locals of the generator renamed apart).
        Refused (-> None, the loop is analysed as written) whenever this reading could differ from Python's: BODY leaves the loop
        by break / continue, the generator returns, yields inside try / with, `yield from`, a yield used as an expression."""
        import copy
        it, counter = s.iter, False
        if isinstance(it, ast.Call) and isinstance(it.func, ast.Name) and it.func.id == "enumerate" and len(it.args) == 1 and not it.keywords and "enumerate" not in env:
            it, counter = it.args[0], True
        def plain(e):
            # a name or an attribute chain: evaluating it twice has no effect
            while isinstance(e, ast.Attribute):
                e = e.value
            return isinstance(e, ast.Name)
        if s.orelse:
            return None
        genv = None
        if not isinstance(it, ast.Call):
            # `for x in obj` with obj an instance of a class of this module whose __iter__ is a generator: the loop over obj.__iter__()
            if not plain(it) or (isinstance(it, ast.Name) and it.id not in env):
                return None
            try:
                ov = self.ev(it, env, ctx)
            except Inconclusive:
                return None
            if isinstance(ov, GenV):
                genv = ov
            if genv is None:
                if not isinstance(ov, ObjV) or self.prog.method(ov.module, ov.cls, "__iter__") is None:
                    return None
                it = ast.copy_location(ast.Call(ast.Attribute(it, "__iter__", ast.Load()), [], []), it)
                ast.fix_missing_locations(it)
        if genv is not None:
            return self._fuse_body(s, genv.func, counter, None, ctx, env, values=dict(genv.bound, **({genv.func.posparams[0]: genv.selfobj} if genv.func.is_method else {})))
        if not isinstance(it.func, (ast.Name, ast.Attribute)):
            return None
        if isinstance(it.func, ast.Name) and (it.func.id in env or ctx.func is not None and it.func.id in ctx.func.locals):
            return None
        func = None
        if isinstance(it.func, ast.Name):
            k = self.prog.lookup("%s.%s" % (ctx.mod.name, it.func.id))
            func = k[1] if k[0] == "func" else None
        else:
            if not plain(it.func.value) or (isinstance(it.func.value, ast.Name) and it.func.value.id not in env and it.func.value.id != "self"):
                return None
            try:
                ov = self.ev(it.func.value, env, ctx)
            except Inconclusive:
                return None
            if not isinstance(ov, ObjV):
                return None
            func = self.prog.method(ov.module, ov.cls, it.func.attr)
        return self._fuse_body(s, func, counter, it, ctx, env)

    def _fuse_body(self, s, func, counter, it, ctx, env, values=None):
        import copy
        if func is None or not getattr(func, "is_generator", False) or func.decorators or func.qname in ctx.stack or \
                (ctx.func is not None and func.qname == ctx.func.qname) or func.vararg or func.kwarg:
            return None
        if values is None and func.module is not ctx.mod:
            return None
        if not hasattr(self, "fused_funcs"):
            self.fused_funcs = set()
        self.fused_funcs.add(func.qname)            # read through the loop that consumes it: the source lints look at it as well
        from .loader import _own_nodes

        def leaves_loop(stmts):
            # break / continue that belong to *this* loop (not to a loop nested in BODY)
            for st in stmts:
                if isinstance(st, (ast.Break, ast.Continue)):
                    return True
                if isinstance(st, (ast.For, ast.While, ast.FunctionDef, ast.AsyncFunctionDef, ast.ClassDef)):
                    continue
                for fld in ("body", "orelse", "finalbody", "handlers"):
                    sub = getattr(st, fld, None)
                    if isinstance(sub, list) and leaves_loop([x.body if isinstance(x, ast.ExceptHandler) else x for x in sub if not isinstance(x, ast.ExceptHandler)] +
                                                             [y for x in sub if isinstance(x, ast.ExceptHandler) for y in x.body]):
                        return True
            return False
        body_ = s.body
        if leaves_loop(body_):
            # guard clauses at the top level of BODY (`if c: continue`) are the rest of BODY under `else`; anything else that leaves the loop is not read
            def unguard(stmts):
                out_ = []
                for k_, st in enumerate(stmts):
                    if isinstance(st, ast.If) and not st.orelse and len(st.body) == 1 and isinstance(st.body[0], ast.Continue):
                        rest = unguard(stmts[k_ + 1:])
                        if rest is None:
                            return None
                        out_.append(ast.copy_location(ast.If(st.test, [ast.copy_location(ast.Pass(), st)], rest or [ast.copy_location(ast.Pass(), st)]), st))
                        return out_
                    out_.append(st)
                return None if leaves_loop(out_) else out_
            body_ = unguard(list(body_))
            if body_ is None:
                raise Inconclusive("a loop over a generator of the repository leaves its body by break / continue in a way the generator fusion does not read", s)
            s = copy.copy(s)
            s.body = body_
        # a bare `return` directly in the generator's last, outermost loop ends the iteration: it is `break` of that loop (nothing follows it)
        returns_as_break = set()
        gstmts = [st for st in func.node.body if not (isinstance(st, ast.Expr) and isinstance(st.value, ast.Constant) and isinstance(st.value.value, str))]
        if gstmts and isinstance(gstmts[-1], (ast.For, ast.While)) and not gstmts[-1].orelse:
            def collect(stmts):
                for st in stmts:
                    if isinstance(st, ast.Return) and st.value is None:
                        returns_as_break.add(id(st))
                    elif isinstance(st, ast.If):
                        collect(st.body)
                        collect(st.orelse)
            collect(gstmts[-1].body)
        for n in _own_nodes(func.node):
            if isinstance(n, (ast.Try, ast.With, ast.Global, ast.Nonlocal)) or (isinstance(n, ast.Return) and id(n) not in returns_as_break):
                return None
        yields = [n for n in _own_nodes(func.node) if isinstance(n, (ast.Yield, ast.YieldFrom))]
        stmt_yields = [n for n in _own_nodes(func.node) if isinstance(n, ast.Expr) and isinstance(n.value, (ast.Yield, ast.YieldFrom))]
        if len(yields) != len(stmt_yields) or any(y.value.value is None for y in stmt_yields):
            return None
        # bind the arguments
        params = list(func.posparams)
        pre = "_g%d_" % getattr(s, "lineno", 0)
        binds = []
        if values is not None:
            # the generator object was created earlier: its arguments are values, bound directly
            if func.module is not ctx.mod and any(isinstance(n, ast.Name) and n.id not in func.locals and n.id not in params and n.id not in func.kwonly and
                                                  n.id in func.module.globals for n in _own_nodes(func.node)):
                return None            # free names would resolve in another module
            for p_, v_ in values.items():
                env[pre + p_] = v_
        else:
            args = list(it.args)
            if any(isinstance(a, ast.Starred) for a in args) or any(k.arg is None for k in it.keywords):
                return None
            if func.is_method:
                binds.append((params[0], it.func.value))
                params = params[1:]
            if len(args) > len(params):
                return None
            given = dict(zip(params, args))
            for k in it.keywords:
                if k.arg in given or k.arg not in params + list(func.kwonly):
                    return None
                given[k.arg] = k.value
            for p_ in params + list(func.kwonly):
                if p_ in given:
                    binds.append((p_, given[p_]))
                elif p_ in func.defaults:
                    binds.append((p_, func.defaults[p_]))
                else:
                    return None
        glocals = set(func.locals) | set(func.posparams) | set(func.kwonly)

        class Ren(ast.NodeTransformer):
            def visit_Name(self, n):
                return ast.copy_location(ast.Name(pre + n.id, n.ctx), n) if n.id in glocals else n

            def visit_FunctionDef(self, n):
                return n

            def visit_Lambda(self, n):
                return n
        cnt = pre + "count"
        out = []
        for p_, e_ in binds:
            out.append(ast.Assign([ast.Name(pre + p_, ast.Store())], e_))
        if counter:
            out.append(ast.Assign([ast.Name(cnt, ast.Store())], ast.Constant(0)))
        target, body = s.target, s.body

        class Yld(ast.NodeTransformer):
            def visit_FunctionDef(self, n):
                return n

            def visit_Lambda(self, n):
                return n

            def visit_Expr(self, n):
                if isinstance(n.value, ast.YieldFrom):
                    # yield from X  is  for v in X: yield v
                    v_ = pre + "yf%d" % getattr(n, "lineno", 0)
                    inner = ast.Expr(ast.Yield(ast.Name(v_, ast.Load())))
                    loop = ast.For(ast.Name(v_, ast.Store()), n.value.value, [ast.copy_location(inner, n)], [], None)
                    loop.body = [x for y in [self.visit_Expr(loop.body[0])] for x in (y if isinstance(y, list) else [y])]
                    return [ast.copy_location(loop, n)]
                if not isinstance(n.value, ast.Yield):
                    return n
                val = n.value.value
                if counter:
                    val = ast.Tuple([ast.Name(cnt, ast.Load()), val], ast.Load())
                new = [ast.Assign([copy.deepcopy(target)], val)] + copy.deepcopy(body)
                if counter:
                    new.append(ast.AugAssign(ast.Name(cnt, ast.Store()), ast.Add(), ast.Constant(1)))
                return [ast.copy_location(x, n) for x in new]
        def as_break(st):
            # (on the original nodes, before copying: the set holds their identities)
            if isinstance(st, ast.Return) and id(st) in returns_as_break:
                return ast.copy_location(ast.Break(), st)
            if isinstance(st, ast.If) and returns_as_break:
                st = copy.copy(st)
                st.body = [as_break(x) for x in st.body]
                st.orelse = [as_break(x) for x in st.orelse]
            return st
        if returns_as_break:
            last = copy.copy(gstmts[-1])
            last.body = [as_break(x) for x in last.body]
            gstmts = gstmts[:-1] + [last]
        gbody = [Yld().visit(Ren().visit(copy.deepcopy(st))) for st in gstmts]
        flat = []
        for x in gbody:
            flat.extend(x if isinstance(x, list) else [x])
        out = [ast.copy_location(x, s) for x in out] + flat
        for x in out:
            ast.fix_missing_locations(x)
        return out

    def st_While(self, s, env, ctx):
        return self._loop(s, env, ctx, False)

    def st_Break(self, s, env, ctx):
        if not ctx.loops:
            raise Inconclusive("break outside loop", s)
        ctx.loops[-1]["breaks"].append(env)
        return None

    def st_Continue(self, s, env, ctx):
        if not ctx.loops:
            raise Inconclusive("continue outside loop", s)
        ctx.loops[-1]["conts"].append(env)
        return None

    def st_With(self, s, env, ctx):
        for it in s.items:
            v = self.h_with(self.ev(it.context_expr, env, ctx), it, ctx)
            if it.optional_vars is not None:
                self.assign(it.optional_vars, v, env, ctx, s)
        return self.exec_block(s.body, env, ctx)

    def st_Try(self, s, env, ctx):
        before = dict(env)
        nr = len(ctx.raises)
        nrets = len(ctx.rets)
        body_out = self.exec_block(s.body, env, ctx)
        raised = ctx.raises[nr:]
        caught, kept = self.split_caught(raised, s.handlers, ctx)
        del ctx.raises[nr:]
        ctx.raises.extend(kept)
        out = None
        if body_out is not None and s.orelse:
            body_out = self.exec_block(s.orelse, body_out, ctx)
        out = body_out
        # state at handler entry: anything between the state before and after the body
        hentry = self.join_env(before, body_out) if body_out is not None else before
        for _, _, renv in caught:
            hentry = self.join_env(hentry, {k: v for k, v in renv.items() if k in hentry or k.startswith("$")})
        for h in s.handlers:
            he = dict(hentry)
            if h.name:
                he[h.name] = self.h_exc_var(h, he, ctx)
            saved = getattr(ctx, "handling", None)
            ctx.handling = (h, list(caught))
            try:
                ho = self.exec_block(h.body, he, ctx)
            finally:
                ctx.handling = saved
            out = self.join_env(out, ho)
        if s.finalbody:
            # `finally` also runs on the way out of a `return` inside the try statement
            for i in range(nrets, len(ctx.rets)):
                v, node, renv = ctx.rets[i]
                k = len(ctx.rets)
                fe = self.exec_block(s.finalbody, self.fork_env(renv), ctx)
                del ctx.rets[k:]           # a return inside `finally` itself is not modelled separately
                if fe is not None:
                    ctx.rets[i] = (v, node, fe)
        if s.finalbody and out is not None:
            out = self.exec_block(s.finalbody, out, ctx)
        return out

    def split_caught(self, raised, handlers, ctx):
        """which of the exceptions recorded in the try body are handled here (by type name)"""
        caught, kept = [], []
        names = set()
        catch_all = False
        for h in handlers:
            if h.type is None:
                catch_all = True
            else:
                ts = h.type.elts if isinstance(h.type, ast.Tuple) else [h.type]
                for t in ts:
                    d = dotted_of(t) or ""
                    names.add(d.split(".")[-1])
        for r in raised:
            tname = exc_type_name(r[1])
            if catch_all or tname in names or "Exception" in names or "BaseException" in names or tname is None:
                caught.append(r)
            else:
                kept.append(r)
        return caught, kept


_METHOD = object()


class _FakeFunc:
    def __init__(self, node):
        self.qname = "<lambda@%d>" % node.lineno
        self.kwonly = [x.arg for x in node.args.kwonlyargs]


def exc_type_name(raise_node):
    """name of the exception class a `raise` statement raises (None when unknown)"""
    if not isinstance(raise_node, ast.Raise) or raise_node.exc is None:
        return None
    e = raise_node.exc
    if isinstance(e, ast.Call):
        e = e.func
    if isinstance(e, ast.IfExp):
        return None
    d = dotted_of(e)
    return d.split(".")[-1] if d else None
