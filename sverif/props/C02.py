"""C02 - ANM samples satisfy the structural assignments row by row (structural part).

Decided: (CASES) the outcome of one loop iteration of ANM.sample for all 8 assignments of {do, shift,
noise} to the variable, as a multiset of tagged draws: do => the do-draw alone; shift (no noise iv.) =>
assignment + original noise + shift draw; noise (no shift) => assignment + new noise; none => assignment
+ original noise; every draw is indexed by the loop variable and called once with n, the assignment is
applied to the already filled columns selected by the boolean mask `column i of the stored matrix != 0`
(one column per parent, increasing index); (ORDER) the loop runs over self.ordering, whose only
definition is topological_ordering(A) in the constructor, on the matrix that is deep-copied into self.A;
(NULL) a None assignment becomes functions.null, which returns 0; (SHAPE) the result is the zeros((n, p))
array filled column by column, p = len(A).
Also decided: (HISTORY) no hidden model state; (OWN) constructor and sampler write nothing they do not own - in particular the
ordering routine leaves the caller's matrix alone; (RNG) one reseed per call, before the loop over the variables.
Not decided: that topological_ordering returns a topological order (C03); numpy broadcasting of user results.
"""
import itertools
from collections import Counter

from .common import *
from ..pred import negate as negate_pred, npred, resolve, conj

EXPLANATION = __doc__
AN = "sempler.anm.ANM."
FULL = ("slice", ("const", None), ("const", None), ("const", None))
FACT = {"do_interventions": "d", "shift_interventions": "s", "noise_interventions": "z"}


EMPTY_DICTS = (("dict", ()), ("ext", "dict", (), ()), ("dictlit", ()), ("dict", (), ()))


def strip_default_dict(t):
    """`x or {}` / `{} if x is None else x` for an intervention dictionary is that dictionary (None = no interventions)"""
    if not isinstance(t, tuple):
        return t
    if t and t[0] == "bool" and t[1] == "or" and len(t[2]) == 2 and t[2][0][0] == "param" and t[2][0][1] in FACT and is_empty_dict(t[2][1]):
        return t[2][0]
    if t and t[0] == "phi" and len(t) == 4:
        c_, a_, b_ = t[1], t[2], t[3]
        for x, y in ((a_, b_), (b_, a_)):
            if is_empty_dict(x) and isinstance(y, tuple) and y[0] == "param" and y[1] in FACT and c_[0] == "cmp" and c_[1] in ("is", "is not") and y in (c_[2], c_[3]):
                return y
    return tuple(strip_default_dict(x) for x in t)


def is_empty_dict(t):
    return isinstance(t, tuple) and (t in EMPTY_DICTS or (len(t) >= 2 and t[0] in ("dict", "dictlit") and not t[1]) or t == ("ext", "dict", (), ()))

from ..sym import subst  # noqa: E402

NODE_VAR = ("$node",)


def node_tables(prog):
    """{attribute: element expression} for the lists the constructor fills with one entry per node, `self.x = [<expr of k> for k in range(p)]`; the entry
    is given over the model's own matrix (self.A) and the placeholder NODE_VAR"""
    from ..sym import subst
    fc = need(prog, AN + "__init__")
    Sc = Sym(prog)
    run_function(Sc, fc)
    st = {}
    for a_ in Sc.select("attrstore", qname=fc.qname):
        st[a_.attr] = None if a_.attr in st else a_.value          # stored once
    PA = ("param", "A")
    lens = [("ext", "len", (PA,), ()), ("sub", ("attr", PA, "shape"), ("const", 0))] + ([st["p"]] if st.get("p") else [])
    out = {}
    for attr, v in st.items():
        if v and v[0] == "comp" and v[1] == "list" and len(v[3]) == 1 and not v[3][0][2] and v[3][0][1][0] == "ext" and v[3][0][1][1] == "range" and \
                len(v[3][0][1][2]) == 1 and v[3][0][1][2][0] in lens:
            m = {("elem", v[3][0][1]): NODE_VAR, PA: ("self", "A")}
            if st.get("A"):
                m[st["A"]] = ("self", "A")
            out[attr] = subst(v[2], m)
    return out


class AnmCases:
    tables = {}

    def __init__(self, val, i, X, n):
        self.val, self.i, self.X, self.n = val, i, X, n
        self.problems = []

    def cond(self, c):
        c = strip_default_dict(c)
        if c[0] == "cmp" and c[1] in ("in", "not in") and c[2] == self.i and c[3][0] == "param" and c[3][1] in FACT:
            v = self.val[FACT[c[3][1]]]
            return v if c[1] == "in" else not v
        if c[0] == "unop" and c[1] == "not":
            return not self.cond(c[2])
        if c[0] == "bool":
            vs = [self.cond(x) for x in c[2]]
            return all(vs) if c[1] == "and" else any(vs)
        if c[0] == "cmp" and c[1] in ("in", "not in") and c[2] == self.i and c[3][0] == "method" and c[3][2] == "keys" and c[3][1][0] == "param":
            v = self.val[FACT[c[3][1][1]]]
            return v if c[1] == "in" else not v
        raise Inconclusive("branch condition is not a membership fact of the loop variable: %s" % fmt(c)[:80])

    def ev(self, t):
        k = t[0]
        if k == "phi":
            c_ = t[1]
            own = [x for x in walk(c_) if isinstance(x, tuple) and x and x[0] == "apply" and isinstance(x[1], tuple) and x[1][0] == "sub" and x[1][2] == self.i
                   and x[1][1] in (("self", "assignments"), ("self", "noise_distributions"))]
            if own:
                # a branch on the *value* an assignment / noise callable returned (its ndim, its truth value, ...): both outcomes
                # must be the same sum of draws, otherwise the term is dropped for some return forms (scalars, 0-d arrays, zeros)
                a_, b_ = self.ev(t[2]), self.ev(t[3])
                if a_ != b_:
                    self.problems.append("whether `%s` enters X[:, i] depends on the value it returns (`%s`): for the other outcome the variable is %s" % (
                        fmt(own[0])[:50], fmt(c_)[:60], dict(b_) if len(b_) < len(a_) else dict(a_)))
                return a_ if len(a_) >= len(b_) else b_
            return self.ev(t[2] if self.cond(t[1]) else t[3])
        if k == "binop" and t[1] == "+":
            return self.ev(t[2]) + self.ev(t[3])
        if k == "ext" and t[1] in ("numpy.transpose", "numpy.asarray", "numpy.array", "numpy.squeeze", "numpy.ravel") and len(t[2]) == 1:
            return self.ev(t[2][0])
        if k == "attr" and t[2] == "T":
            return self.ev(t[1])
        if k == "apply":
            f, args = t[1], t[2]
            if f[0] == "sub" and f[2] == self.i:
                base = f[1]
                tag = None
                if base[0] == "param" and base[1] in FACT:
                    tag = {"d": "DO", "s": "SHIFT", "z": "NEWNOISE"}[FACT[base[1]]]
                elif base == ("self", "noise_distributions"):
                    tag = "NOISE0"
                elif base == ("self", "assignments"):
                    tag = "ASSIGN"
                if tag is None:
                    raise Inconclusive("call of an unrecognised callable table: %s" % fmt(base)[:60])
                if tag == "ASSIGN":
                    self.check_parents(args)
                elif args != (self.n,) or t[3]:
                    self.problems.append("%s draw is called with %s instead of n" % (tag, [fmt(a) for a in args]))
                return Counter([tag])
            if f[0] == "phi" and len(f) == 4:
                # (g if c else h)(n): one of the two callables is called, chosen by c
                return self.ev(("phi", f[1], ("apply", f[2]) + tuple(t[2:]), ("apply", f[3]) + tuple(t[2:])))
            raise Inconclusive("callable is not indexed by the loop variable: %s" % fmt(f)[:80])
        if k == "const" and t[1] == 0:
            return Counter()
        raise Inconclusive("value outside the sum-of-draws fragment: %s" % fmt(t)[:80])

    def check_parents(self, args):
        if len(args) != 1:
            self.problems.append("assignment called with %d arguments" % len(args))
            return
        a = args[0]
        # a per-node table prepared by the constructor (self._parents[i] with self._parents = [<expr of k> for k in range(p)]) is that expression at k = i
        if a[0] == "sub" and a[2][0] == "tuple" and len(a[2][1]) == 2:
            sel = a[2][1][1]
            def untable(t_):
                # self._tab[i], also under a conversion (list(self._tab[i]), np.array(self._tab[i])): the table's expression at k = i
                if isinstance(t_, tuple) and len(t_) == 3 and t_[0] == "sub" and t_[2] == self.i and isinstance(t_[1], tuple) and t_[1][0] == "self" and t_[1][1] in self.tables:
                    return subst(self.tables[t_[1][1]], {NODE_VAR: self.i})
                if isinstance(t_, tuple) and len(t_) == 4 and t_[0] == "ext" and t_[1] in ("list", "sorted", "tuple", "numpy.array", "numpy.asarray") and len(t_[2]) >= 1:
                    return (t_[0], t_[1], (untable(t_[2][0]),) + tuple(t_[2][1:]), t_[3])
                return t_
            sel2 = untable(sel)
            if sel2 != sel:
                a = ("sub", a[1], ("tuple", (a[2][1][0], sel2)))
        colA = ("sub", ("self", "A"), ("tuple", (FULL, self.i)))
        masks = [("cmp", "!=", colA, ("const", 0)), ("method", colA, "astype", (("extref", "bool"),), ()),
                 # index lists in increasing order select the same columns in the same order as the boolean mask
                 ("ext", "numpy.flatnonzero", (colA,), ()), ("sub", ("ext", "numpy.nonzero", (colA,), ()), ("const", 0)),
                 ("sub", ("ext", "numpy.where", (("cmp", "!=", colA, ("const", 0)),), ()), ("const", 0)), ("sub", ("ext", "numpy.where", (colA,), ()), ("const", 0)),
                 ("ext", "numpy.flatnonzero", (("cmp", "!=", colA, ("const", 0)),), ())]
        pa_sorted = ("ext", "sorted", (("call", U + "pa", (self.i, ("self", "A")), (("A", ("self", "A")), ("i", self.i))),), ())
        # the sorted parent list packed into an integer index array (the dtype matters: np.array([]) of a node without parents is a float array, not an index)
        INTS = (("extref", "int"), ("extref", "numpy.intp"), ("extref", "numpy.int64"), ("extref", "numpy.int_"), ("const", "int"), ("const", "intp"), ("const", "int64"))
        pa_arrays = [("ext", fn_, (pa_sorted,), (("dtype", dt_),)) for fn_ in ("numpy.array", "numpy.asarray") for dt_ in INTS] + \
                    [("ext", fn_, (pa_sorted, dt_), ()) for fn_ in ("numpy.array", "numpy.asarray") for dt_ in INTS] + \
                    [("ext", "list", (pa_sorted,), ()), ("ext", "tuple", (pa_sorted,), ())]
        ok = a[0] == "sub" and a[1] == self.X and a[2][0] == "tuple" and len(a[2][1]) == 2 and a[2][1][0] == FULL and \
            (a[2][1][1] in masks or a[2][1][1] == pa_sorted or a[2][1][1] in pa_arrays)
        def decided_form(sel):
            # a mask / index list taken straight from one row or column of self.A at the loop variable, or from a relation helper called on it:
            # these are read, and if they are not one of the accepted spellings they are wrong (children instead of parents, `> 0`, set order)
            slot = lambda t_: t_[0] == "sub" and t_[1] == ("self", "A") and t_[2][0] == "tuple" and len(t_[2][1]) == 2 and self.i in t_[2][1] and FULL in t_[2][1]
            core = sel
            while core[0] == "ext" and core[1] in ("list", "sorted", "tuple", "numpy.array", "numpy.flatnonzero", "numpy.nonzero", "numpy.where") and len(core[2]) == 1:
                core = core[2][0]
            if core[0] == "sub" and is_const(core[2], 0):
                return decided_form(core[1])
            if core[0] == "cmp" and len(core) == 4:
                return slot(core[2]) or slot(core[3])
            if core[0] == "method" and core[2] == "astype":
                return slot(core[1])
            if core[0] == "call" and core[1].startswith(U) and len(core[2]) == 2 and self.i in core[2] and ("self", "A") in core[2]:
                return True
            return slot(core)
        whole = a[0] == "sub" and a[1] == self.X and a[2][0] == "tuple" and len(a[2][1]) == 2 and a[2][1][0] == FULL
        if not ok and whole and not decided_form(a[2][1][1]):
            # the column selection is computed (index arrays prepared before the loop, a helper's result): which columns these are is not read
            raise Inconclusive("the columns handed to the assignment are selected by %s: not read" % fmt(a)[:100])
        if not ok:
            self.problems.append("assignment input is %s, not the filled columns X[:, A[:, i] != 0] of the parents in increasing index" % fmt(a)[:120])


def oracle(d, s, z):
    if d:
        return Counter(["DO"])
    if s and not z:
        return Counter(["ASSIGN", "NOISE0", "SHIFT"])
    if z and not s:
        return Counter(["ASSIGN", "NEWNOISE"])
    if not s and not z:
        return Counter(["ASSIGN", "NOISE0"])
    return None       # shift and noise on the same target: no documented rule (excluded by the property)


def run(prog, rep, tier):
    # the equations a row satisfies are those of the graph / ordering as constructed: both are the model's own objects
    from .common import ctor_copies
    ctor_copies(rep, prog, AN + "__init__", attrs=("A", "ordering"), rule="CTOR.own")
    f = need(prog, AN + "sample")
    S = Sym(prog, inline=inline_helpers(prog, "sempler.anm"))
    summ, _ = run_function(S, f)
    model_history(rep, S, f, {"A", "p", "ordering", "assignments", "noise_distributions"}, "HISTORY.sample")
    loops = [(k, v) for k, v in S.loopinfo.items() if v["func"] == f.qname]
    if len(loops) != 1:
        raise Inconclusive("ANM.sample: expected exactly one loop over the variables", f.node)
    lid, li = loops[0]
    rep.check("ORDER.loop", li["iter"] == ("self", "ordering"), fwhere(f, li["node"]), "variables are generated in the order self.ordering",
              "the loop runs over %s, not over self.ordering" % fmt(li["iter"]))
    if len(li["changed"]) != 1:
        # other variables rebound in the loop body: harmless while each iteration computes them afresh; a value that survives from
        # the iteration of *another* variable and reaches the column that is stored is a draw shared between two variables
        arrays = [k for k in li["changed"] if zeros_of(li["init"].get(k), shapes=[("tuple", (("param", "n"), ("self", "p")))], allow_empty=True)]
        if len(arrays) != 1:
            raise Inconclusive("ANM.sample: loop carries %s" % li["changed"], li["node"])
        main = arrays[0]
        i_ = ("elem", li["iter"])

        def outside_own_slot(t, mu_k):
            # occurrences of the carried variable other than `var[i]` (the slot of the variable being generated)
            if t == mu_k:
                return True
            if not isinstance(t, tuple):
                return False
            if len(t) == 3 and t[0] == "sub" and t[2] == i_:
                # var[i], also after per-slot updates `var[i] = ...` on some paths: the slot of the variable being generated
                def slots(b):
                    if b == mu_k:
                        return []
                    if isinstance(b, tuple) and len(b) == 5 and b[0] == "store" and b[2] == i_:
                        r = slots(b[1])
                        return None if r is None else r + [b[3]]
                    if isinstance(b, tuple) and len(b) == 4 and b[0] == "phi":
                        r1, r2 = slots(b[2]), slots(b[3])
                        return None if r1 is None or r2 is None else r1 + r2 + [b[1]]
                    return None
                vals = slots(t[1])
                if vals is not None:
                    return any(outside_own_slot(v, mu_k) for v in vals)
            return any(outside_own_slot(x, mu_k) for x in t)
        leaked = [k for k in li["changed"] if k != main and outside_own_slot(li["next"][main], ("mu", lid, k))]
        if leaked:
            rep.bad("CASES.carry", fwhere(f, li["node"]), "the column stored for variable i can contain `%s` as it was left by the iteration of another variable "
                    "(it is not recomputed on every path of the loop body): one draw ends up in two variables" % leaked[0])
            raise Inconclusive("ANM.sample: loop carries %s" % li["changed"], li["node"])
        li = dict(li, changed=[main])
    name = li["changed"][0]
    i = ("elem", li["iter"])
    X = ("mu", lid, name)
    n = ("param", "n")
    nxt = strip_default_dict(li["next"][name])          # `x or {}` for an intervention dictionary is that dictionary
    table, bad = {}, []
    try:
        tables = node_tables(prog)
    except Inconclusive:
        tables = {}
    for d, s, z in itertools.product([False, True], repeat=3):
        ev = AnmCases({"d": d, "s": s, "z": z}, i, X, n)
        ev.tables = tables
        try:
            out = stored_value(ev, nxt, X, i)
        except Inconclusive as e:
            rep.unk("CASES.anm", fwhere(f, li["node"]), "outcome table left the recognised idioms: %s" % e.why)
            bad = None
            break
        exp = oracle(d, s, z)
        table["do=%d shift=%d noise=%d" % (d, s, z)] = dict(out)
        if exp is not None and out != exp:
            bad.append("do=%s shift=%s noise=%s: X[:, i] <- %s, expected %s" % (d, s, z, dict(out), dict(exp)))
        bad += ["do=%s shift=%s noise=%s: %s" % (d, s, z, p) for p in ev.problems]
    rep.tables["anm_outcomes"] = table
    if bad is None:
        pass
    elif bad:
        rep.bad("CASES.anm", fwhere(f, li["node"]), bad[0], detail=bad)
    else:
        rep.ok("CASES.anm", fwhere(f, li["node"]), "8 valuations: do alone | assignment(parents) + noise (+ shift | new noise); each draw once, with n")
    # SHAPE
    zeros = ("ext", "numpy.zeros", (("tuple", (n, ("self", "p"))),), ())
    rets = S.select("return", qname=f.qname)
    # np.empty is as good as np.zeros here: the loop runs over self.ordering, a permutation of all p columns, and writes each
    ok = zeros_of(li["init"].get(name), shapes=[zeros[2][0]], allow_empty=True) and len(rets) == 1 and rets[0].value == ("after", lid, name)
    init_ = li["init"].get(name)
    fresh_other_shape = isinstance(init_, tuple) and init_ and init_[0] == "ext" and init_[1] in ("numpy.zeros", "numpy.empty", "numpy.ones", "numpy.full", "numpy.zeros_like")
    if ok:
        rep.ok("SHAPE.result", fwhere(f), "result = zeros((n, self.p)) filled column by column")
    elif fresh_other_shape or (len(rets) == 1 and zeros_of(init_, shapes=[zeros[2][0]], allow_empty=True)):
        # a fresh array of another shape / dtype / fill, or the right array but something else is returned: decided
        rep.bad("SHAPE.result", fwhere(f), "result is not the n x p array filled by the loop")
    else:
        rep.unk("SHAPE.result", fwhere(f), "the array the loop fills is prepared in a way these rules do not read (%s)" % fmt(init_)[:80])
    rep.check("STATE.sample", not S.select("attrstore", qname=f.qname), fwhere(f), "sample does not touch the model's attributes", "sample rebinds model attributes")
    # constructor
    fc = need(prog, AN + "__init__")
    Sc = Sym(prog)
    run_function(Sc, fc)
    st = {a.attr: a.value for a in Sc.select("attrstore", qname=fc.qname)}
    PA = ("param", "A")
    topo = ("call", U + "topological_ordering", (PA,), (("A", PA),))
    copies = (("ext", "copy.deepcopy", (PA,), ()), ("method", PA, "copy", (), ()), ("ext", "numpy.array", (PA,), ()), ("ext", "numpy.copy", (PA,), ()))
    o_ = st.get("ordering", ("const", None))
    # the ordering is computed from the argument or from the (value-equal) copy that is stored
    oko = o_ == topo or (o_[0] == "call" and o_[1] == U + "topological_ordering" and len(o_[2]) == 1 and o_[2][0] in copies and o_[2][0] == st.get("A"))
    rep.check("ORDER.ctor", oko, fwhere(fc), "self.ordering = topological_ordering(A)", "self.ordering is %s" % fmt(o_))
    okA = st.get("A") in copies
    rep.check("ORDER.same-matrix", okA, fwhere(fc), "self.A is a copy of the matrix that was ordered", "self.A is %s, not a copy of A" % fmt(st.get("A", ("const", None))))
    rep.check("SHAPE.p", st.get("p") in (("ext", "len", (PA,), ()), ("sub", ("attr", PA, "shape"), ("const", 0))), fwhere(fc), "p = len(A)", "self.p is %s" % fmt(st.get("p", ("const", None))))
    a = st.get("assignments")
    ok = False
    if a and a[0] == "comp" and a[2][0] == "phi":
        e = ("elem", ("param", "assignments"))
        c, x, y = a[2][1], a[2][2], a[2][3]
        isnone = ("cmp", "is", e, ("const", None))
        notnone = ("cmp", "is not", e, ("const", None))
        null = ("fn", "sempler.functions.null")
        keep = (e, ("ext", "copy.deepcopy", (e,), ()))
        ok = (c == isnone and x == null and y in keep) or (c == notnone and y == null and x in keep)
        ok = ok and a[3][0][1] == ("param", "assignments")
    elif a and a[0] == "after" and a[1] in Sc.loopinfo:
        # the same list built by a loop with append: one element per assignment, in order
        li_ = Sc.loopinfo[a[1]]
        e = ("elem", ("param", "assignments"))
        apps_ = [c_ for c_ in Sc.select("call", qname=fc.qname) if c_.callkind == "method" and c_.target == ".append" and a[1] in c_.loops]
        null = ("fn", "sempler.functions.null")
        keep = (e, ("ext", "copy.deepcopy", (e,), ()))
        if li_["iter"] == ("param", "assignments") and li_["init"].get(a[2]) == ("list", ()) and len(apps_) == 1 and apps_[0].recv == ("mu", a[1], a[2]) and len(apps_[0].loops) == 1:
            v = apps_[0].args[0]
            if v[0] == "phi":
                c, x, y = v[1], v[2], v[3]
                ok = (c == ("cmp", "is", e, ("const", None)) and x == null and y in keep) or (c == ("cmp", "is not", e, ("const", None)) and y == null and x in keep)
        if not ok:
            apps2 = [c_ for c_ in Sc.select("call", qname=fc.qname) if c_.callkind == "method" and c_.target == ".append" and a[1] in c_.loops]
            if li_["iter"] == ("param", "assignments") and len(apps2) == 2:
                # if fun is None: lst.append(null) else: lst.append(deepcopy(fun))
                conds = [(resolve(conj(c_.path)), c_.args[0]) for c_ in apps2]
                isn = npred(("cmp", "is", e, ("const", None)), True)
                vals = {}
                for cs_, v_ in conds:
                    if isn in cs_:
                        vals["none"] = v_
                    elif negate_pred(isn) in cs_:
                        vals["other"] = v_
                ok = vals.get("none") == null and vals.get("other") in keep
    rep.check("NULL.subst", ok, fwhere(fc), "None assignments are replaced by functions.null, the others kept in place", "None is not mapped to functions.null")
    fn = need(prog, "sempler.functions.null")
    Sn = Sym(prog)
    sn, _ = run_function(Sn, fn)
    rep.check("NULL.zero", T(sn.ret) == ("const", 0) and fn.vararg is not None, fwhere(fn), "functions.null(*args) is identically 0", "functions.null does not return 0 for any arguments")
    nd = st.get("noise_distributions")
    rep.check("NOISE.kept", nd in (("ext", "copy.deepcopy", (("param", "noise_distributions"),), ()), ("ext", "list", (("param", "noise_distributions"),), ())), fwhere(fc),
              "noise distributions stored in the given order", "noise distributions are stored as %s" % fmt(nd or ("const", None)))
    # the stored ordering depends on the matrix through its zero pattern only (inherits C03's analysis)
    P, objs = pattern_entries(prog, rep, [(AN + "__init__", "A")])
    obj = objs.get(AN + "__init__")
    if obj is not None and "ordering" in obj.attrs:
        rep.check("PAT.ordering", PT.lvl_of(obj.attrs["ordering"]) <= PT.PAT, fwhere(fc), "the generation order is pattern-only",
                  "the generation order depends on weight values (negative or cancelling weights reorder or drop variables)")
    pattern_method(prog, rep, AN + "sample", ["A"])
    from .common import no_foreign_writes
    no_foreign_writes(rep, prog, AN + "sample")
    # the noise terms of different variables must be different draws: one (re)seed per call, before the loop
    from .C13 import rng_rules
    rng_rules(rep, prog, f, unseeded_live=True)
    # the constructor (and the ordering routine it calls) must leave the caller's matrix alone: the model copies it *afterwards*
    no_foreign_writes(rep, prog, AN + "__init__", rule="OWN.ctor")
    rep.exhaustive = True      # the finite tables (pairs / valuations) are enumerated completely
    rep.require_count("CASES", 1)
    rep.require_count("ORDER", 3)
    rep.tables["oracle"] = {"do": ["DO"], "shift only": ["ASSIGN", "NOISE0", "SHIFT"], "noise only": ["ASSIGN", "NEWNOISE"], "none": ["ASSIGN", "NOISE0"]}
    rep.assume("user callables return what they are documented to return; shift+noise on one target is unspecified and not judged")


def stored_value(ev, nxt, X, i):
    """the value held by column i of X after one iteration (several stores / `+=` on that column are summed up)"""
    def col(t):
        while t[0] == "phi":
            t = t[2] if ev.cond(t[1]) else t[3]
        if t == X:
            return None                        # nothing written (yet)
        if t[0] != "store":
            raise Inconclusive("iteration updates the result array in an unrecognised way: %s" % fmt(t)[:80])
        _, base, idx, val, aug = t
        below = col(base)
        if idx != ("tuple", (FULL, i)):
            ev.problems.append("a draw is stored at %s, not in column i" % fmt(idx))
        if aug is None:
            return ev.ev(val)
        if aug == "+":
            return (below if below is not None else Counter()) + ev.ev(val)
        raise Inconclusive("unsupported update %s= of the result column" % aug)
    out = col(nxt)
    if out is None:
        raise Inconclusive("no store into the result array in this iteration")
    return out
