"""C13 - seeded calls are reproducible regardless of history (structural part).

Decided, for every API of sempler with a `random_state` parameter and everything it calls:
(R1) every reachable draw is a method of a generator built from exactly that parameter, or a draw from
numpy's global stream at a point where, on every path, the stream was just reseeded with exactly that
parameter; (R2) the reseed is guarded by `is not None`, never by truthiness (seed 0); (R3) the seed
expression is the parameter itself (no `or` fallback, constant, clock); (R4) a generator is built from the
seed at most once per call, never in a loop; (R5) with random_state=None the sampling APIs never seed
anything (consecutive unseeded calls differ); (R7) no seeded API writes into its arguments, the model or module
state (ownership analysis), so a repeated call starts from the same data.  The effect summary "reads no random state other than a
stream it (re)seeds from its own argument" is history independent by construction.
Also decided: (R6) the library's own noise factories draw from numpy's global stream only; a generator handed out by a memoised
helper is not 'seeded by this call'; the global stream is never reseeded inside a loop.
"""
from .common import *
from .. import rng as RG

EXPLANATION = __doc__

EXPECTED = ["sempler.lganm.LGANM.__init__", "sempler.lganm.LGANM.sample", "sempler.normal_distribution.NormalDistribution.sample",
            "sempler.anm.ANM.sample", "sempler.generators.dag_avg_deg", "sempler.generators.dag_full",
            "sempler.generators.intervention_targets", "sempler.utils.split_data", "sempler.utils.add_edges",
            "sempler.utils.remove_edges"]
UNSEEDED_LIVE = ["sempler.lganm.LGANM.sample", "sempler.normal_distribution.NormalDistribution.sample", "sempler.anm.ANM.sample"]


def ewhere(e):
    return {"file": e.file, "line": e.site[1], "function": e.site[0], "construct": e.text}


def rng_rules(rep, prog, f, seed_param="random_state", unseeded_live=False):
    try:
        effects, Rg, _ = RG.analyse_api(prog, f, "seeded", seed_param)
    except Inconclusive as e:
        rep.unk("RNG.api", fwhere(f), "randomness analysis left the modelled fragment: %s" % e.why)
        return None
    draws = [e for e in effects if e.kind in ("draw_gen", "draw_global")]
    for e in draws:
        via = " (reached via %s)" % " -> ".join("%s:%d" % c for c in e.chain) if e.chain else ""
        if e.kind == "draw_gen":
            g = e.what
            ok = isinstance(g.seed, RG.SeedV) and g.seed.api == f.qname
            if not ok and isinstance(g.seed, tuple) and g.seed and g.seed[0] == "either":
                alts = g.seed[1:]
                if any(isinstance(a, RG.NoneV) for a in alts) and any(isinstance(a, RG.SeedV) for a in alts):
                    rep.bad("R1.generator", ewhere(e), "with a seed given, this draw comes either from a generator built from it or from an *unseeded* one, depending on a "
                            "test the seeded mode does not decide (e.g. isinstance(%s, int), false for numpy integers): such seeds are silently ignored%s" % (seed_param, via))
                else:
                    rep.unk("R1.generator", ewhere(e), "draw from one of several generators (%r): not decided%s" % (g.seed, via))
                continue
            rep.decide("R1.generator", ok, ewhere(e), "draw from a generator seeded with %s.%s%s" % (f.name, seed_param, via),
                      "draw from a generator that is not seeded with %s's %s (seed: %r)%s" % (f.name, seed_param, g.seed, via))
        else:
            ok = e.state == ("seeded", f.qname)
            if not ok and isinstance(e.state, tuple) and e.state and e.state[0] == "seeded-mixed":
                rep.unk("R1.global", ewhere(e), "the global stream is seeded on every path, but not in the same way on all of them (%s): not decided%s" % ("; ".join(e.state[1])[:120], via))
                continue
            rep.decide("R1.global", ok, ewhere(e), "global-stream draw after a reseed with %s.%s on every path%s" % (f.name, seed_param, via),
                      "draw from numpy's global stream that is not dominated by np.random.seed(%s) of %s (state: %s)%s" % (seed_param, f.name, e.state, via))
    if not draws and any(e.kind == "seed_global" and isinstance(e.what, RG.SeedV) and e.what.api == f.qname for e in effects):
        rep.ok("RNG.api", fwhere(f), "%s seeds numpy's global stream with its %s and draws nothing itself: a seeding helper" % (f.name, seed_param))
    elif not draws:
        rep.unk("RNG.api", fwhere(f), "no random draw reachable from %s although it takes %s" % (f.qname, seed_param))
    for (q, node, rel) in Rg.truthy_seed_tests:
        rep.bad("R2.truthiness", {"file": rel, "line": node.lineno, "function": q, "construct": norm(node)},
                "the seed is tested by truthiness: seed 0 would not be honoured")
    for e in effects:
        if e.kind in ("make_gen", "seed_global"):
            v = e.what.seed if e.kind == "make_gen" else e.what
            if isinstance(v, tuple) and v != ("restored-state",):
                rep.bad("R3.seed-expression", ewhere(e), "seed is derived (%s), not the parameter itself" % (v[0],))
    reseeds = [e for e in effects if e.kind == "seed_global" and e.depth > 0]
    if reseeds:
        e = reseeds[0]
        rep.bad("R4.one-stream", ewhere(e), "numpy's global stream is reseeded inside a loop: every iteration restarts the same stream, so the draws of "
                "different iterations (e.g. the noise terms of different variables) are identical copies of one another")
    gens = [e for e in effects if e.kind == "make_gen" and isinstance(e.what.seed, RG.SeedV) and e.what.seed.api == f.qname]
    sites = {(e.site, e.chain) for e in gens}
    looped = [e for e in gens if e.depth > 0]
    if looped:
        e = looped[0]
        rep.bad("R4.one-stream", ewhere(e), "a generator is built from the integer seed inside a loop (reached via %s): every "
                "iteration restarts the same stream" % (" -> ".join("%s:%d" % c for c in e.chain) or "-"))
    elif len(sites) > 1:
        e = gens[-1]
        rep.bad("R4.one-stream", ewhere(e), "%d generators are built from the same seed in one call" % len(sites))
    elif gens:
        rep.ok("R4.one-stream", ewhere(gens[0]), "one generator per call")
    if not any(i.verdict != PASS_ for i in rep.instances if i.where.get("function") == f.qname and i.rule.startswith("R")):
        pass
    rep.ok("RNG.api", fwhere(f), "%d draw sites reachable from %s, all tied to %s" % (len(draws), f.name, seed_param)) \
        if draws else None
    if unseeded_live:
        d = f.defaults.get(seed_param)
        isnone = isinstance(d, ast.Constant) and d.value is None
        rep.check("R5.default", isnone, fwhere(f), "%s defaults to None" % seed_param, "%s does not default to None" % seed_param)
        eff2, Rg2, _ = RG.analyse_api(prog, f, "unseeded", seed_param)
        seeds = [e for e in eff2 if e.kind == "seed_global"]
        fixed = [e for e in eff2 if e.kind == "make_gen" and not isinstance(e.what.seed, (RG.SeedV, RG.NoneV))]
        if seeds or fixed:
            e = (seeds + fixed)[0]
            rep.bad("R5.unseeded-live", ewhere(e), "with %s=None the call still seeds a stream: consecutive unseeded calls would repeat" % seed_param)
        else:
            rep.ok("R5.unseeded-live", fwhere(f), "with %s=None nothing is seeded" % seed_param)
    return effects


PASS_ = "PASS"


def args_intact(rep, prog, O, f):
    """(R7) a seeded API that writes into its own arguments or (outside __init__) into the model hands the *next* identical call
    different inputs: `f(x, seed); f(x, seed)` would differ although arguments and seed are the same"""
    from .. import own as OW
    try:
        summ, obj = OW.analyse_entry(O, f)
    except Inconclusive as e:
        rep.unk("R7.inputs-intact", fwhere(f), "ownership analysis left the modelled fragment: %s" % e.why)
        return
    bad = False
    for w in summ.effects:
        if not isinstance(w, OW.Write):
            continue
        for l in sorted(OW.caller_owned(w.labels), key=str):
            kind, name = OW.strip_maybe(l)
            if kind in ("S", "SE") and f.name == "__init__":
                continue
            if kind not in ("P", "PE", "S", "SE", "G"):
                continue
            if (w.site[0], name) in (("sempler.utils.cartesian", "out"),):
                continue
            via = (" (via %s)" % " -> ".join("%s:%d" % c for c in w.chain)) if w.chain else ""
            rep.bad("R7.inputs-intact", {"file": w.site[3], "line": w.site[1], "function": w.site[0], "construct": w.site[2]},
                    "%s %s %s `%s` of the seeded API %s%s: a second call with the same arguments and seed starts from different data" % (
                        w.how, "may write" if l[0].endswith("?") else "writes",
                        {"P": "parameter", "PE": "an element of parameter", "S": "model attribute", "SE": "an element of model attribute", "G": "module-level object"}[kind],
                        name, f.qname, via))
            bad = True
    if not bad:
        rep.ok("R7.inputs-intact", fwhere(f), "%s leaves its arguments, the model and module state untouched" % f.name)


def run(prog, rep, tier):
    # private helpers (leading underscore) are analysed inside the public APIs that call them
    apis = [f for f in prog.funcs.values() if "random_state" in f.params and f.public_module.name.startswith("sempler.")
            and f.public_module.name != "sempler.semi" and (not f.name.startswith("_") or f.name.startswith("__") or f.qname in EXPECTED)]
    have = {f.qname for f in apis}
    for q in EXPECTED:
        if q not in have:
            raise AnchorMissing("API %s with a random_state parameter not found" % q)
    total = 0
    from .. import own as OW
    O = OW.Own(prog)
    for f in sorted(apis, key=lambda f: f.qname):
        eff = rng_rules(rep, prog, f, unseeded_live=f.qname in UNSEEDED_LIVE)
        total += len(eff or [])
        args_intact(rep, prog, O, f)
    # the library's own noise distributions must draw from the stream that ANM.sample reseeds: numpy's global one
    from .closures import factory_closure
    from .. import api
    n_fact = 0
    for f in sorted((g for g in prog.funcs.values() if g.public_module.name == "sempler.noise" and not g.name.startswith("_") and g.cls is None), key=lambda g: g.qname):
        try:
            S_, f_, clo, res, facts = factory_closure(prog, f.qname)
        except Inconclusive:
            continue            # not a factory of callables
        n_fact += 1
        gens = [c for c in facts if c.kind == "call" and c.callkind == "method" and c.target.lstrip(".") in api.GENERATOR_DRAWS]
        if gens:
            rep.bad("R6.library-noise", fwhere(f, gens[0].node), "noise.%s draws from a generator object of its own (%s): ANM.sample(random_state=...) reseeds numpy's global "
                    "stream, which this draw never reads - seeded sampling with this noise is not reproducible" % (f.name, fmt(gens[0].recv)[:50]))
        else:
            rep.ok("R6.library-noise", fwhere(f), "noise.%s draws from numpy's global stream only" % f.name)
    rep.require_count("R6.library-noise", 4)
    rep.analysed["rng.apis"] = sorted(have)
    rep.analysed["rng.effects"] = total
    rep.require_count("RNG.api", 10)
    rep.require_count("R1", 16)
    rep.require_count("R7", 10)
    rep.assume("numpy generators and the legacy global stream are deterministic functions of their seed")
    rep.assume("user supplied callables (noise distributions, assignments) may draw from numpy's global stream only")
