"""C20 - noise factories draw n values from the documented law (structural part).

Decided, by evaluating each factory and the closure it returns to symbolic terms: normal(mean, var) calls
numpy.random.normal(loc=mean, scale=var**0.5, size=n) - a standard deviation, not the variance;
uniform(lo, hi) calls numpy.random.uniform(low=lo, high=hi, size=n); laplace(mean, scale) calls
numpy.random.laplace(loc=mean, scale=scale, size=n); zero() returns zeros(n); functions.null returns 0;
all draws use numpy's *global* legacy stream (reproducible after np.random.seed), each closure draws
exactly once and returns that draw unchanged; parameter defaults are (0, 1), (0, 1), (0, 1).
Also decided: the callable serves every n >= 0 whatever the integer type of n; no partial over a bound method of the global
RandomState (ANM deep-copies its noise callables).
Not decided: the distributional laws of numpy's samplers themselves (trusted).
"""
from .common import *
from .closures import factory_closure
from .. import api
from ..pred import npred, pred_fmt

EXPLANATION = __doc__
NO = "sempler.noise."

SPEC = {
    "normal": ("numpy.random.normal", {"loc": ("param", "mean"), "scale": "SD(var)", "size": "n"}, {"mean": 0, "var": 1}),
    "uniform": ("numpy.random.uniform", {"low": ("param", "lo"), "high": ("param", "hi"), "size": "n"}, {"lo": 0, "hi": 1}),
    "laplace": ("numpy.random.laplace", {"loc": ("param", "mean"), "scale": ("param", "scale"), "size": "n"}, {"mean": 0, "scale": 1}),
}
N = ("param", "n")


# ---- the law of `a + b * Z` for a draw Z of a known family (location-scale algebra over polynomial normal forms)
STD_FAMILIES = {
    # target: (family, slot names, defaults)
    "numpy.random.normal": ("normal", ["loc", "scale", "size"], {"loc": ("const", 0), "scale": ("const", 1)}),
    "numpy.random.standard_normal": ("normal", ["size"], {"loc": ("const", 0), "scale": ("const", 1)}),
    "numpy.random.randn": ("normal", ["size"], {"loc": ("const", 0), "scale": ("const", 1)}),
    "numpy.random.uniform": ("uniform", ["low", "high", "size"], {"low": ("const", 0), "high": ("const", 1)}),
    "numpy.random.random_sample": ("uniform", ["size"], {"low": ("const", 0), "high": ("const", 1)}),
    "numpy.random.random": ("uniform", ["size"], {"low": ("const", 0), "high": ("const", 1)}),
    "numpy.random.ranf": ("uniform", ["size"], {"low": ("const", 0), "high": ("const", 1)}),
    "numpy.random.sample": ("uniform", ["size"], {"low": ("const", 0), "high": ("const", 1)}),
    "numpy.random.rand": ("uniform", ["size"], {"low": ("const", 0), "high": ("const", 1)}),
    "numpy.random.laplace": ("laplace", ["loc", "scale", "size"], {"loc": ("const", 0), "scale": ("const", 1)}),
}
WANT_FAMILY = {"normal": "normal", "uniform": "uniform", "laplace": "laplace"}


def law_of(name, res, c):
    """-> (True, text) when the closure's result `res` is a + b * Z with Z the single global draw `c`, and its law equals the specified one as polynomials in the
    factory's parameters; (False, text) when it is of that form and the law differs; None when the result is not of that form (not read)."""
    from ..pred import poly, padd, pmul, pconst, pkey
    fam = STD_FAMILIES.get(c.target)
    if fam is None or fam[0] != WANT_FAMILY[name]:
        return None
    family, names, defaults = fam
    bound, extra = api.bind_slots(names, c.args, c.kwargs)
    if extra or bound.get("size") != N:
        return None
    Z = c.result
    try:
        pr = poly(res)
    except Inconclusive:
        return None
    a, b = {}, {}
    for mono, coef in pr.items():
        k = sum(1 for x in mono if x == Z)
        if any(x != Z and any(y == Z for y in walk(x)) for x in mono) or k > 1:
            return None
        if k == 1:
            m2 = tuple(x for x in mono if x != Z)
            b[m2] = b.get(m2, 0) + coef
        else:
            a[mono] = a.get(mono, 0) + coef
    if not b:
        return None
    P_ = lambda t: poly(t)
    get = lambda slot: bound.get(slot, defaults.get(slot))
    eq = lambda x, y: pkey(x) == pkey(y)

    def plain(*polys):
        """every atom is a parameter of the factory or the square root of one: two different normal forms over such atoms are different functions. An atom
        like abs(var ** 0.5) or max(lo, hi) is opaque to the polynomial form: a difference that involves one is not a decided difference"""
        for p_ in polys:
            for mono in p_:
                for at in mono:
                    if at[0] == "param" or is_sd_of(at, at[2] if len(at) > 2 and isinstance(at[2], tuple) and at[2][:1] == ("param",) else ("param", "?")) or \
                            (at[0] == "ext" and at[1] in ("numpy.sqrt", "math.sqrt") and len(at[2]) == 1 and at[2][0][0] == "param"):
                        continue
                    return False
        return True

    def verdict(ok, text, *polys):
        return (True, text) if ok else ((False, text) if plain(*polys) else None)
    try:
        if family == "uniform":
            lo_ = padd(a, pmul(b, P_(get("low"))))
            hi_ = padd(a, pmul(b, P_(get("high"))))
            ok = eq(lo_, P_(("param", "lo"))) and eq(hi_, P_(("param", "hi")))
            return verdict(ok, "support [%s, %s)" % (_pf(lo_), _pf(hi_)), lo_, hi_)
        loc_ = padd(a, pmul(b, P_(get("loc"))))
        sc_ = pmul(b, P_(get("scale")))
        if family == "normal":
            sds = [P_(("binop", "**", ("param", "var"), ("const", 0.5)))]
            sc_ok = any(eq(sc_, sd) for sd in sds) or eq(pmul(sc_, sc_), P_(("param", "var")))
            return verdict(eq(loc_, P_(("param", "mean"))) and sc_ok, "mean %s, standard deviation %s" % (_pf(loc_), _pf(sc_)), loc_, sc_)
        return verdict(eq(loc_, P_(("param", "mean"))) and eq(sc_, P_(("param", "scale"))), "mean %s, scale %s" % (_pf(loc_), _pf(sc_)), loc_, sc_)
    except Inconclusive:
        return None


def _pf(p_):
    from ..pred import pfmt
    return pfmt(p_)[:60]


def is_sd_of(t, var):
    return t in (("binop", "**", var, ("const", 0.5)), ("ext", "numpy.sqrt", (var,), ()), ("ext", "math.sqrt", (var,), ()),
                 ("binop", "**", var, ("binop", "/", ("const", 1), ("const", 2))))


def deepcopied_by_anm(prog):
    """does ANM.__init__ keep copy.deepcopy(noise_distributions)?  (-> the stored attribute's fact, or None)"""
    f = prog.func("sempler.anm.ANM.__init__")
    if f is None:
        return None
    S = Sym(prog)
    run_function(S, f)
    for a in S.select("attrstore", qname=f.qname):
        if any(isinstance(x, tuple) and x[:2] == ("ext", "copy.deepcopy") and any(("param", "noise_distributions") in list(walk(y)) for y in x[2]) for x in walk(a.value)):
            return a
    return None


def holds_global_generator(clo):
    """a partial / bound method over numpy.random.<draw> keeps a reference to numpy's global RandomState *object*; copy.deepcopy
    rebuilds such an object around a private clone of the generator (plain functions are atomic under deepcopy)"""
    from ..core import PartialV, ExtRef
    while isinstance(clo, PartialV):
        if isinstance(clo.fv, ExtRef) and clo.fv.dotted.startswith("numpy.random."):
            return clo.fv.dotted
        clo = clo.fv
    return None


def accepts_all_sizes(rep, f, facts, name):
    """the callable must serve every n >= 0 in every integer form (Python int, numpy integer - what `mask.sum()` or ANM.sample
    pass on): a rejection of its own that tests the *type* of n, or anything but n < 0, excludes valid sizes"""
    raises = [x for x in facts if x.kind == "raise"]
    bad = None
    for r in raises:
        conds = [c for c, pol in r.path]
        typed = any(isinstance(y, tuple) and len(y) == 4 and y[0] == "ext" and y[1] in ("isinstance", "type") and y[2] and y[2][0] == N for c in conds for y in walk(c))
        only_negative = len(r.path) == 1 and npred(r.path[0][0], r.path[0][1]) in (npred(("cmp", "<", N, ("const", 0)), True),)
        if typed:
            bad = (r, "tests the type of n: numpy integer sizes (np.int64, the result of mask.sum(), ...) are not `int` and are rejected")
        elif not only_negative and bad is None:
            bad = (r, "raises under %s" % pred_fmt(npred(r.path[-1][0], r.path[-1][1]))[:80] if r.path else "raises unconditionally")
    # n = 0 is a valid size: max / min / argmax / argmin / ptp of the (empty) draw raise ValueError unless an `initial` is given or the size is tested first
    RED = {"max", "min", "argmax", "argmin", "ptp", "amax", "amin", "nanmax", "nanmin", "nanargmax", "nanargmin"}
    for c in facts:
        if c.kind != "call" or bad is not None:
            continue
        nm = c.target.lstrip(".").split(".")[-1]
        is_red = (c.callkind == "method" and nm in RED) or (c.callkind == "ext" and c.target.startswith("numpy.") and nm in RED)
        if not is_red or "initial" in (c.kwargs or {}):
            continue
        operand = getattr(c, "recv", None) if c.callkind == "method" else (c.args[0] if c.args else None)
        sized_by_n = operand is not None and any(isinstance(y, tuple) and len(y) >= 4 and y[0] == "ext" and (y[1].startswith("numpy.random.") or y[1] in ("numpy.zeros", "numpy.ones", "numpy.empty", "numpy.full"))
                                                    and any(z == N for z in walk(y)) for y in walk(operand))
        guarded = any(z == N or (isinstance(z, tuple) and len(z) == 3 and z[0] == "attr" and z[2] == "size") or (isinstance(z, tuple) and len(z) == 4 and z[0] == "ext" and z[1] == "len")
                      for cnd, _ in c.path for z in walk(cnd))
        if sized_by_n and not guarded:
            # `n > 0 and x.max() >= hi`: the right operand of `and` is evaluated only when the left one holds
            def mentions_size(t_):
                return any(z == N or (isinstance(z, tuple) and len(z) == 3 and z[0] == "attr" and z[2] == "size") or (isinstance(z, tuple) and len(z) == 4 and z[0] == "ext" and z[1] == "len") for z in walk(t_))

            def is_this(t_):
                return isinstance(t_, tuple) and ((c.callkind == "method" and len(t_) >= 4 and t_[0] == "method" and t_[1] == operand and t_[2] == nm) or
                                                  (c.callkind == "ext" and len(t_) >= 4 and t_[0] == "ext" and t_[1] == c.target and t_[2] and t_[2][0] == operand))
            pool = [cnd for x in facts for cnd, _ in x.path] + [getattr(x, "term", None) for x in facts] + [getattr(x, "value", None) for x in facts]
            for t0 in pool:
                if t0 is None or guarded:
                    continue
                for y in walk(t0):
                    if isinstance(y, tuple) and len(y) == 3 and y[0] == "bool" and y[1] == "and":
                        for k_, operand_ in enumerate(y[2]):
                            if any(is_this(z) for z in walk(operand_)) and any(mentions_size(e_) for e_ in y[2][:k_]):
                                guarded = True
        if sized_by_n and not guarded:
            bad = (c, "takes %s of the draw without testing its size: for n = 0 numpy raises ValueError (zero-size array to reduction operation)" % nm)
    if bad is not None:
        rep.bad("SIZE.accepts", fwhere(f, bad[0].node), "%s's callable %s" % (name, bad[1]))
    else:
        rep.ok("SIZE.accepts", fwhere(f), "%s's callable serves every n >= 0 (no rejection of its own)" % name)


def run(prog, rep, tier):
    # the factories only *read* their parameters: `var **= 0.5` on a 0-d array argument rewrites the caller's object, and every
    # sampler built from it afterwards (and before!) sees the changed value
    from .common import no_foreign_writes
    for name in SPEC:
        no_foreign_writes(rep, prog, NO + name, rule="OWN." + name)
    dc = deepcopied_by_anm(prog)
    for name, (target, slots, defaults) in SPEC.items():
        S, f, clo, res, facts = factory_closure(prog, NO + name)
        held = holds_global_generator(clo)
        if dc is not None:
            rep.check("R6.copy-stable", held is None, fwhere(f), "%s returns a plain function: ANM's deepcopy of the noise distributions keeps it on the global stream" % name,
                      "%s returns functools.partial over the bound method %s: copy.deepcopy (ANM.__init__ stores deepcopy(noise_distributions)) clones numpy's "
                      "global RandomState into the copy, which then ignores np.random.seed" % (name, held))
        accepts_all_sizes(rep, f, facts, name)
        draws = [c for c in facts if c.kind == "call" and c.callkind == "ext" and (c.target.startswith("numpy.random.") or c.target.startswith("random."))]
        gens = [c for c in facts if c.kind == "call" and c.callkind == "method" and c.target.lstrip(".") in api.GENERATOR_DRAWS]
        w = fwhere(f)
        opaque = [c for c in facts if c.kind == "call" and (c.callkind == "opaque" or c.target in ("getattr", "operator.attrgetter", "operator.methodcaller"))]
        if not gens and not draws and opaque:
            # the sampler is looked up dynamically (getattr / attrgetter / a callable held in a table): which stream it draws from is not read
            rep.unk("R6.global-stream", w, "%s calls a sampler that is looked up at run time (%s): not read" % (name, opaque[0].target))
            continue
        if gens or len(draws) != 1:
            rep.bad_form("R6.global-stream", w, "%s must draw exactly once from numpy's global stream (found %d global draws, %d generator draws)" % (name, len(draws), len(gens)))
            continue
        c = draws[0]
        if c.target != target or res != c.result:
            # not the direct call: the result as a location-scale transform of one standard draw of the same family, decided on the law's parameters
            lw = law_of(name, res, c)
            if lw is not None:
                want = {"normal": "mean `mean`, standard deviation var**0.5", "uniform": "support [lo, hi)", "laplace": "mean `mean`, scale `scale`"}[name]
                if lw[0]:
                    rep.ok("R6.global-stream", fwhere(f, c.node), "%s draws with %s (global legacy stream)" % (name, c.target))
                    rep.ok("SLOTS." + name, fwhere(f, c.node), "a + b * Z with %s: %s" % (lw[1], want))
                    rep.ok("RESULT." + name, fwhere(f, c.node), "the closure returns that transform of the draw")
                else:
                    rep.bad("LAW." + name, fwhere(f, c.node), "%s returns a + b * Z with Z ~ %s(size=n), which has %s; specified: %s" % (name, c.target.split(".")[-1], lw[1], want))
                    rep.ok("R6.global-stream", fwhere(f, c.node), "%s draws with %s (global legacy stream)" % (name, c.target))
                continue
        rep.check("R6.global-stream", c.target == target, fwhere(f, c.node), "%s draws with %s (global legacy stream)" % (name, target),
                  "%s draws with %s instead of %s" % (name, c.target, target))
        bound, extra = api.bind_slots(api.SLOTS[target], c.args, c.kwargs)
        ok = not extra
        why = []
        for slot, want in slots.items():
            got = bound.get(slot)
            if want == "n":
                good = got == N
            elif want == "SD(var)":
                good = got is not None and is_sd_of(got, ("param", "var"))
            else:
                good = got == want
            if not good:
                ok = False
                why.append("%s <- %s" % (slot, fmt(got) if got is not None else "default"))
        rep.check("SLOTS." + name, ok, fwhere(f, c.node), "%s" % ", ".join("%s <- %s" % (k, v if isinstance(v, str) else fmt(v)) for k, v in slots.items()),
                  "%s passes the wrong quantity: %s" % (name, "; ".join(why)))
        rep.check("RESULT." + name, res == c.result, fwhere(f, c.node), "the closure returns the draw unchanged", "the closure returns %s" % fmt(res)[:80])
        def default_value(dn):
            # a literal, or the name of a module-level constant bound to one
            if isinstance(dn, ast.Constant):
                return dn.value
            if isinstance(dn, ast.Name):
                k_ = prog.lookup("%s.%s" % (f.public_module.name, dn.id))
                if k_[0] == "global" and isinstance(k_[2], ast.Constant):
                    return k_[2].value
            return None
        dv = {p: (default_value(f.defaults[p]) if p in f.defaults else None) for p in defaults}
        rep.check("DEFAULTS." + name, dv == defaults and f.params[:len(defaults)] == list(defaults) and all(p_ in f.defaults for p_ in f.params[len(defaults):]), fwhere(f), "signature %s%s" % (name, tuple(defaults.items())),
                  "signature/defaults are %s" % dv)
    S, f, clo, res, facts = factory_closure(prog, NO + "zero")
    accepts_all_sizes(rep, f, facts, "zero")
    if not zeros_of(res, shapes=[N]) and any(isinstance(x, tuple) and len(x) == 4 and x[0] == "ext" and x[1] in ("operator.attrgetter", "getattr") for x in walk(res)):
        rep.unk("CONST.zero", fwhere(f), "zero() calls a function that is looked up at run time: %s is not read" % fmt(res)[:60])
    else:
        rep.check("CONST.zero", zeros_of(res, shapes=[N]) and all(p_ in f.defaults for p_ in f.params), fwhere(f), "zero() returns zeros(n)", "zero() returns %s" % fmt(res))
    fn = need(prog, "sempler.functions.null")
    Sn = Sym(prog)
    sn, _ = run_function(Sn, fn)
    rep.check("CONST.null", T(sn.ret) == ("const", 0) and fn.vararg is not None and not fn.params, fwhere(fn), "functions.null(*args) is identically 0",
              "functions.null is not `return 0` for any arguments")
    rep.require_count("SLOTS", 3)
    rep.require_count("R6", 3)
    rep.assume("numpy.random.normal/uniform/laplace draw size i.i.d. values with the documented (loc, scale)/(low, high) parametrisation")
