"""C10 - interventional equivalence classes and I-CPDAGs (narrow structural part).

Decided: (PATTERN) imec / dag_to_icpdag depend on a weighted DAG only through its zero pattern; (GUARD)
imec raises ValueError for non-DAGs and when I is not a subset of range(len(A)); pdag_to_icpdag raises
ValueError when a target has an undirected edge, before looking for an extension, and the ValueError of
the extension search / of maximally_orient propagates; (ORIENT) the edges fixed at a target i are
(i, child) for children of i in G and (parent, i) for parents of i in G, and fixing (x, y) clears P[y, x];
in maximally_orient each branch clears exactly the entry that mirrors the arguments of the Meek rules that
guard it (`rule_k(a, b, P)` => P[b, a] = 0), on a copy, repeated until nothing changes; (COLUMNS)
chain_graph_IMEC keeps a member iff its parent *columns* at the targets equal A's; (DEPENDS) the results
depend on I, and with I empty no entry of the CPDAG is touched: dag_to_icpdag(G, {}) = dag_to_cpdag(G);
the result is returned under `is_consistent_extension(G, P)`; (RULES) rule_1 / rule_2 equal their set-theoretic
definitions in every Venn world of the two sets involved; rule_3 / rule_4, which quantify over elements, are decided
role by role (witness sets as set expressions, distinct witnesses, the literal non-adjacency test).
Also decided: the CPDAG construction dag_to_icpdag starts from (C08's rules), canonical v-structure triples (C16's), and that the
repeat-until-stable flag of maximally_orient starts at False and is only ever raised inside a pass.
Not decided: exactness of the class and of the essential graph (soundness / completeness of the rule set, C09).
"""
from .common import *
from ..pred import resolve, conj, npred, pred_fmt

EXPLANATION = __doc__
PA_, PG, PI, PP_ = ("param", "A"), ("param", "G"), ("param", "I"), ("param", "P")
FULL = ("slice", ("const", None), ("const", None), ("const", None))
RULES = {U + "rule_%d" % k for k in range(1, 5)}


def call(name, **named):
    return ("call", U + name, tuple(named.values()), tuple(sorted(named.items())))


def imec_rules(rep, prog):
    q = U + "imec"
    f = need(prog, q)
    S = Sym(prog)
    run_function(S, f)
    raises = [r for r in S.select("raise", qname=q) if r.exctype == "ValueError"]
    subset = ("cmp", "<=", PI, ("ext", "set", (("ext", "range", (("ext", "len", (PA_,), ()),), ()),), ()))
    alt = ("method", PI, "issubset", (("ext", "range", (("ext", "len", (PA_,), ()),), ()),), ())
    hit = [r for r in raises if r.path and r.path[-1] in ((("unop", "not", subset), True), (subset, False), (("unop", "not", alt), True), (alt, False))]
    rets = S.select("return", qname=q)
    ok = len(hit) == 1 and all(r.order > hit[0].order for r in rets)
    rep.check("GUARD.targets", ok, fwhere(f, hit[0].node if hit else None), "ValueError unless I ⊆ range(len(A)), before any enumeration",
              "no ValueError exactly when I is not a subset of range(len(A))")
    chain = [r for r in rets if r.value[0] == "call" and r.value[1] == U + "chain_graph_IMEC"]
    gen = [r for r in rets if r.value[0] == "call" and r.value[1] == U + "all_dags"]
    ok = len(rets) == 2 and len(chain) == 1 and len(gen) == 1
    if ok:
        cond = resolve(conj(chain[0].path))
        ok = ("atom", ("param", "check_chain"), True) in cond and ("atom", call("is_chain_graph", A=PA_), True) in cond and \
            dict(chain[0].value[3]) == {"A": PA_, "I": PI} and dict(gen[0].value[3]).get("pdag") == call("dag_to_icpdag", G=PA_, I=PI)
    if not (len(chain) == 1 and len(gen) == 1) and len(gen) == 1 and len(rets) == 2:
        # the general path is there; the other return does not call chain_graph_IMEC (its filtering step reached some other way): not read
        rep.unk("DISPATCH.imec", fwhere(f), "the chain-graph branch of imec does not return chain_graph_IMEC(A, I) itself: what it returns instead is not read")
        ok = None
    if ok is not None:
      rep.check("DISPATCH.imec", ok, fwhere(f), "chain shortcut chain_graph_IMEC(A, I) iff check_chain and is_chain_graph(A); else all_dags(dag_to_icpdag(A, I))",
                "imec does not pass (A, I) to the chain shortcut / to dag_to_icpdag as documented")


def chain_rules(rep, prog):
    q = U + "chain_graph_IMEC"
    f = need(prog, q)
    S = Sym(prog)
    run_function(S, f)
    loops = [(k, v) for k, v in S.loopinfo.items() if v["func"] == q]
    ok, why = False, "filter loop not found"
    MECt = call("chain_graph_MEC", p=("ext", "len", (PA_,), ()))

    def col_sel(t, base):
        """t = base[:, C] with C the targets in any order-insensitive spelling (list / sorted / array of I)"""
        if not (t[0] == "sub" and t[1] == base and t[2][0] == "tuple" and len(t[2][1]) == 2 and t[2][1][0] == FULL):
            return None
        c_ = t[2][1][1]
        while c_[0] == "ext" and c_[1] in ("list", "sorted", "numpy.array", "numpy.asarray", "tuple") and len(c_[2]) == 1:
            c_ = c_[2][0]
        return c_ if c_ == PI else None

    def keeps(cond, me):
        """cond <=> the member's columns at the targets equal A's"""
        eq = None
        if cond[0] == "method" and cond[2] == "all" and not cond[3] and cond[1][0] == "cmp" and cond[1][1] == "==":
            eq = (cond[1][2], cond[1][3])
        elif cond[0] == "ext" and cond[1] in ("numpy.array_equal", "numpy.all") and cond[2]:
            if cond[1] == "numpy.array_equal" and len(cond[2]) == 2:
                eq = (cond[2][0], cond[2][1])
            elif cond[2][0][0] == "cmp" and cond[2][0][1] == "==":
                eq = (cond[2][0][2], cond[2][0][3])
        if eq is None:
            return False
        a, b = eq
        return (col_sel(a, me) is not None and col_sel(b, PA_) is not None) or (col_sel(b, me) is not None and col_sel(a, PA_) is not None)
    if len(loops) == 1:
        lid, li = loops[0]
        me = ("elem", li["iter"])
        apps = [c for c in S.select("call", qname=q) if c.callkind == "method" and c.target == ".append"]
        ok = li["iter"] == MECt and len(apps) == 1 and apps[0].args == [me] and \
            len(apps[0].path) >= 1 and apps[0].path[-1][1] is True and keeps(apps[0].path[-1][0], me)
        why = "kept under %s" % (fmt(apps[0].path[-1][0])[:100] if apps and apps[0].path else None)
        if not apps and li["iter"] == ("ext", "enumerate", (MECt,), ()):
            # mask form: keep = zeros(len(MEC), bool); for k, me in enumerate(MEC): keep[k] = <columns equal>; return MEC[keep]
            sts = [s_ for s_ in S.select("store", qname=q) if lid in s_.loops]
            rets = S.select("return", qname=q)
            if len(sts) == 1 and len(rets) == 1 and len(li["init"]) == 1:
                nm_ = list(li["init"])[0]
                ini = li["init"][nm_]
                st_ = sts[0]
                flags = ini[0] == "ext" and ini[1] == "numpy.zeros" and ini[2][:1] == (("ext", "len", (MECt,), ()),) and dict(ini[3]).get("dtype") == ("extref", "bool")
                ok = flags and st_.base == ("mu", lid, nm_) and st_.idx == ("idx", MECt) and st_.aug is None and tuple(st_.path) == tuple(rets[0].path) and \
                    keeps(st_.value, ("elem", MECt)) and rets[0].value == ("sub", MECt, ("after", lid, nm_))
                why = "mask form: keep[k] = %s, result %s" % (fmt(st_.value)[:60], fmt(rets[0].value)[:60])
    elif not loops:
        # np.array([me for me in MEC if <columns equal>])
        for r in S.select("return", qname=q):
            comps = [x for x in walk(r.value) if isinstance(x, tuple) and x and x[0] == "comp" and len(x[3]) == 1]
            for comp in comps:
                me = ("elem", comp[3][0][1])
                conds = comp[3][0][2]
                if comp[3][0][1] == MECt and comp[2] == me and len(conds) == 1 and keeps(conds[0], me):
                    ok = True
                why = "comprehension over %s" % fmt(comp[3][0][1])[:60]
    if not ok and why == "filter loop not found":
        # the whole class compared at once: MEC[(MEC[:, :, I] == A[:, I]).all(axis=(1, 2))]
        def sel3(t_):
            return t_[0] == "sub" and t_[1] == MECt and t_[2][0] == "tuple" and len(t_[2][1]) == 3 and t_[2][1][0] == FULL and t_[2][1][1] == FULL and col_sel(("sub", PA_, ("tuple", (FULL, t_[2][1][2]))), PA_) is not None
        masks = []
        for r in S.select("return", qname=q):
            for x in walk(r.value):
                if isinstance(x, tuple) and len(x) == 3 and x[0] == "sub" and x[1] == MECt and isinstance(x[2], tuple) and x[2][:1] == ("method",) and x[2][2] == "all":
                    masks.append(x[2])
        if len(masks) == 1:
            m_ = masks[0]
            ax = dict(m_[4]).get("axis", m_[3][0] if m_[3] else None)
            cmp_ = m_[1]
            good_axes = ax in (("tuple", (("const", 1), ("const", 2))), ("tuple", (("const", 2), ("const", 1))), ("tuple", (("const", -2), ("const", -1))), ("tuple", (("const", -1), ("const", -2))))
            sides = (cmp_[2], cmp_[3]) if cmp_[0] == "cmp" and cmp_[1] == "==" else (None, None)
            ok = good_axes and sides[0] is not None and ((sel3(sides[0]) and col_sel(sides[1], PA_) is not None) or (sel3(sides[1]) and col_sel(sides[0], PA_) is not None))
            why = "vectorised filter %s" % fmt(m_)[:80]
        else:
            rep.unk("COLUMNS.chain-filter", fwhere(f), "the chain filter is not a loop / comprehension over the members of the class nor one vectorised comparison: not read")
            return
    rep.check("COLUMNS.chain-filter", ok, fwhere(f), "a chain-MEC member is kept iff its columns I (the targets' parents) equal A's columns I",
              "chain filter is not `(me[:, I] == A[:, I]).all()`: " + why)


def icpdag_rules(rep, prog):
    q = U + "dag_to_icpdag"
    f = need(prog, q)
    S = Sym(prog)
    summ, _ = run_function(S, f)
    loops = sorted([(k, v) for k, v in S.loopinfo.items() if v["func"] == q], key=lambda kv: kv[0][1])
    if len(loops) != 2:
        raise Inconclusive("dag_to_icpdag: expected a loop over targets and a work-list loop", f.node)
    (l1, first), (l2, second) = loops
    i = ("elem", PI)
    ch_ = call("ch", A=PG, i=i)
    pa_ = call("pa", A=PG, i=i)
    # with positional order (i, A) the 'call' term lists args in signature order
    ch_ = ("call", U + "ch", (i, PG), (("A", PG), ("i", i)))
    pa_ = ("call", U + "pa", (i, PG), (("A", PG), ("i", i)))
    names = list(first["init"])
    if not (first["iter"] == PI and len(names) == 1 and first["init"][names[0]] == ("list", ())) and not any(second["init"][k] == call("dag_to_cpdag", G=PG) for k in second["init"]):
        # neither the list of edges to fix nor the PDAG under construction is a local variable of these loops (e.g. both live in an object):
        # the rules below have nothing to read
        rep.unk("ORIENT.edges", fwhere(f, first["node"]), "the edges to fix and the PDAG under construction are not local variables of a loop over the targets and a work-list loop: not read")
        return
    ok, why = False, "edge list not recognised"
    if first["iter"] == PI and len(names) == 1 and first["init"][names[0]] == ("list", ()):
        nx = first["next"][names[0]]
        comps = [x for x in walk(nx) if isinstance(x, tuple) and x[0] == "comp"]
        elts = {(c[2], c[3][0][1]) for c in comps}
        want = {(("tuple", (i, ("elem", ch_))), ch_), (("tuple", (("elem", pa_), i)), pa_)}
        conditional = [x for x in walk(nx) if isinstance(x, tuple) and x and x[0] == "phi"]
        ok = elts == want and not conditional
        why = "pairs %s" % sorted((fmt(a), fmt(b)) for a, b in elts)
        if elts == want and conditional:
            why = "the child / parent edges of a target are only collected under `%s`: an intervention orients *every* edge at its target" % fmt(conditional[0][1])[:80]
    rep.check("ORIENT.edges", ok, fwhere(f, first["node"]), "edges to fix at target i: (i, c) for c in ch(i, G) and (q, i) for q in pa(i, G) - (from, to) pairs as in G",
              "the edges fixed at the targets are not (i, child) / (parent, i) of G: " + why)
    st = [s for s in S.select("store", qname=q)]
    okc = False
    # the edge handled in one round of the second loop: popped from the work list, or the element / indexed element of a for-loop
    # that visits every collected edge exactly once (in any order)
    EL = ("after", l1, names[0]) if names else None
    Ln = ("ext", "len", (EL,), ())
    it2 = second["iter"]
    once_for = it2 is not None and it2 in (EL, ("ext", "reversed", (EL,), ()), ("sub", EL, ("slice", ("const", None), ("const", None), ("const", -1))),
                                            ("ext", "list", (EL,), ()), ("ext", "tuple", (EL,), ()))
    once_idx = it2 is not None and it2 in (("ext", "range", (Ln,), ()), ("ext", "range", (("binop", "-", Ln, ("const", 1)), ("const", -1), ("const", -1)), ()),
                                            ("ext", "reversed", (("ext", "range", (Ln,), ()),), ()))

    def is_edge(e_):
        if e_[0] == "method" and e_[2] == "pop" and not e_[3]:
            return it2 is None
        if once_for:
            return e_ == ("elem", it2)
        if once_idx:
            return e_ == ("sub", EL, ("elem", it2))
        return False
    if len(st) == 1 and st[0].idx[0] == "tuple":
        a, b = st[0].idx[1]
        okc = a[0] == "sub" and b[0] == "sub" and a[1] == b[1] and is_const(a[2], 1) and is_const(b[2], 0) and is_edge(a[1]) and \
            is_const(st[0].value, 0) and st[0].aug is None
    rep.check("ORIENT.clear", okc, fwhere(f, st[0].node if st else None), "fixing the edge (x, y) clears P[y, x]: the reverse direction disappears, x -> y remains",
              "fixing an edge does not clear exactly the reverse entry P[to, from]")
    Pn = [k for k in second["init"] if second["init"][k] == call("dag_to_cpdag", G=PG)]
    okl = len(Pn) == 1
    if okl:
        nxP = second["next"][Pn[0]]
        okl = nxP[0] == "call" and nxP[1] == U + "maximally_orient" and dict(nxP[3]).get("P", ("x",))[0] == "store"
        if second["test"] is not None:
            test = npred(second["test"], True)
            okl = okl and (test[0] == "nonempty" or (test[0] == "atom" and test[2] is True and isinstance(test[1], tuple) and test[1][:1] == ("mu",)))      # `while len(x) > 0` / `while x`
        else:
            okl = okl and (once_for or once_idx)        # a for-loop over the collected edges (or their indices): one round per edge
    rep.check("DEPENDS.empty-I", okl and first["iter"] == PI, fwhere(f, second["node"]),
              "starts from dag_to_cpdag(G) and touches it once per fixed edge only: with I empty the work list is empty and the CPDAG is returned unchanged",
              "the I-CPDAG is not `dag_to_cpdag(G)` refined once per edge at a target")
    rets = S.select("return", qname=q)
    okr = len(rets) == 1 and rets[0].value[0] == "after" and any(pol is True and c[0] == "call" and c[1] == U + "is_consistent_extension" and dict(c[3]).get("G") == PG
                                                                  for c, pol in tuple(rets[0].path) + tuple(getattr(rets[0], "asserts", ())))
    rep.check("RESULT.asserted", okr, fwhere(f), "the result is returned under the assertion is_consistent_extension(G, P)", "the final consistency assertion is gone")
    # dependence on I (must-depend: certain when absent)
    dep = mentions(first["iter"], PI)
    rep.check("DEPENDS.on-I", dep, fwhere(f), "the result depends on the targets I", "the targets I are never consulted")


def meek_rules(rep, prog):
    q = U + "maximally_orient"
    f = need(prog, q)
    S = Sym(prog)
    summ, _ = run_function(S, f)
    calls = [c for c in S.select("call", qname=q) if c.target == U + "pdag_to_dag"]
    swallowed = False
    for c in calls:
        for tr, types in getattr(c, "in_try", []):
            if any(t in ("*", "ValueError", "Exception", "BaseException") for t in types):
                # handler must re-raise
                rer = [r for r in S.select("raise", qname=q)]
                swallowed = not rer
    rep.check("GUARD.extension", len(calls) >= 1 and not swallowed and calls[0].args == [PP_] and not calls[0].path, fwhere(f),
              "a PDAG without consistent extension raises ValueError (checked first)", "maximally_orient no longer fails for PDAGs without extension")
    stores = S.select("store", qname=q)
    ok = len(stores) >= 2
    details = []
    unread = []
    for st in stores:
        # the guarding condition: last condition taken True on the path that consists of rule calls
        # (split into literals: `backward = not forward and (rule_1(j, i, P) or ...)` taken True is `forward` False and the second disjunction True)
        conds = [c for c, pol in literals(st.path) if pol is True and any(isinstance(x, tuple) and x[0] == "call" and x[1] in RULES for x in walk(c))]
        if not conds or st.idx[0] != "tuple" or not is_const(st.value, 0):
            ok = False
            in_loop_conds = [c for c, pol in st.path]
            if in_loop_conds and st.idx[0] == "tuple" and is_const(st.value, 0):
                unread.append("store %s is guarded by %s: not written as a test of rule_1..4(a, b, P)" % (fmt(st.idx)[:40], fmt(in_loop_conds[-1])[:60]))
            else:
                details.append("store %s not guarded by rule calls" % fmt(st.idx)[:60])
            continue
        rc = [x for x in walk(conds[-1]) if isinstance(x, tuple) and x[0] == "call" and x[1] in RULES]
        # the guard is the *disjunction* of the rule calls: any single rule orients the edge
        def disjuncts(t_):
            if t_[0] == "bool" and t_[1] == "or":
                return [y for x_ in t_[2] for y in disjuncts(x_)]
            if t_[0] == "unop" and t_[1] == "truth":
                return disjuncts(t_[2])
            return [t_]
        ds = disjuncts(conds[-1])
        if not all(d_[0] == "call" and d_[1] in RULES for d_ in ds):
            joined = [d_ for d_ in ds if not (d_[0] == "call" and d_[1] in RULES)]
            if all(j_[0] == "bool" and j_[1] == "and" and all(x_[0] == "call" and x_[1] in RULES for x_ in j_[2]) for j_ in joined):
                ok = False
                details.append("the guard of %s needs several rules at once (%s): each Meek rule alone must orient the edge" % (fmt(st.idx)[:30], fmt(joined[0])[:80]))
                continue
            ok = False
            unread.append("guard of store %s is not a plain disjunction of rule calls" % fmt(st.idx)[:40])
            continue
        args = {(dict(x[3]).get("i"), dict(x[3]).get("j")) for x in rc}
        mats = {dict(x[3]).get("A") for x in rc}
        names = {x[1] for x in rc}
        if len(args) != 1 or names != RULES:
            ok = False
            details.append("guard uses rules %s with %d argument orders" % (sorted(n.split("_")[-1] for n in names), len(args)))
            continue
        a, b = next(iter(args))
        if st.idx != ("tuple", (b, a)) or mats != {st.base}:
            ok = False
            details.append("rules say orient %s -> %s but the store clears [%s]" % (fmt(a)[-8:], fmt(b)[-8:], fmt(st.idx)[:80]))
    if ok:
        rep.ok("ORIENT.meek", fwhere(f), "each branch guarded by rule_1..4(a, b, P) clears P[b, a] (orient a -> b) in the matrix the rules looked at")
    elif details or not unread:
        rep.bad("ORIENT.meek", fwhere(f), "Meek branch and store disagree: " + ("; ".join(details) or "fewer than two orienting stores"))
    else:
        rep.unk("ORIENT.meek", fwhere(f), "the orientation step is not in the form `if rule_1(a, b, P) or ... : P[b, a] = 0`: " + "; ".join(unread)[:200])
    loops = [(k, v) for k, v in S.loopinfo.items() if v["func"] == q and v["test"] is not None]
    okf = len(loops) == 1 and any(v in (("method", PP_, "copy", (), ()), ("ext", "numpy.array", (PP_,), ()), ("ext", "numpy.copy", (PP_,), ()), ("ext", "copy.deepcopy", (PP_,), ())) for v in loops[0][1]["init"].values()) and T(summ.ret)[0] == "after"
    all_loops = [v for v in S.loopinfo.values() if v["func"] == q]
    on_param = len(loops) == 1 and any(v == PP_ for v in loops[0][1]["init"].values())
    if okf and loops[0][1]["test"][0] == "mu" and is_const(loops[0][1]["init"].get(loops[0][1]["test"][2]), False):
        rep.bad("ORIENT.fixpoint", fwhere(f, loops[0][1]["node"]), "the pass flag is False before the loop: no pass is ever made, nothing is oriented")
    elif okf:
        rep.ok("ORIENT.fixpoint", fwhere(f), "works on P.copy() and repeats until a pass orients nothing")
    elif on_param:
        rep.bad("ORIENT.fixpoint", fwhere(f), "the orientations are written into the caller's matrix, not into a copy of P")
    elif not loops and len(all_loops) <= 1:
        rep.bad("ORIENT.fixpoint", fwhere(f), "one pass over the undirected edges only: the rules are not applied until nothing changes")
    else:
        rep.unk("ORIENT.fixpoint", fwhere(f), "not written as `P = P.copy(); while <a pass oriented something>: ...`: whether it repeats until stable on a copy is not read")
    # the "something was oriented in this pass" flag: reset to False at the start of a pass, and inside the pass it may only be
    # *raised* (True, or kept) - a fresh boolean per edge forgets the orientations made for earlier edges and ends the loop too early
    if len(loops) == 1:
        lw, wl = loops[0]
        flag = wl["test"][2] if wl["test"][0] == "mu" else None
        inner = [(k, v) for k, v in S.loopinfo.items() if v["func"] == q and v["test"] is None and flag in v["changed"]]
        okm, why = False, "flag / pass loop not identified"
        if flag is not None and len(inner) == 1:
            li_, il = inner[0]
            muf = ("mu", li_, flag)

            def only_raised(t):
                if t == muf or is_const(t, True):
                    return True
                if t[0] == "phi":
                    return only_raised(t[2]) and only_raised(t[3])
                if t[0] == "bool" and t[1] == "or":
                    return any(x == muf for x in t[2])
                if t[0] == "join":
                    return all(only_raised(x) for x in t[1])
                return False
            nx = il["next"][flag]
            okm = is_const(il["init"].get(flag), False) and only_raised(nx) and nx != muf and wl["next"].get(flag) == ("after", li_, flag)
            why = "flag is updated as %s (start of pass: %s)" % (fmt(nx)[:80], fmt(il["init"].get(flag, ("const", None))))
            # ... and it *is* raised wherever an edge is oriented: the value of the flag on the path of every orienting store
            if okm:
                def under(t, lits_):
                    while t[0] == "phi":
                        cl = literals([(t[1], True)])
                        if all((c_, True) in lits_ for c_, pl_ in cl if pl_) and all((c_, False) in lits_ for c_, pl_ in cl if not pl_):
                            t = t[2]
                        elif len(cl) == 1 and (cl[0][0], not cl[0][1]) in lits_:
                            t = t[3]
                        elif t[1][0] == "bool" and t[1][1] == "or" and all((x_, False) in lits_ for x_ in t[1][2]):
                            t = t[3]
                        elif t[1][0] == "bool" and t[1][1] == "or" and any((x_, True) in lits_ for x_ in t[1][2]):
                            t = t[2]
                        else:
                            return None
                    return t
                for st_ in [s_ for s_ in stores if li_ in s_.loops and is_const(s_.value, 0)]:
                    lits_ = literals(st_.path)
                    v_ = under(nx, lits_)
                    raised = v_ is not None and (is_const(v_, True) or (v_[0] == "bool" and v_[1] == "or" and any(is_const(x_, True) or (x_, True) in lits_ for x_ in v_[2])))
                    if v_ is not None and not raised and (v_ == muf or is_const(v_, False)):
                        flag_missed = st_
                        break
                else:
                    flag_missed = None
                if flag_missed is not None:
                    rep.bad("ORIENT.flag", fwhere(f, flag_missed.node), "this branch orients an edge (%s = 0) without raising the repeat-until-stable flag: when only such edges are oriented in a pass "
                            "the loop stops although the new orientation may force further ones" % fmt(("sub", ("param", "P"), flag_missed.idx))[:40])
                    okm, why = None, "reported"
        def readable(t):
            # built from the flag itself, boolean constants, calls of the Meek rules and and / or / not / if-else only: its meaning is fully read
            if t == muf or (is_const(t) and isinstance(t[1], bool)):
                return True
            if t[0] == "phi":
                return readable(t[1]) and readable(t[2]) and readable(t[3])
            if t[0] == "bool":
                return all(readable(x) for x in t[2])
            if t[0] == "unop" and t[1] in ("not", "truth"):
                return readable(t[2])
            if t[0] == "join":                  # one of several values, depending on how an (unrolled) inner loop was left
                return all(readable(x) for x in t[1])
            return t[0] == "call" and t[1] in RULES
        if okm is None:
            pass
        elif not okm and why == "flag / pass loop not identified":
            rep.unk("ORIENT.flag", fwhere(f), "how the loop knows that a pass oriented something is not written as a boolean flag: not read")
        elif not okm and flag is not None and len(inner) == 1 and is_const(il["init"].get(flag), False) and readable(nx) and not only_raised(nx) and nx != muf:
            # read completely, and what it says is wrong: the flag is recomputed per edge from the rules alone, so an edge that is not orientable
            # lowers it again and the loop stops although an earlier edge of the same pass was oriented
            rep.bad("ORIENT.flag", fwhere(f), "the repeat-until-stable flag is recomputed for every edge (%s) and forgets that an earlier edge of the pass was oriented: the "
                    "loop can stop before nothing changes" % fmt(nx)[:100])
        else:
            rep.check("ORIENT.flag", okm, fwhere(f), "the pass flag starts at False and is only ever raised inside a pass", "the repeat-until-stable flag can be lowered again within a pass: " + why)
    inner = [(k, v) for k, v in S.loopinfo.items() if v["func"] == q and v["test"] is None]
    oki = len(inner) == 1 and inner[0][1]["iter"][0] == "call" and inner[0][1]["iter"][1] == U + "undirected_edges"
    if oki or (len(inner) == 1 and (inner[0][1]["iter"][0] == "call" or any(isinstance(x, tuple) and len(x) == 4 and x[0] == "call" and x[1] == U + "directed_edges" for x in walk(inner[0][1]["iter"])))):
        rep.check("ORIENT.candidates", oki, fwhere(f), "only undirected edges are candidates for orientation", "candidates are not undirected_edges(P)")
    else:
        rep.unk("ORIENT.candidates", fwhere(f), "the candidate edges are not taken from one loop over undirected_edges(P): not read")


def meek_definitions(rep, prog):
    """rule_1 and rule_2 as set predicates, decided by exhaustive Venn-region truth tables against their definitions
    (Meek 1995, restated in the source comments): rule_1(i, j): some parent of i is not adjacent to j;
    rule_2(i, j): some child of i is a parent of j."""
    from ..setpred import SetAlg
    I_, J_, A_ = ("param", "i"), ("param", "j"), ("param", "A")

    def c(name, node):
        return ("call", U + name, (node, A_), (("A", A_), ("i", node)))
    specs = {
        "rule_1": ([c("pa", I_), c("adj", J_)], lambda alg, w: alg.nonempty(("binop", "-", c("pa", I_), c("adj", J_)), w),
                   "pa(i) - adj(j) is non-empty"),
        "rule_2": ([c("ch", I_), c("pa", J_)], lambda alg, w: alg.nonempty(("binop", "&", c("ch", I_), c("pa", J_)), w),
                   "ch(i) & pa(j) is non-empty"),
    }
    for name, (atoms_, spec, text) in specs.items():
        f = need(prog, U + name)
        S = Sym(prog)
        summ, _ = run_function(S, f)
        rets = S.select("return", qname=f.qname)
        alg = SetAlg(atoms_)

        def code(w, rets=rets):
            # the function returns True on the first return whose path holds and whose value is true
            for r in rets:
                if all(alg.truth(cnd, w) == pol for cnd, pol in r.path):
                    return alg.truth(r.value, w)
            return False
        try:
            used = {x for r in rets for t_ in [r.value] + [cnd for cnd, _ in r.path] for x in walk(t_)
                    if isinstance(x, tuple) and x and x[0] == "call" and x[1].startswith(U)}
            if not used <= set(atoms_):
                # other node relations of i / j in the same graph: decided in the larger algebra. Regions are inhabited by third nodes k; for one
                # node, pa / ch / neighbors are pairwise disjoint and contained in adj - no other constraint ties k's relation to i with its relation to j
                extra = sorted(used - set(atoms_))
                rel = {U + "pa", U + "ch", U + "neighbors", U + "adj"}
                if len(atoms_) + len(extra) > 4 or not all(x[1] in rel and dict(x[3]).get("A") == A_ and dict(x[3]).get("i") in (I_, J_) and len(x[3]) == 2 for x in extra):
                    raise Inconclusive("uses other set atoms than %s" % [fmt(a) for a in atoms_])
                all_atoms = list(atoms_) + extra
                kinds = [(a[1].split(".")[-1], dict(a[3])["i"]) for a in all_atoms]

                def feasible(r, kinds=kinds):
                    for node in (I_, J_):
                        ins = [k for (k, n_), m in zip(kinds, r) if n_ == node and m]
                        if sum(1 for k in ins if k != "adj") > 1:
                            return False
                        if any(k != "adj" for k in ins) and ("adj", node) in kinds and "adj" not in ins:
                            return False
                    return True
                alg = SetAlg(all_atoms, max_atoms=4, feasible=feasible)
            ok, wit = alg.equal(code, lambda w: spec(alg, w))
            rep.check("RULES." + name, ok, fwhere(f), "%s(i, j, A) <=> %s, in all %d worlds of the two sets" % (name, text, (3 if alg.counting else 2) ** len(alg.regions)),
                      "%s deviates from its definition (%s): %s" % (name, text, wit))
        except Inconclusive as e:
            rep.unk("RULES." + name, fwhere(f), "%s is not a set predicate over %s: %s" % (name, [fmt(a) for a in atoms_], e.why))


def early_answer(rets):
    """a `return <computed value>` inside a loop of an existential search: the first element for which it is reached gives the answer (possibly False) and
    the remaining elements are never examined.  Not counted: constants, and a value that was just tested true on the way (`if hit: return hit`)."""
    for r_ in rets:
        if is_const(r_.value) or not getattr(r_, "loops", ()):
            continue
        if any(pol is True and cnd == r_.value for cnd, pol in literals(r_.path)):
            continue
        return r_
    return None


def quantified_rules(rep, prog):
    """rule_3 and rule_4 quantify over elements; decided role by role against their definitions (Meek 1995, restated in the
    source comments).  rule_3(i, j): two distinct, non-adjacent members k, l of n(i) & pa(j).  rule_4(i, j): some h in n(i) that is
    a parent of some k in pa(j) & n(i), h not adjacent to j.  The sets are compared as set expressions (Venn regions), the
    membership / adjacency tests literally; redundant emptiness guards are accepted, anything else is not decided."""
    from ..setpred import SetAlg
    from ..sym import CLOSURES
    I_, J_, A_ = ("param", "i"), ("param", "j"), ("param", "A")

    def c(name, node):
        return ("call", U + name, (node, A_), (("A", A_), ("i", node)))
    NI, PJ = c("neighbors", I_), c("pa", J_)

    def same_set(alg, t, spec):
        try:
            return alg.sets(t) == alg.sets(spec)
        except Inconclusive:
            return False

    def not_in(term, pol):
        """(x, S) when the condition under polarity `pol` says x not in S"""
        if term[0] == "unop" and term[1] == "not":
            return not_in(term[2], not pol)
        if term[0] == "cmp" and term[1] in ("not in", "in"):
            neg = (term[1] == "not in") == pol
            return (term[2], term[3]) if neg else None
        return None

    def flat_path(path):
        out = []
        for cnd, pol in path:
            if cnd[0] == "bool" and ((cnd[1] == "and" and pol is True) or (cnd[1] == "or" and pol is False)):
                out.extend(flat_path([(x, pol) for x in cnd[2]]))
            else:
                out.append((cnd, pol))
        return out

    def harmless(cnd, pol, sets_, alg, atleast=2):
        """an emptiness / size guard implied by the existence of the witnesses (`atleast` of them in the first set: two distinct ones for rule 3, one for rule 4)"""
        n_ = npred(cnd, pol)
        if n_[0] == "nonempty":
            return any(same_set(alg, n_[1], s_) for s_ in sets_)
        if cnd[0] == "cmp" and cnd[2][0] == "ext" and cnd[2][1] == "len" and is_const(cnd[3]) and pol is True:
            implied = ((">=", 2), (">", 1), (">=", 1), (">", 0), ("!=", 0)) if atleast >= 2 else ((">=", 1), (">", 0), ("!=", 0))
            return any(same_set(alg, cnd[2][2][0], s_) for s_ in sets_[:1]) and (cnd[1], cnd[3][1]) in implied
        if n_[0] in (">=0", ">0"):
            # the same guards in any spelling (2 <= len(X), not len(X) < 2): len(X) - k >= 0 with k <= 2, len(X) - k > 0 with k <= 1
            d_ = dict(n_[1])
            k_ = d_.pop((), 0)
            if len(d_) == 1:
                (mono, coef), = d_.items()
                if coef == 1 and len(mono) == 1 and mono[0][0] == "ext" and mono[0][1] == "len" and any(same_set(alg, mono[0][2][0], s_) for s_ in sets_[:1]):
                    return (n_[0] == ">=0" and -k_ in ((1, 2) if atleast >= 2 else (1,))) or (n_[0] == ">0" and -k_ in ((0, 1) if atleast >= 2 else (0,)))
        return False
    # ------------------------------------------------------------------ rule_3
    f = need(prog, U + "rule_3")
    S = Sym(prog)
    run_function(S, f)
    rets = S.select("return", qname=f.qname)
    trues = [r for r in rets if is_const(r.value, True)]
    falses = [r for r in rets if is_const(r.value, False)]
    alg = SetAlg([NI, PJ])
    X = ("binop", "&", NI, PJ)
    ok, why = False, "expected one `return True` inside the search and a final `return False`"
    undecided = None
    if len(trues) == 1 and len(falses) == 1 and len(rets) == 2 and not falses[0].path:
        r = trues[0]
        loops = [S.loopinfo[l] for l in r.loops if l in S.loopinfo]
        k = l = None
        if len(loops) == 2:
            k, l = ("elem", loops[0]["iter"]), ("elem", loops[1]["iter"])
            it0, it1 = loops[0]["iter"], loops[1]["iter"]
            distinct = it1[0] == "binop" and it1[1] == "-" and same_set(alg, it1[2], X) and it1[3] in (("set", (k,)),)
            both = same_set(alg, it0, X) and (distinct or same_set(alg, it1, X))
        elif len(loops) == 1 and loops[0]["iter"][0] == "ext" and loops[0]["iter"][1] in ("itertools.combinations", "itertools.permutations") \
                and len(loops[0]["iter"][2]) == 2 and is_const(loops[0]["iter"][2][1], 2):
            e = ("elem", loops[0]["iter"])
            k, l = ("sub", e, ("const", 0)), ("sub", e, ("const", 1))
            distinct = True
            both = same_set(alg, loops[0]["iter"][2][0], X)
        else:
            both = distinct = False
        if k is not None:
            test_ok = False
            rest = []
            for cnd, pol in flat_path(r.path):
                ni = not_in(cnd, pol)
                if ni is not None and ni in ((k, c("adj", l)), (l, c("adj", k))):
                    test_ok = True
                elif npred(cnd, pol) in (npred(("cmp", "!=", k, l), True), npred(("cmp", "!=", l, k), True)):
                    distinct = True
                elif not harmless(cnd, pol, [X], alg):
                    rest.append((cnd, pol))
            if rest:
                undecided = "further condition %s on the path to `return True`" % pred_fmt(npred(*rest[0]))[:80]
            ok = both and distinct and test_ok
            why = "witnesses from n(i) & pa(j): %s; distinct: %s; non-adjacency test k not in adj(l): %s" % (both, distinct, test_ok)
    shape3 = len(trues) == 1 and len(falses) == 1 and len(rets) == 2 and not falses[0].path
    ea = early_answer(rets)
    if ea is not None:
        rep.bad("RULES.rule_3", fwhere(f, ea.node), "rule_3 returns a computed answer (%s) from inside its search loop: the first candidate reached decides, the others are never examined" % fmt(ea.value)[:60])
    elif undecided and ok:
        rep.unk("RULES.rule_3", fwhere(f), "rule_3: " + undecided)
    elif not shape3 and any(not is_const(r_.value) for r_ in rets):
        # the rule computes its answer as an expression (a vectorised test, a set comparison) instead of searching for witnesses: not read
        rep.unk("RULES.rule_3", fwhere(f), "rule_3 is not written as a search that returns True at a witness and False at the end: not read")
    else:
        rep.check("RULES.rule_3", ok, fwhere(f, trues[0].node if trues else None), "rule_3(i, j, A) <=> two distinct non-adjacent k, l in neighbors(i) & pa(j)",
                  "rule_3 deviates from its definition: " + why)
    # ------------------------------------------------------------------ rule_4
    f = need(prog, U + "rule_4")
    S = Sym(prog)
    run_function(S, f)
    rets = S.select("return", qname=f.qname)
    trues = [r for r in rets if is_const(r.value, True)]
    falses = [r for r in rets if is_const(r.value, False)]
    KS = ("binop", "&", PJ, NI)
    ok, why, undecided = False, "expected one `return True` inside the search and a final `return False`", None
    if len(trues) == 1 and len(falses) == 1 and len(rets) == 2 and not falses[0].path:
        r = trues[0]
        loops = [S.loopinfo[l] for l in r.loops if l in S.loopinfo]
        if len(loops) == 1:
            it = loops[0]["iter"]
            h = ("elem", it)
            # the union of the parents of the members of Ks, in the spellings the engine can read
            unions = []
            wrong_union = None
            for x in walk(it):
                if isinstance(x, tuple) and x and x[0] == "ext" and x[1] == "functools.reduce" and len(x[2]) == 3 and x[2][0][0] == "closure" and x[2][2] in (("ext", "set", (), ()), ("set", ())):
                    clo = CLOSURES.get((x[2][0][1], x[2][0][2]))
                    if clo is not None:
                        try:
                            body = T(S.call_closure(clo, [("$acc",), ("$k",)], {}, clo.node, {}, S.module_ctx(f.module)))
                        except Inconclusive:
                            body = None
                        if body in (("binop", "|", ("$acc",), c("pa", ("$k",))), ("binop", "|", c("pa", ("$k",)), ("$acc",)), ("method", ("$acc",), "union", (c("pa", ("$k",)),), ())):
                            unions.append((x, x[2][1]))
                        elif body is not None:
                            wrong_union = body
                if isinstance(x, tuple) and x and x[0] == "comp" and len(x) >= 3:
                    pass
            okU = len(unions) == 1 and same_set(alg, unions[0][1], KS)
            if okU:
                Usym = ("UNION-PA-KS",)
                from ..sym import subst
                it2 = subst(it, {("ext", "set", (unions[0][0],), ()): Usym})
                it2 = subst(it2, {unions[0][0]: Usym})
                alg4 = SetAlg([NI, Usym])
                okH = same_set(alg4, it2, ("binop", "&", NI, Usym))
            else:
                okH = False
            test_ok = False
            rest = []
            for cnd, pol in flat_path(r.path):
                ni = not_in(cnd, pol)
                if ni is not None and ni in ((h, c("adj", J_)), (J_, c("adj", h))):
                    test_ok = True
                elif not (harmless(cnd, pol, [KS], alg, atleast=1) or npred(cnd, pol) == ("nonempty", it)):
                    rest.append((cnd, pol))
            if rest:
                undecided = "further condition %s on the path to `return True`" % pred_fmt(npred(*rest[0]))[:80]
            ok = okU and okH and test_ok
            why = "Ks = pa(j) & n(i) feeding the union of parents: %s; h ranges over n(i) & that union: %s; test h not in adj(j): %s" % (okU, okH, test_ok)
            if wrong_union is not None and not unions:
                ok, why = False, "the set h is taken from accumulates %s for k in Ks, not pa(k)" % fmt(wrong_union)[:60]
            elif not unions:
                undecided = undecided or "the union of the parents of Ks is not spelled as reduce(lambda acc, k: acc | pa(k, A), Ks, set())"
                ok = True
    shape4 = len(trues) == 1 and len(falses) == 1 and len(rets) == 2 and not falses[0].path
    ea = early_answer(rets)
    if ea is not None:
        rep.bad("RULES.rule_4", fwhere(f, ea.node), "rule_4 returns a computed answer (%s) from inside its search loop: the first candidate reached decides, the others are never examined" % fmt(ea.value)[:60])
    elif undecided and ok:
        rep.unk("RULES.rule_4", fwhere(f), "rule_4: " + undecided)
    elif not shape4 and any(not is_const(r_.value) for r_ in rets):
        rep.unk("RULES.rule_4", fwhere(f), "rule_4 is not written as a search that returns True at a witness and False at the end: not read")
    else:
        rep.check("RULES.rule_4", ok, fwhere(f, trues[0].node if trues else None), "rule_4(i, j, A) <=> some h in neighbors(i), parent of some k in pa(j) & neighbors(i), with h not adjacent to j",
                  "rule_4 deviates from its definition: " + why)


def pdag_rules(rep, prog):
    q = U + "pdag_to_icpdag"
    f = need(prog, q)
    S = Sym(prog)
    summ, _ = run_function(S, f)
    i = ("elem", PI)
    nb = ("call", U + "neighbors", (i, PP_), (("A", PP_), ("i", i)))
    raises = [r for r in S.select("raise", qname=q) if r.exctype == "ValueError"]
    hit = [r for r in raises if r.path and npred(r.path[-1][0], r.path[-1][1]) == ("nonempty", nb)]
    ext = [c for c in S.select("call", qname=q) if c.target == U + "pdag_to_dag"]
    ok = len(hit) == 1 and len(ext) == 1 and hit[0].order < ext[0].order and not getattr(ext[0], "in_try", None)
    rep.check("GUARD.undirected-at-target", ok, fwhere(f, hit[0].node if hit else None), "ValueError when some target has a neighbour (undirected edge) in P, before the extension search",
              "no ValueError exactly when a target has an undirected edge")
    e = call("pdag_to_dag", P=PP_)
    rep.check("PIPELINE.icpdag", T(summ.ret) == ("call", U + "dag_to_icpdag", (e, PI), (("G", e), ("I", PI))), fwhere(f), "= dag_to_icpdag(pdag_to_dag(P), I)",
              "pdag_to_icpdag is %s" % fmt(T(summ.ret))[:80])


def run(prog, rep, tier):
    node_label_truthiness(rep, prog, [U + n_ for n_ in ['imec', 'dag_to_icpdag', 'pdag_to_icpdag', 'maximally_orient', 'rule_1', 'rule_2', 'rule_3', 'rule_4', 'chain_graph_IMEC', 'pdag_to_dag']])
    isin_over_sets(rep, prog, [U + n_ for n_ in ['imec', 'dag_to_icpdag', 'pdag_to_icpdag', 'maximally_orient', 'rule_1', 'rule_2', 'rule_3', 'rule_4', 'chain_graph_IMEC', 'pdag_to_dag']])
    pattern_entries(prog, rep, [(U + "imec", "A"), (U + "dag_to_icpdag", "G")])
    dag_gate(rep, prog, U + "imec", "A", rule="GATE")
    imec_rules(rep, prog)
    from .common import inputs_intact
    inputs_intact(rep, prog, [U + n_ for n_ in ['imec', 'dag_to_icpdag', 'pdag_to_icpdag']])
    # dag_to_icpdag starts from dag_to_cpdag(G): the CPDAG construction is part of this property
    from .C08 import cpdag_core
    cpdag_core(rep, prog)
    # the essential graph is returned under `is_consistent_extension(G, P)`, which compares sets of v-structure triples
    from .C16 import vstructure_rules
    vstructure_rules(rep, prog)
    chain_rules(rep, prog)
    from .common import chain_test_rules
    chain_test_rules(rep, prog)
    icpdag_rules(rep, prog)
    meek_rules(rep, prog)
    meek_definitions(rep, prog)
    quantified_rules(rep, prog)
    pdag_rules(rep, prog)
    rep.require_count("ORIENT", 5)
    rep.require_count("GUARD", 3)
    rep.require_count("PAT.entry", 2)
    rep.assume("soundness/completeness of the four Meek rules themselves is not decided (C09 is not applicable to static analysis)")
