"""C07 - Markov equivalence classes and consistent extensions (narrow structural part).

Decided: (PATTERN) mec and is_consistent_extension(G, .) depend on a weighted DAG only through its zero
pattern; (GATE) mec / imec / is_consistent_extension raise ValueError for non-DAGs before anything else;
(MEMBER) is_consistent_extension is the conjunction of exactly: same v-structures, same skeleton, every
directed edge of P present in G; (FILTER) every graph all_dags returns passed is_dag and
is_consistent_extension(., pdag), and was built from a copy of pdag by clearing entries only, at positions
taken from its undirected edges; a PDAG without undirected edges is returned as its own single extension;
(DISPATCH) mec returns the chain shortcut only under `check_chain and is_chain_graph(A)`, else
all_dags(dag_to_cpdag(A)); (CHAIN) chain_graph_MEC builds, for every root i in range(p), a fresh zero
matrix with edges j -> j-1 for j in [1, i] and j -> j+1 for j in [i, p-2]: lower endpoints [0, i-1] and
[i, p-2] partition the p-1 chain edges, each oriented once, away from the root.
Also decided (shared with C08 / C16): the construction of the CPDAG that mec enumerates from (order_edges / label_edges / assembly,
role by role) and canonical v-structure triples, since membership compares sets of triples.
Not decided: that all 2^u orientations are generated, uniqueness, shortcut = general path.
"""
from .common import *

EXPLANATION = __doc__
PA_, PG, PP_ = ("param", "A"), ("param", "G"), ("param", "P")


def call(name, **named):
    return ("call", U + name, tuple(named.values()), tuple(sorted(named.items())))


def sym_eq(t):
    """normalise the operand order of == / & terms"""
    if isinstance(t, tuple) and t and t[0] == "cmp" and t[1] == "==":
        a, b = sorted([sym_eq(t[2]), sym_eq(t[3])], key=repr)
        return ("cmp", "==", a, b)
    if isinstance(t, tuple):
        return tuple(sym_eq(x) if isinstance(x, tuple) else x for x in t)
    return t


def member_rules(rep, prog):
    q = U + "is_consistent_extension"
    f = need(prog, q)
    S = Sym(prog)
    summ, _ = run_function(S, f)
    ret = T(summ.ret)
    vsP, vsG = call("vstructures", A=PP_), call("vstructures", A=PG)
    skP, skG = call("skeleton", A=PP_), call("skeleton", A=PG)
    odP = call("only_directed", P=PP_)
    want = {sym_eq(("cmp", "==", vsP, vsG)),
            sym_eq(("method", ("cmp", "==", skP, skG), "all", (), ())),
            ("method", ("sub", PG, ("cmp", "!=", odP, ("const", 0))), "all", (), ())}
    alt3 = ("method", ("sub", PG, ("method", odP, "astype", (("extref", "bool"),), ())), "all", (), ())
    got = {sym_eq(x) for x in ret[2]} if ret[0] == "bool" and ret[1] == "and" else {sym_eq(ret)}
    if got == want or got == (want - {("method", ("sub", PG, ("cmp", "!=", odP, ("const", 0))), "all", (), ())}) | {alt3}:
        rep.ok("MEMBER.conjunction", fwhere(f), "consistent extension = same v-structures and same skeleton and directed edges of P kept in G")
        return
    # which defining condition is not consulted at all?  (must-depend: certain)
    missing = [n for n, t in (("vstructures(P)", vsP), ("vstructures(G)", vsG), ("skeleton(P)", skP), ("skeleton(G)", skG), ("only_directed(P)", odP))
               if not mentions(ret, t)]
    def other_uses(t):
        # does the term read P or G anywhere outside the two v-structure calls?
        if t in (vsP, vsG):
            return False
        if t in (PP_, PG):
            return True
        return isinstance(t, tuple) and any(other_uses(x) for x in t if isinstance(x, tuple))
    known = want | {alt3}
    subset_of_known = bool(got) and got <= known           # the recognised conditions, some of them left out: decided
    paths = [c for r_ in S.select("return", qname=q) for c, _ in r_.path]
    if missing and not any(m.startswith("vstructures") for m in missing) and not subset_of_known and (other_uses(ret) or any(other_uses(c) for c in paths)):
        # the skeleton / orientation conditions are not computed with skeleton() / only_directed(), but the result does read P and G in some other
        # way (entry-pattern masks, guard clauses): whether that is the same condition is not decided
        rep.unk("MEMBER.conjunction", fwhere(f), "the result reads P and G outside vstructures(), but not through %s: whether the skeleton and orientation conditions are still enforced is not read" % ", ".join(missing))
    elif missing:
        rep.bad("MEMBER.conjunction", fwhere(f), "the result does not depend on %s: a defining condition of consistent extensions is ignored" % ", ".join(missing))
    elif ret[0] == "bool" and ret[1] == "or":
        rep.bad("MEMBER.conjunction", fwhere(f), "the three conditions are combined with `or`")
    else:
        rep.unk("MEMBER.conjunction", fwhere(f), "membership predicate is not the recognised three-way conjunction: %s" % fmt(ret)[:160])


def all_dags_rules(rep, prog):
    q = U + "all_dags"
    f = need(prog, q)
    S = Sym(prog)
    summ, _ = run_function(S, f)
    pd = ("param", "pdag")
    rets = S.select("return", qname=q)
    filt = [r for r in rets if any(isinstance(x, tuple) and x[0] == "comp" for x in walk(r.value))]
    ok, why = False, "no filtered result"
    cand_list = None
    if len(filt) == 1:
        comp = [x for x in walk(filt[0].value) if isinstance(x, tuple) and x[0] == "comp"][0]
        gens = comp[3]
        if len(gens) == 1:
            it = gens[0][1]
            e = ("elem", it)
            conds = set()
            for c in gens[0][2]:
                conds |= set(c[2]) if c[0] == "bool" and c[1] == "and" else {c}
            want = {call("is_dag", A=e), ("call", U + "is_consistent_extension", (e, pd), (("G", e), ("P", pd)))}
            # a candidate is pdag with every undirected edge oriented one way (FILTER.candidates, ORIENTATIONS.*): skeleton and
            # directed edges are kept by construction, so comparing the v-structures alone is the same membership test
            vs_ = lambda x: ("call", U + "vstructures", (x,), (("A", x),))
            want_vs = [{call("is_dag", A=e), ("cmp", "==", vs_(e), vs_(pd))}, {call("is_dag", A=e), ("cmp", "==", vs_(pd), vs_(e))}]
            ok = comp[2] == e and (conds == want or conds in want_vs)
            why = "kept under %s" % sorted(fmt(c)[:60] for c in conds)
            cand_list = it
    if not filt:
        # the same filter written as a loop:  for A in dags: if is_dag(A) and is_consistent_extension(A, pdag): members.append(A)
        for lid2, li2 in S.loopinfo.items():
            if li2["func"] != q or li2["iter"] is None or li2["iter"][0] != "after":
                continue
            e = ("elem", li2["iter"])
            apps2 = [c for c in S.select("call", qname=q) if c.callkind == "method" and c.target == ".append" and c.loops and c.loops[-1] == lid2 and c.args == [e]]
            if len(apps2) != 1 or apps2[0].recv[0] != "mu":
                continue
            have = conj(apps2[0].path)
            want_ = {("atom", call("is_dag", A=e), True), ("atom", ("call", U + "is_consistent_extension", (e, pd), (("G", e), ("P", pd))), True)}
            got_ = {x for x in have if x[0] == "atom" and isinstance(x[1], tuple) and x[1][0] == "call"}
            res_name = apps2[0].recv[2]
            users = [r for r in rets if any(x == ("after", lid2, res_name) for x in walk(r.value))]
            if len(users) == 1:
                ok = got_ == want_
                why = "kept under %s" % sorted(fmt(c[1])[:60] for c in got_)
                cand_list = li2["iter"]
                filt = users
    rep.check("FILTER.both", ok, fwhere(f, filt[0].node if filt else None), "a candidate is returned only if is_dag(A) and is_consistent_extension(A, pdag)",
              "the result filter is not `is_dag(A) and is_consistent_extension(A, pdag)`: " + why)
    # candidates: copies of pdag with cleared entries at undirected-edge positions
    apps = [c for c in S.select("call", qname=q) if c.callkind == "method" and c.target == ".append"]
    if cand_list is not None and cand_list[0] == "after":
        apps = [c for c in apps if c.recv == ("mu", cand_list[1], cand_list[2])]
    ok, why = False, "no candidate construction"
    und = call("only_undirected", P=pd)
    if len(apps) == 1 and cand_list is not None and cand_list[0] == "after":
        v = apps[0].args[0]
        und_list = ("call", U + "undirected_edges", (pd,), (("P", pd),))         # the library's own list of these positions (C16 decides what it holds)
        ok = v[0] == "store" and v[1] == ("method", pd, "copy", (), ()) and is_const(v[3], 0) and v[4] is None and (mentions(v[2], und) or mentions(v[2], und_list)) and \
            apps[0].recv == ("mu", cand_list[1], cand_list[2])
        why = fmt(v)[:100]
    rep.check("FILTER.candidates", ok, fwhere(f, apps[0].node if apps else None), "candidate = pdag.copy() with entries of undirected edges set to 0 (nothing added, directed part untouched)",
              "candidates are not `copy of pdag with undirected-edge entries cleared`: " + why)
    triv = [r for r in rets if r not in filt]
    ok = len(triv) == 1 and triv[0].value in (("ext", "numpy.array", (("list", (("method", pd, "copy", (), ()),)),), ()),
                                               ("ext", "numpy.array", (("list", (pd,)),), ())) and \
        any(npred(c, pol)[0] in ("empty", "==0") for c, pol in triv[0].path)
    rep.check("FILTER.trivial", ok, fwhere(f, triv[0].node if triv else None), "without undirected edges the PDAG itself is the single candidate",
              "the no-undirected-edge case does not return [pdag.copy()]")


def orientation_rules(rep, prog):
    """structure of the enumeration in all_dags: the loop runs over the cartesian product of one {True, False} choice
    per undirected edge, and a choice orients its edge one way or the other - never both, never neither"""
    q = U + "all_dags"
    f = need(prog, q)
    S = Sym(prog)
    run_function(S, f)
    loops = [(k, v) for k, v in S.loopinfo.items() if v["func"] == q and v["iter"] is not None]
    if len(loops) > 1:
        # further loops (e.g. an explicit filter loop over the candidates) are not the enumeration
        enum = [(k, v) for k, v in loops if v["iter"][0] == "call" and v["iter"][1] == U + "cartesian"]
        loops = enum if len(enum) == 1 else loops
    if len(loops) != 1:
        rep.unk("ORIENTATIONS.product", fwhere(f), "all_dags no longer enumerates orientations in one loop; the rule does not read this idiom")
        return
    lid, li = loops[0]
    it = li["iter"]
    ue = None
    ok = False
    FULL = ("slice", ("const", None), ("const", None), ("const", None))
    if it[0] == "call" and it[1] == U + "cartesian":
        arrs = dict(it[3]).get("arrays")
        two = ("ext", "numpy.array", (("list", (("const", True), ("const", False))),), ())
        two2 = ("ext", "numpy.array", (("list", (("const", False), ("const", True))),), ())
        if arrs is not None and arrs[0] == "binop" and arrs[1] == "*" and arrs[2] in (("list", (two,)), ("list", (two2,))) and \
                arrs[3][0] == "ext" and arrs[3][1] == "len":
            ue = arrs[3][2][0]
            ok = dict(it[3]).get("dtype") == ("extref", "bool")
    rep.check("ORIENTATIONS.product", ok, fwhere(f, li["node"]), "one combination per element of {True, False}^u, u = number of undirected edges",
              "the loop does not run over the product of one boolean choice per undirected edge: %s" % fmt(it)[:100])
    if not ok:
        return
    flip = ("elem", it)
    sts = [s_ for s_ in S.select("store", qname=q) if lid in s_.loops]
    per_edge = [s_ for s_ in sts if s_.idx[0] == "tuple" and len(s_.idx[1]) == 2 and s_.idx[1][1] == FULL]
    clear = [s_ for s_ in sts if s_ not in per_edge]
    nots = [("cmp", "==", flip, ("const", False)), ("unop", "~", flip), ("ext", "numpy.logical_not", (flip,), ()), ("unop", "not", flip)]

    def cols(t):
        # ue[:, [a, b]][mask]  ->  ((a, b), mask)   ;  ue[mask] -> ((0, 1), mask)
        if t[0] == "sub" and t[1][0] == "sub" and t[1][1] == ue and t[1][2][0] == "tuple" and t[1][2][1][0] == FULL and t[1][2][1][1][0] == "list":
            c = tuple(x[1] for x in t[1][2][1][1][1] if is_const(x))
            return c, t[2]
        if t[0] == "sub" and t[1] == ue:
            return (0, 1), t[2]
        return None, None
    seen = {}
    good = len(per_edge) == 2
    for s_ in per_edge:
        m = s_.idx[1][0]
        c, m2 = cols(s_.value)
        if c is None or m2 != m or s_.aug is not None:
            good = False
            continue
        seen["flip" if m == flip else "keep" if m in nots else "?"] = c
    good = good and set(seen) == {"flip", "keep"} and {seen["flip"], seen["keep"]} == {(0, 1), (1, 0)}
    unread = False
    if not per_edge:
        # one expression instead of two masked stores: np.where(flipped[:, None], edges[:, [1, 0]], edges)
        def cols2(t):
            if t == ue:
                return (0, 1)
            if t[0] == "sub" and t[1] == ue and t[2][0] == "tuple" and len(t[2][1]) == 2 and t[2][1][0] == FULL and t[2][1][1][0] == "list":
                return tuple(x[1] for x in t[2][1][1][1] if is_const(x))
            return None
        column_of_flip = (("sub", flip, ("tuple", (FULL, ("const", None)))), ("sub", flip, ("tuple", (FULL, ("extref", "numpy.newaxis")))),
                          ("method", flip, "reshape", (("const", -1), ("const", 1)), ()), ("method", flip, "reshape", (("tuple", (("const", -1), ("const", 1))),), ()))
        wh = [x for c_ in clear for x in walk(c_.idx) if isinstance(x, tuple) and len(x) == 4 and x[0] == "ext" and x[1] == "numpy.where" and len(x[2]) == 3]
        if wh and all(w_ == wh[0] for w_ in wh) and wh[0][2][0] in column_of_flip and None not in (cols2(wh[0][2][1]), cols2(wh[0][2][2])):
            seen = {"flip": cols2(wh[0][2][1]), "keep": cols2(wh[0][2][2])}
            good = {seen["flip"], seen["keep"]} == {(0, 1), (1, 0)}
        else:
            unread = True
    if unread:
        rep.unk("ORIENTATIONS.both-ways", fwhere(f, li["node"]), "the orientation chosen for each undirected edge is not written as two complementary masked stores or one np.where: not read")
    else:
        rep.check("ORIENTATIONS.both-ways", good, fwhere(f, li["node"]), "a True choice stores the edge as (j, i), a False choice as (i, j): complementary masks, swapped columns",
                  "the two per-edge assignments are not `flipped -> one orientation, not flipped -> the other`: %s" % seen)
    okc = False
    if len(clear) == 1 and clear[0].idx[0] == "tuple" and len(clear[0].idx[1]) == 2:
        a, b = clear[0].idx[1]
        def col(t):
            return t[2][1][1][1] if t[0] == "sub" and t[2][0] == "tuple" and t[2][1][0] == FULL and is_const(t[2][1][1]) else None
        okc = {col(a), col(b)} == {0, 1} and a[1] == b[1] and is_const(clear[0].value, 0) and clear[0].base == ("method", ("param", "pdag"), "copy", (), ())
    rep.check("ORIENTATIONS.clear", okc, fwhere(f, clear[0].node if clear else None), "for each oriented pair exactly one of the two entries of the undirected edge is cleared",
              "the candidate is not obtained by clearing one entry per undirected edge")


def dispatch_rules(rep, prog):
    q = U + "mec"
    f = need(prog, q)
    S = Sym(prog)
    run_function(S, f)
    rets = S.select("return", qname=q)
    chain = [r for r in rets if r.value[0] == "call" and r.value[1] == U + "chain_graph_MEC"]
    gen = [r for r in rets if r.value[0] == "call" and r.value[1] == U + "all_dags"]
    ok = len(rets) == 2 and len(chain) == 1 and len(gen) == 1
    if ok:
        c = chain[0]
        cond = resolve(conj(c.path))
        ok = ("atom", ("param", "check_chain"), True) in cond and ("atom", call("is_chain_graph", A=PA_), True) in cond and \
            dict(c.value[3]).get("p") == ("ext", "len", (PA_,), ())
        g = gen[0]
        ok = ok and dict(g.value[3]).get("pdag") == call("dag_to_cpdag", G=PA_)
    rep.check("DISPATCH.mec", ok, fwhere(f), "chain shortcut iff check_chain and is_chain_graph(A); otherwise all_dags(dag_to_cpdag(A))",
              "mec does not dispatch between chain_graph_MEC(len(A)) and all_dags(dag_to_cpdag(A)) as documented")


def chain_rules(rep, prog):
    q = U + "chain_graph_MEC"
    f = need(prog, q)
    S = Sym(prog)
    summ, _ = run_function(S, f)
    loops = sorted([(k, v) for k, v in S.loopinfo.items() if v["func"] == q], key=lambda kv: kv[0][1])
    p = ("param", "p")
    if len(loops) == 1 and loops[0][1]["iter"] == ("ext", "range", (p,), ()):
        # the two inner loops written as index-array stores: A[J, J - 1] = 1 with J = arange(1, i + 1); A[J, J + 1] = 1 with J = arange(i, p - 1)
        lo, lout = loops[0]
        i = ("elem", lout["iter"])
        spans = []
        sts = [s_ for s_ in S.select("store", qname=q) if lo in s_.loops]
        for s_ in sts:
            if not (s_.idx[0] == "tuple" and len(s_.idx[1]) == 2 and is_const(s_.value, 1) and s_.aug is None):
                spans.append(("?", fmt(s_.idx)[:60]))
                continue
            r, c = s_.idx[1]
            ar = lambda a_, b_: [("ext", "numpy.arange", (a_, b_), ()), ("ext", "numpy.array", (("ext", "range", (a_, b_), ()),), ()), ("ext", "list", (("ext", "range", (a_, b_), ()),), ())]
            if r in ar(("const", 1), ("binop", "+", i, ("const", 1))) and c == ("binop", "-", r, ("const", 1)):
                spans.append(("back", 0, "i-1"))
            elif r in ar(i, ("binop", "-", p, ("const", 1))) and c == ("binop", "+", r, ("const", 1)):
                spans.append(("fwd", "i", "p-2"))
            else:
                spans.append(("?", fmt(s_.idx)[:80]))
        if any(sp[0] == "?" for sp in spans) and not any(sp[0] != "?" for sp in spans):
            rep.unk("CHAIN.partition", fwhere(f), "chain edges are stored in a vectorised form these rules do not read: %s" % (spans,))
            return
        rep.check("CHAIN.partition", sorted(sp[0] for sp in spans) == ["back", "fwd"], fwhere(f),
                  "root i: edges j->j-1 for j in [1,i] and j->j+1 for j in [i,p-2] (index-array stores); lower endpoints [0,i-1] ∪ [i,p-2] = all p-1 chain edges, once each",
                  "chain edges are not partitioned into backward [0,i-1] and forward [i,p-2] halves: %s" % (spans,))
        apps = [c for c in S.select("call", qname=q) if c.callkind == "method" and c.target == ".append"]
        zeros = ("ext", "numpy.zeros", (("tuple", (p, p)),), ())
        bases = set()
        for s_ in sts:
            b_ = s_.base
            while isinstance(b_, tuple) and b_[0] == "store":
                b_ = b_[1]
            bases.add(b_)
        rep.check("CHAIN.roots", len(apps) == 1 and apps[0].loops == (lo,) and bases == {zeros}, fwhere(f), "one fresh zero p x p matrix per root, appended once",
                  "graphs are not built from a fresh zero matrix once per root")
        return
    if len(loops) == 2 and loops[0][1]["iter"] == ("ext", "range", (p,), ()) and loops[1][1]["iter"] == ("ext", "range", (("binop", "-", p, ("const", 1)),), ()):
        # one inner loop over the p-1 links k - (k+1): backward (k+1 -> k) when the link lies before the root (k < i), forward otherwise
        (lo, lout), (li2, lin2) = loops
        i = ("elem", lout["iter"])
        k = ("elem", lin2["iter"])
        sts = [s_ for s_ in S.select("store", qname=q) if li2 in s_.loops and is_const(s_.value, 1) and s_.aug is None and s_.idx[0] == "tuple" and len(s_.idx[1]) == 2]
        k1 = ("binop", "+", k, ("const", 1))
        before = npred(("cmp", "<", k, i), True)
        kinds = {}
        for s_ in sts:
            cond = npred(s_.path[-1][0], s_.path[-1][1]) if s_.path else None
            tail = tuple(s_.path[:-1])
            if tuple(s_.idx[1]) == (k1, k) and cond == before:
                kinds["back"] = tail
            elif tuple(s_.idx[1]) == (k, k1) and cond == negate_pred(before):
                kinds["fwd"] = tail
            elif tuple(s_.idx[1]) in ((k1, k), (k, k1)) and cond is not None and cond[0] in (">0", ">=0"):
                kinds["wrong-condition"] = "%s under %s" % (fmt(s_.idx)[:40], pred_fmt(cond))
            else:
                kinds["?"] = fmt(s_.idx)[:60]
        if len(sts) == 2 and set(kinds) == {"back", "fwd"} and kinds["back"] == kinds["fwd"]:
            rep.ok("CHAIN.partition", fwhere(f, lin2["node"]), "root i: link k is k+1 -> k for k < i and k -> k+1 for k >= i, k over all p-1 links: each chain edge once, pointing away from the root")
            apps = [c for c in S.select("call", qname=q) if c.callkind == "method" and c.target == ".append"]
            zeros = ("ext", "numpy.zeros", (("tuple", (p, p)),), ())
            rep.check("CHAIN.roots", len(apps) == 1 and apps[0].loops == (lo,) and list(lin2["init"].values()) == [zeros], fwhere(f), "one fresh zero p x p matrix per root, appended once",
                      "graphs are not built from a fresh zero matrix once per root")
        elif "?" in kinds or len(sts) != 2:
            rep.unk("CHAIN.partition", fwhere(f, lin2["node"]), "one loop over the links whose stores are not read: %s" % (kinds,))
        else:
            rep.bad("CHAIN.partition", fwhere(f, lin2["node"]), "the links are not oriented away from the root: %s" % (sorted(kinds),))
        return
    if len(loops) != 3:
        rep.unk("CHAIN.partition", fwhere(f), "chain enumeration is no longer three nested range loops; the interval rule does not read this idiom")
        return
    outer = [kv for kv in loops if kv[1]["iter"] == ("ext", "range", (p,), ())]
    if len(outer) != 1:
        if any(kv[1]["iter"] is None for kv in loops):
            rep.unk("CHAIN.roots", fwhere(f), "the roots are enumerated by a while loop: the counting form is not read")
            return
        rep.bad_form("CHAIN.roots", fwhere(f), "no loop over range(p): not one graph per root position")
        return
    lo, lout = outer[0]
    i = ("elem", lout["iter"])
    inner = [kv for kv in loops if kv[0] != lo]
    stores = S.select("store", qname=q)
    spans = []
    for lid, li in inner:
        j = ("elem", li["iter"])
        st = [s for s in stores if lid in s.loops]
        if len(st) != 1 or not is_const(st[0].value, 1) or st[0].idx[0] != "tuple":
            rep.unk("CHAIN.partition", fwhere(f, li["node"]), "inner loop does not set exactly one entry to 1")
            return
        r, c = st[0].idx[1]
        it = li["iter"]
        # backward: range(i, 0, -1) with store [j, j-1]  -> lower endpoints j-1 in [0, i-1]
        if it == ("ext", "range", (i, ("const", 0), ("const", -1)), ()) and r == j and c == ("binop", "-", j, ("const", 1)):
            spans.append(("back", 0, "i-1"))
        elif it == ("ext", "range", (("const", 1), ("binop", "+", i, ("const", 1))), ()) and r == j and c == ("binop", "-", j, ("const", 1)):
            spans.append(("back", 0, "i-1"))
        elif it == ("ext", "range", (i, ("binop", "-", p, ("const", 1))), ()) and r == j and c == ("binop", "+", j, ("const", 1)):
            spans.append(("fwd", "i", "p-2"))
        else:
            spans.append(("?", fmt(it), fmt(st[0].idx)))
    ok = sorted(s[0] for s in spans) == ["back", "fwd"]
    rep.check("CHAIN.partition", ok, fwhere(f), "root i: edges j->j-1 for j in [1,i] and j->j+1 for j in [i,p-2]; lower endpoints [0,i-1] ∪ [i,p-2] = all p-1 chain edges, once each",
              "chain edges are not partitioned into backward [0,i-1] and forward [i,p-2] halves: %s" % (spans,))
    apps = [c for c in S.select("call", qname=q) if c.callkind == "method" and c.target == ".append"]
    zeros = ("ext", "numpy.zeros", (("tuple", (p, p)),), ())
    inits = [v for _, li in inner for v in li["init"].values()]
    fresh = all(v == zeros or v[0] == "after" for v in inits)
    zero_start = any(v == zeros for v in inits)
    rep.check("CHAIN.roots", len(apps) == 1 and apps[0].loops == (lo,) and zero_start and fresh, fwhere(f), "one fresh zero p x p matrix per root, appended once",
              "graphs are not built from a fresh zero matrix once per root")


def run(prog, rep, tier):
    node_label_truthiness(rep, prog, [U + n_ for n_ in ['mec', 'all_dags', 'is_consistent_extension', 'chain_graph_MEC', 'vstructures', 'skeleton', 'only_directed']])
    isin_over_sets(rep, prog, [U + n_ for n_ in ['mec', 'all_dags', 'is_consistent_extension', 'chain_graph_MEC', 'vstructures', 'skeleton', 'only_directed']])
    pattern_entries(prog, rep, [(U + "mec", "A"), (U + "is_consistent_extension", "G")])
    for q, p in ((U + "mec", "A"), (U + "imec", "A"), (U + "is_consistent_extension", "G")):
        dag_gate(rep, prog, q, p, rule="GATE")
    # mec(A) = all_dags(dag_to_cpdag(A)): the class is enumerated from the CPDAG, so its construction is part of this property
    from .C08 import cpdag_core
    cpdag_core(rep, prog)
    member_rules(rep, prog)
    from .common import inputs_intact
    inputs_intact(rep, prog, [U + n_ for n_ in ['mec', 'all_dags', 'is_consistent_extension', 'dag_to_cpdag']])
    # membership compares *sets* of v-structure triples: the triples must be canonical ((min, c, max), unshielded colliders)
    from .C16 import vstructure_rules
    vstructure_rules(rep, prog)
    all_dags_rules(rep, prog)
    orientation_rules(rep, prog)
    dispatch_rules(rep, prog)
    chain_rules(rep, prog)
    from .common import chain_test_rules
    chain_test_rules(rep, prog)
    rep.require_count("PAT.entry", 2)
    rep.require_count("GATE", 6)
    rep.require_count("FILTER", 3)
    rep.assume("completeness / uniqueness of the 2^u enumeration and shortcut = general path are not decided (DESIGN.md C07)")


from ..pred import resolve, conj, negate as negate_pred  # noqa: E402
