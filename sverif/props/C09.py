"""C09 - consistent-extension search and Meek orientation (narrow structural part).

The property is a theorem about two algorithms (Dor & Tarsi 1992; Meek 1995).  What is decided here is that the code *is* those
algorithms, clause by clause - not the theorems themselves.

pdag_to_dag (SINK.*, SCAN.*, RAISE.*; INDEX.* / EXTENSION.raises shared with C08):
  * the node removed in a round satisfies Dor-Tarsi's condition, read from the symbolic value of the `found` flag:
    (a) it has no children in the *remaining* graph - decided as a set predicate over ch(i, P) in both worlds of that set;
    (b) for *every* neighbour y of i (quantifier and domain read from the comprehension), adj(i) - {y} is a subset of adj(y) -
        decided in every Venn world of adj(i), {y}, adj(y) (and neighbors(i) when the code mentions it) that respects
        {y} <= neighbors(i) <= adj(i) and y not in adj(y);
    (c) both, joined by `and`;
  * the scan tries every remaining node: index from 0, advanced by one exactly when the node is not admissible, while i < len(P);
  * ValueError is raised exactly when a scan ends without an admissible node and nodes remain (path condition of the raise);
  * the result starts as the directed part, names and matrix shrink together, the sink's undirected edges point to it (C08's rules).
has_consistent_extension (HCE.table): True exactly when pdag_to_dag(pdag) returns, False exactly when it raises ValueError; nothing
  else is caught.
maximally_orient (GUARD.extension, ORIENT.*, RULES.* - shared with C10): fails first for PDAGs without extension; works on a copy;
  candidates are the undirected edges; a branch guarded by rule_1..4(a, b, P) clears exactly P[b, a]; all four rules in both
  directions; repeated until a pass orients nothing; rule_1 / rule_2 equal Meek's rules as set predicates in every Venn world,
  rule_3 / rule_4 role by role.
The node relations the rules are written in (pa / ch / neighbors / adj) are decided by their pointwise tables (C15's PW.relation).

Not decided: that Dor-Tarsi's condition characterises extendability, that rules 1-4 are sound and complete for PDAGs with
background knowledge (the theorems), and termination arguments.
"""
from .common import *
from ..pred import npred
from ..setpred import SetAlg

EXPLANATION = __doc__
REL = {U + n for n in ("pa", "ch", "neighbors", "adj")}


def relcall(name, node, mat):
    return ("call", U + name, (node, mat), (("A", mat), ("i", node)))


def rel_atoms(t):
    return [x for x in walk(t) if isinstance(x, tuple) and len(x) == 4 and x[0] == "call" and x[1] in REL]


def conjuncts(t):
    if isinstance(t, tuple) and t and t[0] == "bool" and t[1] == "and":
        out = []
        for x in t[2]:
            out += conjuncts(x)
        return out
    if isinstance(t, tuple) and t and t[0] == "unop" and t[1] == "truth":
        return conjuncts(t[2])
    return [t]


QUANT_ALL = {"numpy.all", "all", "numpy.alltrue"}
QUANT_ANY = {"numpy.any", "any", "numpy.sometrue"}


def sink_rules(rep, prog):
    q = U + "pdag_to_dag"
    f = need(prog, q)
    S = Sym(prog)
    run_function(S, f)
    rs = [r for r in S.select("raise", qname=q) if r.exctype == "ValueError"]
    if len(rs) != 1:
        rep.bad_form("RAISE.iff", fwhere(f), "expected one ValueError exit in pdag_to_dag, found %d" % len(rs))
        return
    r = rs[0]
    # the raise sits behind the flag left by the scan: (after<flag@scan>, False), or `not after<flag>` taken True
    lits = literals(r.path)
    flagc = None
    for cnd, pol in reversed(lits):
        if cnd[0] == "after" and pol is False:
            flagc = cnd
            break
    if flagc is None:
        if for_else_scan(rep, S, f, q, r, lits):
            return
        inverted = [cnd for cnd, pol in lits if cnd[0] == "after" and pol is True and S.loopinfo.get(cnd[1], {}).get("test") is not None and
                    (cnd[2], False) in [(x[2], pl) for x, pl in literals([(S.loopinfo[cnd[1]]["test"], True)]) if x[0] == "mu"]]
        if inverted:
            rep.bad("RAISE.iff", fwhere(f, r.node), "ValueError is raised when the scan *found* an admissible node (the flag is tested with the wrong polarity)")
            return
        rep.unk("RAISE.iff", fwhere(f, r.node), "the ValueError is not raised on a flag left by the scan for a sink (`if not found: raise`): not read")
        return
    scan, flag = flagc[1], flagc[2]
    lp = S.loopinfo.get(scan)
    if lp is None or lp["test"] is None:
        rep.unk("SCAN.complete", fwhere(f, r.node), "the scan for a sink is not a while loop with a counter: not read")
        return
    outer = [(k, v) for k, v in S.loopinfo.items() if v["func"] == q and v["test"] is not None and k != scan]
    extra = []
    for cnd, pol in lits:
        if cnd == flagc:
            continue
        if any((cnd, pol) in literals([(v["test"], True)]) for _, v in outer):
            continue
        extra.append("%s is %s" % (fmt(cnd)[:60], pol))
    rep.check("RAISE.iff", not extra, fwhere(f, r.node), "ValueError exactly when a scan over the remaining nodes ends without an admissible sink",
              "the ValueError needs more than a failed scan: it is raised only if also " + "; ".join(extra))
    outer_test(rep, f, S, q, scan)
    # ---- the scan
    mu = lambda n: ("mu", scan, n)
    ints = [k for k, v in lp["init"].items() if is_const(v) and isinstance(v[1], int) and not isinstance(v[1], bool)]
    mats = [k for k, v in lp["init"].items() if isinstance(v, tuple) and v and v[0] == "mu"]
    found_next = lp["next"].get(flag)
    if len(ints) != 1 or found_next is None:
        rep.unk("SCAN.complete", fwhere(f, lp["node"]), "scan index / flag of the sink search not identified")
        return
    iv = ints[0]
    mui = mu(iv)
    # which loop-carried matrix the test compares the index with
    tl = literals([(lp["test"], True)])
    bound = [(c, pl) for c, pl in tl if c[0] == "cmp" and mui in (c[2], c[3])]
    stop = [(c, pl) for c, pl in tl if (c, pl) not in bound]
    Pn = None
    okb = False
    if len(bound) == 1:
        ms = sorted({x[2] for x in walk(bound[0][0]) if isinstance(x, tuple) and len(x) == 3 and x[0] == "mu" and x[1] == scan and x[2] not in (iv, flag)})
        if len(ms) == 1:
            Pn = ms[0]
            try:
                okb = npred(bound[0][0], bound[0][1]) == npred(("cmp", "<", mui, ("ext", "len", (mu(Pn),), ())))
            except Inconclusive:
                Pn = None
    okstop = stop == [(mu(flag), False)]
    flag_init = lp["init"].get(flag)
    nx = lp["next"].get(iv)
    step = ("binop", "+", mui, ("const", 1))
    okstep = nx is not None and nx[0] == "phi" and nx[1] == found_next and nx[2] == mui and nx[3] in (step, ("binop", "+", ("const", 1), mui))
    init0 = is_const(lp["init"][iv], 0)
    if Pn is None or nx is None or nx[0] != "phi":
        rep.unk("SCAN.complete", fwhere(f, lp["node"]), "the scan is not `i = 0; while not found and i < len(P): ... else: i += 1`: not read")
    else:
        why = []
        if not init0:
            why.append("the scan starts at node %s" % fmt(lp["init"][iv]))
        if is_const(flag_init) and flag_init[1] is not False:
            why.append("the flag is %s before the scan, so the scan never runs (and nothing is removed: the search does not end)" % fmt(flag_init))
        if not okb:
            why.append("the scan runs while %s%s" % ("" if bound[0][1] else "not ", fmt(bound[0][0])[:60]))
        if not okstop:
            why.append("the scan does not stop at the first admissible node (%s)" % "; ".join(fmt(c)[:40] for c, _ in stop))
        if not okstep:
            why.append("the index moves as %s" % fmt(nx)[-80:])
        rep.check("SCAN.complete", not why, fwhere(f, lp["node"]), "every remaining node is tried: from 0, one step exactly when the node is not admissible, while i < len(P)",
                  "some remaining nodes are never tried as sinks: " + "; ".join(why))
    if Pn is None:
        return
    sink_condition(rep, f, lp, found_next, mui, mu(Pn))


def outer_test(rep, f, S, q, scan):
    """the search goes on exactly while nodes remain: the test of the loop around the scan, a comparison of P.size / len(P) with a constant, evaluated for
    0..5 remaining nodes - it must be False at 0 (otherwise the scan over nothing "fails" and every input raises) and True from 2 nodes on (one remaining
    node has no edge left to orient, so stopping at 1 is the same)"""
    outs = [(k, v) for k, v in S.loopinfo.items() if v["func"] == q and v["test"] is not None and k != scan and scan[1] > k[1]]
    if len(outs) != 1:
        rep.unk("LOOP.until-empty", fwhere(f), "the loop around the scan is not identified")
        return
    lo, ol = outs[0]
    t = ol["test"]
    pol = True
    while t[0] == "unop" and t[1] in ("not", "truth"):
        pol = (not pol) if t[1] == "not" else pol
        t = t[2]
    def measure(x):
        if x[0] == "attr" and x[2] == "size" and x[1][0] == "mu" and x[1][1] == lo:
            return lambda n: n * n
        if x[0] == "ext" and x[1] == "len" and len(x[2]) == 1 and x[2][0][0] == "mu" and x[2][0][1] == lo:
            return lambda n: n
        if x[0] == "sub" and x[1][0] == "attr" and x[1][2] == "shape" and x[1][1][0] == "mu" and x[1][1][1] == lo and is_const(x[2]):
            return lambda n: n
        return None
    import operator as _op
    OPS = {">": _op.gt, ">=": _op.ge, "<": _op.lt, "<=": _op.le, "!=": _op.ne, "==": _op.eq}
    val = None
    if t[0] == "cmp" and t[1] in OPS:
        for a_, b_, flip in ((t[2], t[3], False), (t[3], t[2], True)):
            m_ = measure(a_)
            if m_ is not None and is_const(b_) and isinstance(b_[1], (int, float)) and not isinstance(b_[1], bool):
                val = (lambda n, m_=m_, b_=b_, flip=flip: (OPS[t[1]](b_[1], m_(n)) if flip else OPS[t[1]](m_(n), b_[1])) == pol)
    elif measure(t) is not None:
        val = lambda n, m_=measure(t): (m_(n) != 0) == pol
    if val is None:
        rep.unk("LOOP.until-empty", fwhere(f, ol["node"]), "the loop around the scan does not test the size of the remaining graph against a constant: not read")
        return
    table = {n: val(n) for n in range(0, 6)}
    ok = table[0] is False and all(table[n] for n in range(2, 6))
    rep.check("LOOP.until-empty", ok, fwhere(f, ol["node"]), "the search continues exactly while nodes remain (test false for the empty graph, true from two nodes on)",
              "the loop around the scan runs for %s remaining nodes: %s" % (", ".join(str(n) for n in table if table[n]) or "no",
              "with nothing left the scan finds no sink and ValueError is raised for every input" if table[0] else "nodes are left unprocessed"))


def for_else_scan(rep, S, f, q, r, lits):
    """the scan written as `for i in range(len(P)): ... if <admissible>: ...; break` with the ValueError in the loop's else suite -> True when read"""
    import ast as _ast
    cands = []
    for k, v in S.loopinfo.items():
        if v["func"] != q or v["test"] is not None or len(v["breaks"]) != 1:
            continue
        node = v["node"]
        if isinstance(node, _ast.For) and any(x is r.node for st_ in node.orelse for x in _ast.walk(st_)):
            cands.append((k, v))
    if len(cands) != 1:
        return False
    scan, lp = cands[0]
    outer = [(k, v) for k, v in S.loopinfo.items() if v["func"] == q and v["test"] is not None]
    extra = ["%s is %s" % (fmt(c)[:60], pl) for c, pl in lits if not any((c, pl) in literals([(v["test"], True)]) for _, v in outer)]
    rep.check("RAISE.iff", not extra, fwhere(f, r.node), "ValueError exactly when the scan over the remaining nodes ends without break (for / else)",
              "the ValueError needs more than a failed scan: it is raised only if also " + "; ".join(extra))
    it = lp["iter"]
    names = [n_ for n_, v_ in lp["init"].items() if it == ("ext", "range", (("ext", "len", (v_,), ()),), ())]
    if len(names) != 1:
        if it[0] == "ext" and it[1] == "range" and any(isinstance(x, tuple) and len(x) == 4 and x[0] == "ext" and x[1] == "len" and x[2] and x[2][0] in lp["init"].values() for x in walk(it)):
            rep.check("SCAN.complete", False, fwhere(f, lp["node"]), "", "some remaining nodes are never tried as sinks: the scan runs over %s" % fmt(it)[:60])
        else:
            rep.unk("SCAN.complete", fwhere(f, lp["node"]), "the scan does not run over range(len(P)) of the remaining graph: not read")
        return True
    Pn = names[0]
    outer_test(rep, f, S, q, scan)
    rep.ok("SCAN.complete", fwhere(f, lp["node"]), "every remaining node is tried: for i in range(len(P)), left at the first admissible node")
    benv = lp["breaks"][0]
    bpath = literals(list(benv.get("$path", ())))
    own = [(c, pl) for c, pl in bpath if not any((c, pl) in literals([(v["test"], True)]) for _, v in outer)]
    if len(benv.get("$path", ())) == 0 or not own:
        rep.unk("SINK.childless", fwhere(f, lp["node"]), "the condition under which the scan is left is not read")
        return True
    raw = [cp for cp in benv.get("$path", ()) if not any(cp[0] == v["test"] for _, v in outer)]
    if len(raw) != 1 or raw[0][1] is not True:
        rep.unk("SINK.childless", fwhere(f, lp["node"]), "the scan is left under %d nested conditions: not read" % len(raw))
        return True
    sink_condition(rep, f, lp, raw[0][0], ("elem", it), ("mu", scan, Pn))
    return True


def sink_condition(rep, f, lp, found_next, mui, muP):
    # ---- the admissibility condition
    cs = conjuncts(found_next)
    if found_next[0] == "bool" and found_next[1] == "or":
        rep.bad("SINK.both", fwhere(f, lp["node"]), "a node is taken when it is childless *or* its neighbours are adjacent to its adjacent nodes; Dor-Tarsi need both")
        return
    quant = [c for c in cs if c[0] == "ext" and c[1] in QUANT_ALL | QUANT_ANY]
    plain = [c for c in cs if c not in quant]
    want_ch = relcall("ch", mui, muP)
    # (a) childless
    if len(plain) != 1:
        if not plain and len(quant) >= 1:
            rep.bad_form("SINK.childless", fwhere(f, lp["node"]), "the admissibility test no longer asks whether the node has children in the remaining graph")
        else:
            rep.unk("SINK.childless", fwhere(f, lp["node"]), "the admissibility test is not `<childless> and all(<neighbour condition>)`: not read")
    else:
        at = rel_atoms(plain[0])
        try:
            if set(at) != {want_ch}:
                others = sorted({fmt(a)[:40] for a in at if a != want_ch})
                if at and all(a[1] in REL for a in at):
                    rep.check("SINK.childless", False, fwhere(f, lp["node"]), "", "condition 1 of the sink test looks at %s instead of ch(i, P) of the remaining graph" % ", ".join(others))
                else:
                    raise Inconclusive("not a predicate over ch(i, P)")
            else:
                alg = SetAlg([want_ch])
                ok, wit = alg.equal(lambda w: alg.truth(plain[0], w), lambda w: not alg.nonempty(want_ch, w))
                rep.check("SINK.childless", ok, fwhere(f, lp["node"]), "condition 1: the node has no children in the remaining graph (ch(i, P) empty; both worlds)",
                          "condition 1 is not `ch(i, P) is empty`: %s" % wit)
        except Inconclusive as e:
            rep.unk("SINK.childless", fwhere(f, lp["node"]), "condition 1 of the sink test is not read: %s" % e.why)
    # (b) neighbours
    if len(quant) != 1:
        if not quant and len(plain) >= 1 and len(cs) == 1:
            rep.bad_form("SINK.neighbours", fwhere(f, lp["node"]), "condition 2 of Dor-Tarsi's sink test (neighbours adjacent to all adjacent nodes) is gone")
        else:
            rep.unk("SINK.neighbours", fwhere(f, lp["node"]), "condition 2 of the sink test is not one all(...) over the neighbours: not read")
        return
    qt = quant[0]
    arg = qt[2][0] if len(qt[2]) == 1 else None
    if arg is None or arg[0] != "comp" or arg[1] not in ("list", "gen", "set", "tuple") or len(arg[3]) != 1 or arg[3][0][2]:
        rep.unk("SINK.neighbours", fwhere(f, lp["node"]), "condition 2 is not all(<test> for y in <neighbours>): not read")
        return
    if qt[1] in QUANT_ANY:
        rep.bad("SINK.neighbours", fwhere(f, lp["node"]), "condition 2 holds as soon as *one* neighbour is adjacent to the node's adjacent nodes (any); every neighbour must be")
        return
    if arg[1] == "gen" and qt[1].startswith("numpy."):
        rep.bad("SINK.neighbours", fwhere(f, lp["node"]), "np.all of a generator object is always True: condition 2 is never tested")
        return
    dom = strip_sets(arg[3][0][1])
    want_n, want_adj = relcall("neighbors", mui, muP), relcall("adj", mui, muP)
    if dom != want_n:
        if dom in (want_adj, relcall("pa", mui, muP), relcall("ch", mui, muP)):
            rep.check("SINK.neighbours", False, fwhere(f, lp["node"]), "", "condition 2 ranges over %s, not over the neighbours of i in the remaining graph" % fmt(dom)[:50])
        else:
            rep.unk("SINK.neighbours", fwhere(f, lp["node"]), "condition 2 ranges over %s: not read" % fmt(dom)[:60])
        return
    y = ("elem", arg[3][0][1])
    Y = ("set", (y,))
    adj_y = relcall("adj", y, muP)
    elt = arg[2]
    at = set(rel_atoms(elt))
    try:
        if not at <= {want_adj, adj_y, want_n}:
            raise Inconclusive("mentions %s" % ", ".join(sorted(fmt(a)[:40] for a in at - {want_adj, adj_y, want_n})))
        atoms = [want_adj, Y, adj_y, want_n]
        # regions that can hold a node: neighbours are adjacent; y is a neighbour of i and not adjacent to itself
        alg = SetAlg(atoms, max_atoms=4, feasible=lambda r: (not r[3] or r[0]) and (not r[1] or (r[0] and r[3] and not r[2])))
        yreg = [r_ for r_ in alg.regions if r_[1]]
        ok, wit = alg.equal(lambda w: alg.truth(elt, w), lambda w: not alg.nonempty(("binop", "-", ("binop", "-", want_adj, Y), adj_y), w),
                            admissible=lambda w: all(int(w[r_]) == 1 for r_ in yreg))       # {y} holds exactly one element
        rep.check("SINK.neighbours", ok, fwhere(f, lp["node"]), "condition 2: for every neighbour y of i, adj(i) - {y} <= adj(y) in the remaining graph (all %d admissible worlds)" % ((3 if alg.counting else 2) ** (len(alg.regions) - 1)),
                  "condition 2 is not `adj(i) - {y} <= adj(y)`: %s" % wit)
    except Inconclusive as e:
        rep.unk("SINK.neighbours", fwhere(f, lp["node"]), "condition 2 of the sink test is not a set predicate over adj(i), {y}, adj(y): %s" % e.why)
    rep.ok("SINK.both", fwhere(f, lp["node"]), "a node is removed only when both conditions hold")


def strip_sets(t):
    while isinstance(t, tuple) and t[0] == "ext" and t[1] in ("list", "set", "sorted", "tuple", "frozenset") and len(t[2]) == 1:
        t = t[2][0]
    return t


def hce_rules(rep, prog):
    import ast as _ast
    q = U + "has_consistent_extension"
    f = need(prog, q)
    S = Sym(prog)
    run_function(S, f)
    par = ("param", f.params[0]) if f.params else None
    calls = [c for c in S.select("call", qname=q) if c.target == U + "pdag_to_dag"]
    rets = S.select("return", qname=q)
    if len(calls) != 1 or calls[0].args[:1] != [par] or calls[0].path:
        others = [c for c in S.select("call", qname=q) if c.target and c.target.startswith(U)]
        if not calls and not others:
            rep.bad_form("HCE.table", fwhere(f), "has_consistent_extension does not run the extension search at all")
        else:
            rep.unk("HCE.table", fwhere(f), "has_consistent_extension is not one unconditional call pdag_to_dag(pdag): not read")
        return
    call = calls[0]
    tries = getattr(call, "in_try", [])
    if len(tries) != 1:
        rep.check("HCE.table", False, fwhere(f, call.node), "", "the call of pdag_to_dag is not guarded: a PDAG without extension raises instead of giving False" if not tries
                  else "nested handlers around the extension search")
        return
    tr, types = tries[0]
    why = []
    if set(types) != {"ValueError"}:
        why.append("catches %s, the search signals failure with ValueError only (anything else is a bug that would be reported as 'no extension')" % ", ".join(types))
    ids = lambda stmts: {id(x) for s_ in stmts for x in _ast.walk(s_)}
    body, orelse = ids(tr.body), ids(tr.orelse)
    hand = {}
    for h in tr.handlers:
        for x in ids(h.body):
            hand[x] = h
    after = set()
    # statements after the try in the function body
    seen = False
    for s_ in f.node.body:
        if s_ is tr:
            seen = True
            continue
        if seen:
            after |= ids([s_])
    t_ok = [r for r in rets if (id(r.node) in body or id(r.node) in orelse or id(r.node) in after)]
    t_ex = [r for r in rets if id(r.node) in hand]
    if len(t_ok) + len(t_ex) != len(rets) or not t_ok or not t_ex:
        rep.unk("HCE.table", fwhere(f), "the two outcomes are not returned from the try body / after it and from the handler: not read")
        return
    for r in t_ok:
        if r.path or not is_const(r.value):
            rep.unk("HCE.table", fwhere(f, r.node), "the answer after a successful search is computed (%s): not read" % fmt(r.value)[:50])
            return
        if r.value[1] is not True:
            why.append("returns %r when the search succeeded" % (r.value[1],))
    for r in t_ex:
        if r.path or not is_const(r.value):
            rep.unk("HCE.table", fwhere(f, r.node), "the answer after a failed search is computed (%s): not read" % fmt(r.value)[:50])
            return
        if r.value[1] is not False:
            why.append("returns %r when the search raised ValueError" % (r.value[1],))
    rep.check("HCE.table", not why, fwhere(f), "True exactly when pdag_to_dag(pdag) returns, False exactly when it raises ValueError (2 rows)",
              "has_consistent_extension does not answer as the search does: " + "; ".join(why))


def run(prog, rep, tier):
    names = [U + n_ for n_ in ("pdag_to_dag", "has_consistent_extension", "maximally_orient", "rule_1", "rule_2", "rule_3", "rule_4")]
    node_label_truthiness(rep, prog, names)
    isin_over_sets(rep, prog, names)
    truth_of_generator(rep, prog, names)
    sink_rules(rep, prog)
    from .C08 import search_rules
    search_rules(rep, prog)
    hce_rules(rep, prog)
    from .C10 import meek_rules, meek_definitions, quantified_rules
    meek_rules(rep, prog)
    meek_definitions(rep, prog)
    quantified_rules(rep, prog)
    # the relations the conditions are written in
    from .. import pw as PW
    PW.rule_node_relations(prog, rep)
    inputs_intact(rep, prog, [U + n_ for n_ in ("pdag_to_dag", "has_consistent_extension", "maximally_orient")])
    rep.require_count("SINK", 3)
    rep.require_count("SCAN", 1)
    rep.require_count("RAISE", 1)
    rep.require_count("LOOP", 1)
    rep.require_count("HCE", 1)
    rep.require_count("RULES", 4)
    rep.require_count("ORIENT", 4)
    rep.require_count("INDEX", 3)
    rep.require_count("PW.relation", 4)
    rep.assume("that Dor-Tarsi's sink condition characterises extendability and that Meek's rules 1-4 are sound and complete (the theorems) is not decided; "
               "the check decides that the code implements that condition and those rules")
