"""C17 - split_data partitions every environment's observations (structural part).

Decided: (LAST) the open-ended remainder slice is taken exactly for the last fold - the branch condition,
a linear predicate in the fold index i in [0, n_folds-1], is evaluated for every distance t = n_folds-1-i:
bounded slice iff t >= 1, independent of the number of folds; (CONTIG) fold i is S[start : start + size_i]
or S[start:], the cursor starts at 0 for every environment and advances by exactly size_i after a bounded
slice, size_i = round(len(sample) * ratio_i); (DEFINED) no variable is read on a path where it is not
assigned; (FLOW) S is the shuffled *copy* of the current environment's array and the slice is appended to
the fold with the loop's own index; (TOL) the ratio-sum test is a tolerance test |sum - 1| > tol with
1e-12 <= tol <= 1e-6, never an exact float comparison, and precedes any shuffling; (SEED) the shuffle uses
default_rng(random_state).
Not decided: uniformity of the shuffle (numpy).
"""
import ast
from .common import *
from ..pred import poly, pkey, padd, pconst, pmul, resolve, conj
from ..sym import kwargs_of
from fractions import Fraction

EXPLANATION = __doc__
Q = U + "split_data"
RAT, DATA = ("param", "ratios"), ("param", "data")
NONE_ = ("const", None)


def same_ratios(t):
    """the caller's ratio vector, possibly converted (list / tuple / array, float dtype) - the same numbers in the same order"""
    while isinstance(t, tuple) and t and t[0] == "ext" and t[1] in ("numpy.array", "numpy.asarray", "numpy.asanyarray", "list", "tuple", "numpy.atleast_1d") and len(t[2]) == 1:
        kw = {k: v for k, v in t[3] if k != "$draw"}
        if not set(kw) <= {"dtype"} or kw.get("dtype", ("extref", "float")) not in (("extref", "float"), ("extref", "numpy.float64"), ("const", "float")):
            return False
        t = t[2][0]
    return t == RAT


def sum_term(t):
    if isinstance(t, tuple) and t and t[0] == "ext" and t[1] in ("numpy.sum", "sum", "math.fsum") and len(t[2]) == 1:
        return same_ratios(t[2][0])
    if isinstance(t, tuple) and t and t[0] == "method" and t[2] == "sum" and not t[3]:
        return same_ratios(t[1])
    return False


def tolerance_of(cond):
    """-> ('tol', float) | ('exact', why) | ('unknown', why) for the condition under which ValueError is raised"""
    # abs() / bool() around a comparison is the comparison itself (abs(True) == 1)
    while isinstance(cond, tuple) and cond[0] == "ext" and cond[1] in ("abs", "numpy.abs", "bool", "numpy.absolute") and len(cond[2]) == 1 \
            and isinstance(cond[2][0], tuple) and cond[2][0][0] in ("cmp", "bool"):
        cond = cond[2][0]
    p = npred(cond, True)
    def dev_atom(a):
        # |sum - 1|
        if isinstance(a, tuple) and a[0] == "ext" and a[1] in ("abs", "numpy.abs", "numpy.absolute", "math.fabs") and len(a[2]) == 1:
            d = poly(a[2][0])
            keys = [m for m in d if m != ()]
            if len(keys) == 1 and len(keys[0]) == 1 and sum_term(keys[0][0]) and abs(d[keys[0]]) == 1 and d.get((), 0) == -d[keys[0]]:
                return True
        return False
    if p[0] in ("!=0", "==0"):
        d = dict(p[1])
        if any(sum_term(a) for m in d for a in m):
            return ("exact", "exact float comparison of the ratio sum (%s)" % pred_fmt(p))
    if p[0] in (">0", ">=0"):
        d = dict(p[1])
        c = d.pop((), 0)
        if len(d) == 1:
            (m, coef), = d.items()
            if len(m) == 1 and coef == 1 and dev_atom(m[0]) and c < 0:
                return ("tol", float(-c))
    if p[0] in (">0", ">=0"):
        d = dict(p[1])
        d.pop((), 0)
        if len(d) == 1:
            (m, coef), = d.items()
            if len(m) == 1 and sum_term(m[0]):
                return ("onesided", "one-sided test of the ratio sum (%s): sums on the other side of 1 are accepted" % pred_fmt(p))
    if p[0] == "atom" and p[2] is False and isinstance(p[1], tuple) and p[1][0] == "ext" and p[1][1] in ("numpy.isclose", "math.isclose", "numpy.allclose"):
        t = p[1]
        a = list(t[2])
        kw = {k: v for k, v in t[3] if k != "$draw"}
        if len(a) >= 2 and ((sum_term(a[0]) and is_const(a[1], 1, 1.0)) or (sum_term(a[1]) and is_const(a[0], 1, 1.0))):
            if t[1] == "math.isclose":
                rt, at = kw.get("rel_tol", ("const", 1e-9)), kw.get("abs_tol", ("const", 0.0))
            else:
                rt = a[2] if len(a) > 2 else kw.get("rtol", ("const", 1e-5))
                at = a[3] if len(a) > 3 else kw.get("atol", ("const", 1e-8))
            if is_const(rt) and is_const(at):
                return ("tol", float(rt[1]) + float(at[1]))
    if p[0] == "or" and len(p[1]) == 2 and all(x[0] in (">0", ">=0") for x in p[1]):
        tols = []
        for x in p[1]:
            d = dict(x[1])
            c = d.pop((), 0)
            if len(d) == 1:
                (m, coef), = d.items()
                if len(m) == 1 and sum_term(m[0]) and abs(coef) == 1:
                    tols.append(float(-c - coef) if coef == 1 else float(-c + 1) * -1 if False else float(-(c) + coef) if False else None)
        return ("unknown", "two-sided test: tolerance not extracted")
    return ("unknown", "condition %s is not a recognised tolerance test" % pred_fmt(p))


def truth_by_distance(pred, idx, L):
    """truth of a linear predicate in the fold index as a function of t = L-1-idx, or a reason why not"""
    if pred[0] not in (">0", ">=0", "==0", "!=0"):
        return None, "condition is not a linear comparison of the fold index"
    d = dict(pred[1])
    a = d.pop((idx,), Fraction(0))
    b = d.pop((L,), Fraction(0))
    c = d.pop((), Fraction(0))
    if d:
        return None, "condition involves other quantities than the fold index and the number of folds"
    if a + b != 0:
        return None, "which fold takes the remainder depends on the number of folds"
    vals = {}
    for t in range(0, 8):
        v = -a * t + (c - a) + (a + b) * 0 + a * 0
        # P = a*idx + b*L + c with idx = L-1-t and a+b = 0  ->  P = -a*t - a + c
        v = -a * t - a + c
        vals[t] = {">0": v > 0, ">=0": v >= 0, "==0": v == 0, "!=0": v != 0}[pred[0]]
    return vals, ""


def peeled_iter(it, RAT, same_ratios):
    """the fold loop written over all folds but the last: zip(range(n-1), ratios), zip(folds[:-1], ratios), range(n-1),
    enumerate(ratios[:-1]); -> dict(idx, ratio, ratios, short = number of folds left out, dest / container for the zip-of-lists form)"""
    def short_of(rng, R):
        # range(len(R) - c) -> c
        if rng[0] == "ext" and rng[1] == "range" and len(rng[2]) == 1 and not rng[3]:
            d = dict(poly(rng[2][0]))
            Lk = (("ext", "len", (R,), ()),)
            if d.get(Lk) == 1 and set(d) <= {Lk, ()}:
                c = -d.get((), 0)
                return int(c) if c == int(c) and c >= 1 else None
        return None

    def cut_of(t):
        # X[:-c] -> (X, c)
        if t[0] == "sub" and t[2][0] == "slice" and t[2][1] == NONE_ and t[2][3] == NONE_ and is_const(t[2][2]) and isinstance(t[2][2][1], int) and t[2][2][1] < 0:
            return t[1], -t[2][2][1]
        return None, None
    if it[0] == "ext" and it[1] == "zip" and len(it[2]) == 2 and not it[3]:
        for a, r in (it[2], it[2][::-1]):
            if not same_ratios(r):
                continue
            c = short_of(a, r)
            if c is not None:
                return {"idx": ("elem", a), "ratio": ("elem", r), "ratios": r, "short": c}
            X, c = cut_of(a)
            if X is not None:
                return {"idx": None, "ratio": ("elem", r), "ratios": r, "short": c, "dest": ("elem", a), "container": X}
    if it[0] == "ext" and it[1] == "range":
        for R in {x for x in walk(it) if same_ratios(x)}:
            c = short_of(it, R)
            if c is not None:
                return {"idx": ("elem", it), "ratio": ("sub", R, ("elem", it)), "ratios": R, "short": c}
    if it[0] == "ext" and it[1] == "enumerate" and len(it[2]) == 1 and not it[3]:
        X, c = cut_of(it[2][0])
        if X is not None and same_ratios(X):
            return {"idx": ("idx", it[2][0]), "ratio": ("elem", it[2][0]), "ratios": X, "short": c}
    return None


def run(prog, rep, tier):
    f = need(prog, Q)
    S = Sym(prog, inline=inline_helpers(prog, "sempler.utils"))
    summ, _ = run_function(S, f)
    # ---- TOL
    raises = [r for r in S.select("raise", qname=Q) if r.exctype == "ValueError"]
    shuffles = [c for c in S.select("call", qname=Q) if c.callkind == "method" and c.target == ".shuffle"]
    # an assertion on the arguments in front of the guard is a second, undocumented rejection (AssertionError instead of the ValueError, or for
    # vectors the guard accepts)
    pre = [a_ for fct in S.facts if fct.qname == Q for a_ in getattr(fct, "asserts", ()) if any(x == RAT or x == DATA for x in walk(a_[0]))
           and not any(isinstance(x, tuple) and x[:1] in (("after",), ("mu",)) for x in walk(a_[0]))]
    pre = [a_ for k_, a_ in enumerate(pre) if a_ not in pre[:k_]]
    shuffle_order = min([c.order for c in shuffles] or [10**9])
    early = [a_ for a_ in pre if any(a_ in getattr(c, "asserts", ()) for c in shuffles)]
    if early:
        rep.bad("TOL.guard", fwhere(f), "an assertion on the arguments (`%s`) stands before the data are split: vectors it does not hold for are rejected with an AssertionError "
                "the property does not provide for" % pred_fmt(npred(early[0][0], early[0][1]))[:80])
    elif len(raises) != 1 or len(raises[0].path) != 1:
        if len(raises) == 1 and len(raises[0].path) > 1:
            rep.bad("TOL.guard", fwhere(f, raises[0].node), "the ratio-sum guard is reached only past another check (%s): vectors that fail it get a different exception "
                    "(or none) instead of the ValueError" % "; ".join(pred_fmt(npred(c, p_))[:60] for c, p_ in raises[0].path[:-1]))
        else:
            rep.bad_form("TOL.guard", fwhere(f), "expected exactly one ValueError guard on the ratio sum, found %d" % len(raises))
    else:
        r = raises[0]
        kind, val = tolerance_of(r.path[0][0] if r.path[0][1] is True else ("unop", "not", r.path[0][0]))
        if kind == "onesided":
            rep.bad("TOL.guard", fwhere(f, r.node), val)
        elif kind == "exact":
            rep.bad("TOL.guard", fwhere(f, r.node), val + ": ratios such as [0.7, 0.2, 0.1] sum to 0.9999999999999999 and are rejected")
        elif kind == "tol":
            rep.check("TOL.guard", 1e-12 <= val <= 1e-6 * (1 + 1e-9), fwhere(f, r.node), "ValueError iff |sum(ratios) - 1| > %g" % val,
                      "tolerance %g is outside [1e-12, 1e-6]: %s" % (val, "rounding noise is rejected" if val < 1e-12 else "sums off by more than 1e-6 are accepted"))
        else:
            rep.unk("TOL.guard", fwhere(f, r.node), val)
        first = min([c.order for c in shuffles] or [10**9])
        rep.check("TOL.first", r.order < first and not r.loops, fwhere(f, r.node), "checked before anything is shuffled", "the ratio check does not precede the shuffling")
    # ---- rounding written out by hand: int(x + 0.5) / (x + 0.5).astype(int) / np.floor(x + 0.5) round halves up, round() rounds them to even
    seen_fns = {Q} | set(getattr(S, "visited_funcs", ())) | set(getattr(S, "fused_funcs", ()))
    for qn in sorted(seen_fns):
        g_ = prog.funcs.get(qn)
        if g_ is None or g_.module is not f.module:
            continue
        for node in ast.walk(g_.node):
            half = lambda e: isinstance(e, ast.BinOp) and isinstance(e.op, ast.Add) and any(isinstance(x, ast.Constant) and x.value == 0.5 for x in (e.left, e.right))
            hit = None
            if isinstance(node, ast.Call) and (dotted_of(node.func) or "") in ("int", "np.floor", "numpy.floor", "math.floor", "np.trunc", "numpy.trunc") and node.args and half(node.args[0]):
                hit = node
            if isinstance(node, ast.Call) and isinstance(node.func, ast.Attribute) and node.func.attr == "astype" and half(node.func.value) and node.args and \
                    (dotted_of(node.args[0]) or "") in ("int", "np.int64", "np.intp", "numpy.int64"):
                hit = node
            if hit is not None:
                rep.bad("SIZE.round", fwhere(g_, hit), "`%s` rounds halves up; fold sizes are round(len(sample) * ratio), which rounds halves to even (n = 5, ratios (0.5, 0.5): 3 + 2 instead of 2 + 3)" % norm(hit)[:70])
    # ---- loops
    loops = sorted([(k, v) for k, v in S.loopinfo.items() if v["func"] == Q], key=lambda kv: kv[0][1])
    if len(loops) != 2:
        raise Inconclusive("split_data: expected a loop over environments and a loop over folds", f.node)
    (lo, outer), (lin, inner) = loops
    if outer["iter"] != DATA and inner["iter"] == DATA:
        # the fold loop lives in a helper / method defined above its caller: the nesting, not the line numbers, says which loop is the outer one
        (lo, outer), (lin, inner) = (lin, inner), (lo, outer)
    nested = any(lin in getattr(fct, "loops", ()) and lo in getattr(fct, "loops", ()) for fct in S.facts if fct.qname == Q)
    if not nested:
        raise Inconclusive("split_data: the fold loop is not nested in the loop over the environments", f.node)
    rep.check("FLOW.environments", outer["iter"] == DATA, fwhere(f, outer["node"]), "outer loop over the environments of `data`", "outer loop runs over %s" % fmt(outer["iter"]))
    it = inner["iter"]
    if it[0] == "ext" and it[1] == "enumerate" and len(it[2]) == 1 and it[2][0][0] == "ext" and it[2][0][1] in ("numpy.split", "numpy.array_split") and len(it[2][0][2]) == 2:
        # folds cut out with np.split(sample, cut_points): one piece per fold only if no cut point is dropped
        cuts = it[2][0][2][1]
        dedup = [x for x in walk(cuts) if isinstance(x, tuple) and len(x) == 4 and x[0] == "ext" and x[1] in ("numpy.unique", "set", "frozenset", "dict.fromkeys")]
        if dedup:
            rep.bad("CONTIG.slices", fwhere(f, inner["node"]), "the cut points pass through %s: two equal cut points (a fold of size 0) collapse into one, np.split returns "
                    "fewer pieces than there are folds and the remaining folds receive the wrong pieces" % dedup[0][1])
        else:
            rep.unk("CONTIG.slices", fwhere(f, inner["node"]), "folds are cut with np.split(sample, %s): this idiom is not read further" % fmt(cuts)[:60])
        return
    RATL = RAT              # the ratio vector as the loop sees it: the parameter, or a converted copy holding the same numbers
    rescaled = None
    src = None
    # for fold, ratio in zip(folds, ratios) / for i, (fold, ratio) in enumerate(zip(folds, ratios)): fold i travels with ratio i
    zc = None
    itz = it[2][0] if it[0] == "ext" and it[1] == "enumerate" and len(it[2]) == 1 and not it[3] else it
    if itz[0] == "ext" and itz[1] == "zip" and len(itz[2]) == 2 and not itz[3]:
        for r_, x_ in (itz[2], itz[2][::-1]):
            if same_ratios(r_) and not same_ratios(x_) and peeled_iter(it, RAT, same_ratios) is None:
                zc = {"ratios": r_, "cont": x_, "idx": ("idx", itz) if itz is not it else None}
    if it[0] == "ext" and it[1] == "enumerate" and len(it[2]) == 1:
        src = it[2][0]
    elif it[0] == "ext" and it[1] == "range" and len(it[2]) == 1 and it[2][0][0] == "ext" and it[2][0][1] == "len" and len(it[2][0][2]) == 1:
        src = it[2][0][2][0]
    if zc is not None:
        src = None
        RATL = zc["ratios"]
    if src is not None and src != RAT and peeled_iter(it, RAT, same_ratios) is None:
        # the loop runs over another vector than the caller's ratios (e.g. ratios / sum(ratios)): the fold sizes are then
        # round(n * something else) - with ratios summing to 0.9999999999999999 a tie n * r = k + 0.5 rounds the other way
        if same_ratios(src):
            RATL = src
        else:
            rescaled = src
    if rescaled is not None:
        rep.bad("SIZE.round", fwhere(f, inner["node"]), "the fold loop runs over %s, not over the caller's ratios: fold sizes are not round(len(sample) * ratio_i)" % fmt(rescaled)[:80])
        return
    L = ("ext", "len", (RATL,), ())
    peeled = None            # the loop covers all folds but the last one, which is served after it ("peeled" last iteration)
    if zc is not None:
        idx, ratio = zc["idx"], ("elem", RATL)
    elif it == ("ext", "enumerate", (RATL,), ()):
        idx, ratio = ("idx", RATL), ("elem", RATL)
    elif it == ("ext", "range", (L,), ()):
        idx = ("elem", it)
        ratio = ("sub", RATL, idx)
    elif same_ratios(it) and inner.get("induction"):
        # for ratio in ratios, the position kept in a counter by hand (the engine reads such a counter as the index)
        RATL = it
        L = ("ext", "len", (RATL,), ())
        idx, ratio = ("idx", RATL), ("elem", RATL)
    else:
        peeled = peeled_iter(it, RAT, same_ratios)
        if peeled is None:
            raise Inconclusive("split_data: fold loop iterates %s" % fmt(it), inner["node"])
        idx, ratio, RATL = peeled["idx"], peeled["ratio"], peeled["ratios"]
        L = ("ext", "len", (RATL,), ())
    apps = [c for c in S.select("call", qname=Q) if c.callkind == "method" and c.target == ".append" and lin in c.loops]
    if len(apps) == 2 and apps[0].recv == apps[1].recv and len(apps[0].path) == len(apps[1].path) and apps[0].path and \
            tuple(apps[0].path[:-1]) == tuple(apps[1].path[:-1]) and apps[0].path[-1][0] == apps[1].path[-1][0] and \
            {apps[0].path[-1][1], apps[1].path[-1][1]} == {True, False}:
        # `if c: folds[i].append(a) else: folds[i].append(b)` is `folds[i].append(a if c else b)`
        import types
        t_, e_ = (apps[0], apps[1]) if apps[0].path[-1][1] is True else (apps[1], apps[0])
        merged = types.SimpleNamespace(**{k: getattr(t_, k) for k in ("recv", "node", "loops", "order", "kwargs", "callkind", "target", "kind", "qname")})
        merged.path = tuple(t_.path[:-1])
        merged.args = [("phi", t_.path[-1][0], t_.args[0], e_.args[0])]
        apps = [merged]
    if not apps:
        # the slices are not appended to per-fold lists inside the fold loop (stored into a row / a pre-sized table, collected by a comprehension): not read
        rep.unk("FLOW.append", fwhere(f, inner["node"]), "the fold loop appends nothing: how the slices reach the folds is not read")
        return
    if len(apps) != 1:
        rep.bad_form("FLOW.append", fwhere(f, inner["node"]), "each fold iteration must append exactly one slice (found %d appends)" % len(apps))
        return
    ap = apps[0]
    val = ap.args[0]
    env_elem = ("elem", DATA)
    for b_ in inner.get("breaks") or []:
        # a fold loop that can be left early: every fold after the exit gets no slice for this environment
        p_ = (b_.get("$path", ()) or ()) if isinstance(b_, dict) else ()
        vals_b = truth_by_distance(npred(*p_[-1]), idx, L)[0] if p_ else None
        fixed = None
        if p_ and vals_b is None:
            # a condition on the fold index alone: true at a fixed fold k, which is not the last one as soon as there are more than k+1 folds
            pr_ = npred(*p_[-1])
            if pr_[0] in (">0", ">=0", "==0", "!=0"):
                d_ = dict(pr_[1])
                a_, c_ = d_.pop((idx,), Fraction(0)), d_.pop((), Fraction(0))
                if not d_ and a_ != 0:
                    fixed = next((k_ for k_ in range(0, 8) if {">0": a_ * k_ + c_ > 0, ">=0": a_ * k_ + c_ >= 0, "==0": a_ * k_ + c_ == 0, "!=0": a_ * k_ + c_ != 0}[pr_[0]]), None)
        if fixed is not None:
            rep.bad("FLOW.break", fwhere(f, inner["node"]), "the fold loop is left at fold %d (`%s`) whatever the number of folds: with more than %d folds the later ones receive no slice" % (
                fixed, pred_fmt(npred(*p_[-1])), fixed + 1))
        elif vals_b is not None and any(vals_b[t] for t in range(1, 8)):
            rep.bad("FLOW.break", fwhere(f, inner["node"]), "the fold loop is left before the last fold (`%s` holds for an earlier fold): the folds after it receive no slice" % pred_fmt(npred(*p_[-1])))
        else:
            rep.unk("FLOW.break", fwhere(f, inner["node"]), "the fold loop can be left by break%s: whether every fold still receives exactly one slice per environment is not read" %
                    (" under `%s`" % pred_fmt(npred(*p_[-1])) if p_ else ""))
        return
    # definite assignment
    unb = sorted({x[1] for fct in S.facts if fct.qname == Q for t in ([getattr(fct, "value", None), getattr(fct, "term", None)] + list(getattr(fct, "args", []) or []))
                  if t is not None for x in walk(t) if isinstance(x, tuple) and x[0] == "unbound"} |
                 {x[1] for v in inner["next"].values() for x in walk(v) if isinstance(x, tuple) and x[0] == "unbound"})
    rep.check("DEFINED.reads", not unb, fwhere(f, inner["node"]), "every variable read in the fold loop is assigned on every path",
              "variable(s) %s may be read before assignment on some path" % unb)
    def is_slice(t):
        return t[0] == "sub" and t[2][0] == "slice"

    def same_rows(t):
        # the environment's sample or a length-preserving copy / conversion / shuffle of it
        while True:
            if t == env_elem:
                return True
            if t[0] == "method" and t[2] in ("copy",) and not t[3]:
                t = t[1]
            elif t[0] == "ext" and t[1] in ("numpy.array", "numpy.asarray", "numpy.copy", "copy.deepcopy", "numpy.asanyarray", "copy.copy") and len(t[2]) == 1:
                t = t[2][0]
            elif t[0] == "shuffled":
                t = t[1]
            else:
                return False

    def is_rows(t):
        if t[0] == "ext" and t[1] == "len" and len(t[2]) == 1:
            return same_rows(t[2][0])
        if t[0] == "sub" and t[1][0] == "attr" and t[1][2] == "shape" and is_const(t[2], 0):
            return same_rows(t[1][1])
        return False

    def open_end(t):
        # x[a:len(x)] is x[a:] (the length of this environment's sample, of a copy or of a shuffle of it)
        if is_slice(t) and t[2][2] != NONE_ and is_rows(t[2][2]) and same_rows(t[1]):
            return ("sub", t[1], ("slice", t[2][1], NONE_, t[2][3]))
        return t
    post = None
    if peeled is not None:
        # the remainder is appended after the loop, once per environment
        posts = [c for c in S.select("call", qname=Q) if c.callkind == "method" and c.target == ".append" and lin not in c.loops and lo in c.loops and c.order > ap.order]
        if len(posts) != 1 or tuple(posts[0].path) != tuple(ap.path):
            rep.bad("LAST.branch", fwhere(f, inner["node"]), "the fold loop leaves out the last fold (it runs over %s) and %d unconditional append(s) follow it: the last fold must "
                    "receive the remainder exactly once per environment" % (fmt(it)[:60], len(posts)))
            return
        post = posts[0]
        X, Y = val, open_end(post.args[0])
        if val[0] == "phi" or not (is_slice(X) and is_slice(Y)):
            rep.unk("LAST.branch", fwhere(f, ap.node), "loop over the first n-1 folds whose body is not a plain slice: not read")
            return
        rem_is_X, C = False, None
        rem, bnd = Y, X
        if bnd[2][2] == NONE_ or rem[2][2] != NONE_:
            rep.bad_form("LAST.branch", fwhere(f, ap.node), "expected bounded slices inside the loop and one open-ended remainder slice after it")
            return
        short = peeled["short"]
        if short == 1:
            rep.ok("LAST.exact", fwhere(f, post.node), "the loop serves folds 0..n-2 with bounded slices, the open-ended remainder goes to the last fold after the loop")
        else:
            rep.bad("LAST.exact", fwhere(f, inner["node"]), "the loop leaves out %s fold(s) at the end, the remainder is appended once: fold(s) in between stay empty or are served twice" % short)
        vals = "peeled"
    elif val[0] != "phi":
        rep.bad_form("LAST.branch", fwhere(f, ap.node), "no separate remainder slice for the last fold: %s" % fmt(val)[:100])
        return
    else:
        C, X, Y = val[1], open_end(val[2]), open_end(val[3])
        if not (is_slice(X) and is_slice(Y)):
            rep.bad_form("CONTIG.slices", fwhere(f, ap.node), "fold contents are not slices of the shuffled sample")
            return
        rem_is_X = X[2][2] == NONE_
        rem, bnd = (X, Y) if rem_is_X else (Y, X)
        if bnd[2][2] == NONE_ or rem[2][2] != NONE_:
            rep.bad_form("LAST.branch", fwhere(f, ap.node), "expected one bounded slice and one open-ended remainder slice")
            return
        bcond = npred(C, not rem_is_X)
        vals, why = truth_by_distance(bcond, idx, L)
    if vals == "peeled":
        pass
    elif vals is None and why.startswith("condition involves other quantities"):
        rep.unk("LAST.exact", fwhere(f, ap.node), "remainder branch: " + why + " - not read")
    elif vals is None:
        rep.bad("LAST.exact", fwhere(f, ap.node), "remainder branch: " + why)
    else:
        ok = vals[0] is False and all(vals[t] for t in range(1, 8))
        if ok:
            rep.ok("LAST.exact", fwhere(f, ap.node), "bounded slice for folds 0..n-2, open-ended remainder exactly for the last fold (all distances t = n-1-i)")
        elif all(vals.values()):
            rep.bad("LAST.exact", fwhere(f, ap.node), "the remainder branch is unreachable (`%s` holds for every fold index): the last fold gets round(n*ratio) rows and leftover observations are dropped" % pred_fmt(bcond))
        else:
            rep.bad("LAST.exact", fwhere(f, ap.node), "the remainder is not taken exactly by the last fold: bounded-slice condition by distance from the last fold = %s" % vals)
    # contiguity
    start_names = [k for k in inner["init"] if k not in inner.get("induction", {})]          # hand-kept position counters are the loop index, not a cursor
    okc, why = False, "no cursor variable"
    if len(start_names) == 1:
        nm = start_names[0]
        mu = ("mu", lin, nm)
        Sarr = bnd[1]
        lo_, up_ = bnd[2][1], bnd[2][2]
        size = None
        if lo_ == mu and up_[0] == "binop" and up_[1] == "+" and mu in (up_[2], up_[3]):
            size = up_[3] if up_[2] == mu else up_[2]
        nx = inner["next"][nm]
        adv = None
        if nx[0] == "phi" and peeled is not None:
            adv = None
        elif nx[0] == "phi":
            a, b = (nx[2], nx[3])
            pol = npred(nx[1], True)
            adv = a if pol == npred(C, not rem_is_X) else (b if npred(nx[1], False) == npred(C, not rem_is_X) else None)
        elif size is not None and nx in (("binop", "+", mu, size), ("binop", "+", size, mu)):
            adv = nx
        cursor_at_rem = mu if peeled is None else ("after", lin, nm)
        okc = size is not None and rem[1] == Sarr and rem[2][1] == cursor_at_rem and is_const(inner["init"][nm], 0) and adv is not None and \
            adv in (("binop", "+", mu, size), ("binop", "+", size, mu)) and bnd[2][3] == NONE_ and rem[2][3] == NONE_
        why = "bounded=%s remainder=%s cursor'=%s init=%s" % (fmt(bnd)[:70], fmt(rem)[:50], fmt(nx)[:80], fmt(inner["init"][nm]))
        if okc:
            prod = size[2][0] if size[0] == "ext" and size[1] == "round" and len(size[2]) == 1 and not size[3] else None
            size_ok = prod is not None and prod[0] == "binop" and prod[1] == "*" and ((prod[2] == ratio and is_rows(prod[3])) or (prod[3] == ratio and is_rows(prod[2])))
            rep.check("SIZE.round", size_ok, fwhere(f, ap.node), "fold size = round(len(sample) * ratio_i)", "fold size is %s" % fmt(size)[:80])
            # source of the slices
            base = Sarr
            shuffled = base[0] == "shuffled" and base[1] in (("method", env_elem, "copy", (), ()), ("ext", "numpy.copy", (env_elem,), ()), ("ext", "numpy.array", (env_elem,), ()),
                                                           ("ext", "copy.deepcopy", (env_elem,), ()))
            rep.check("FLOW.source", shuffled, fwhere(f, ap.node), "slices come from the shuffled copy of the current environment only",
                      "slices are taken from %s, not from a shuffled copy of the current environment" % fmt(base)[:80])
            if shuffled:
                gen = base[2]
                rep.check("SEED.shuffle", gen == ("ext", "numpy.random.default_rng", (("param", "random_state"),), ()), fwhere(f, ap.node),
                          "shuffled by default_rng(random_state)", "shuffled by %s" % fmt(gen)[:60])
    rep.check("CONTIG.slices", okc, fwhere(f, ap.node), "S[start:start+size] then start += size; the last fold takes S[start:]; start = 0 per environment",
              "slices are not contiguous / cursor not advanced by the slice length: " + why)
    # destination
    recv = ap.recv
    rng = ("ext", "range", (L,), ())
    key = ("elem", rng)

    def gen_ok(gens):
        return len(gens) == 1 and gens[0][1] == rng and not gens[0][2]

    def container_kind(Cn):
        """'dict' / 'list' when Cn holds one fresh empty list per fold index 0 .. n_folds-1, in that order"""
        if Cn[0] == "ext" and Cn[1] == "dict" and len(Cn[2]) == 1 and Cn[2][0][0] == "comp" and Cn[2][0][2] == ("tuple", (key, ("list", ()))) and gen_ok(Cn[2][0][3]):
            return "dict"
        if Cn[0] == "comp" and Cn[1] == "dict" and Cn[2] == ("pair", key, ("list", ())) and gen_ok(Cn[3]):
            return "dict"
        if Cn[0] == "comp" and Cn[1] == "list" and Cn[2] == ("list", ()) and gen_ok(Cn[3]):
            return "list"
        return None
    kind = container_kind(recv[1]) if recv[0] == "sub" and recv[2] == idx else None
    Cn_ = recv[1] if kind is not None else None
    if zc is not None and kind is None and recv == ("elem", zc["cont"]) and container_kind(zc["cont"]) == "list":
        Cn_, kind = zc["cont"], "list"            # the list that zip pairs with this ratio
    if peeled is not None and kind is None and recv == peeled.get("dest"):
        # for fold, ratio in zip(folds[:-1], ratios): fold.append(...)
        Cn_ = peeled["container"]
        kind = container_kind(Cn_)
        kind = kind if kind == "list" else None
    if peeled is not None and kind is not None:
        # ... and the remainder goes to the last list of the same container
        last_keys = [("binop", "-", L, ("const", 1))] + ([("const", -1)] if kind == "list" else [])
        precv = post.recv
        if precv[0] == "mu" and precv[1] == lo and precv[2] in outer["init"]:
            precv = outer["init"][precv[2]]              # last = folds[-1], bound before the loops: the same list under another name
        if not (precv[0] == "sub" and precv[1] == Cn_ and precv[2] in last_keys):
            rep.bad("FLOW.destination", fwhere(f, post.node), "the remainder is appended to %s, not to the last fold" % fmt(post.recv)[:80])
            kind = None
    okd = kind is not None
    rep.check("FLOW.destination", okd, fwhere(f, ap.node), "appended to folds[i] of a container with one empty list per fold", "the slice is not appended to the fold with the loop's index")
    ret = T(summ.ret)
    okr = False
    if okd:
        Cn = Cn_
        in_order = ret[0] == "comp" and ret[1] == "list" and ret[2] == ("sub", Cn, key) and gen_ok(ret[3])
        if kind == "dict":
            okr = ret == ("ext", "list", (("method", Cn, "values", (), ()),), ()) or in_order
        else:
            okr = ret in (Cn, ("ext", "list", (Cn,), ())) or in_order
    if not okr and any(isinstance(x, tuple) and x[:1] == ("obj",) for x in walk(ret)):
        rep.unk("RESULT.folds", fwhere(f), "the result is read off an object (%s): not read" % fmt(ret)[:60])
        okr = None
    if okr is not None:
      rep.check("RESULT.folds", okr, fwhere(f), "returns the folds in order",
                "result is %s" % fmt(ret)[:80])
    rep.require_count("LAST", 1)
    rep.require_count("TOL", 2)
    rep.assume("round() of a non-negative product; slices beyond the end are truncated by numpy")
