"""C14 - models are immutable under use and caller data is never modified (structural part).

Decided over every function and method of sempler.* (ownership / alias abstract interpretation, inter-
procedural): (M1) no write - subscript store, in-place operator, mutating method, rng.shuffle, out= -
reaches an object reachable from a parameter; (M2) outside __init__ no write reaches an object reachable
from self and no attribute of self is rebound; (M3) constructors store only fresh values; (M4) nothing
returned aliases a parameter object or self storage (views included); (M5) default-argument objects are
never written.  "No write to model state exists on any path of any method" implies the property for
every history of calls.
Frozen exceptions: cartesian(out=) - the documented output buffer; matrix_block as a stand-alone entry -
view or copy depends on the caller's index type, so it is judged inside its callers.
"""
from .common import *
from .. import own as OW
from ..loader import dotted_of

EXPLANATION = __doc__

EXEMPT_WRITE = {("sempler.utils.cartesian", "out"): "documented output buffer (named in the property)"}
EXEMPT_RETURN = {"sempler.utils.cartesian": "returns its output buffer",
                 "sempler.utils.matrix_block": "index kind decided by the caller; judged at its call sites"}


SCOPE_MODULES = {"sempler.lganm", "sempler.anm", "sempler.normal_distribution", "sempler.utils", "sempler.generators", "sempler.semi",
                 "sempler.noise", "sempler.functions", "sempler"}
MODEL_CLASSES = {"LGANM", "ANM", "NormalDistribution", "BayesianNetwork", "DRFNet"}


def is_model_class(prog, f):
    """the property speaks about the library's models; other (helper) classes may keep mutable state of their own"""
    if f.cls is None:
        return False
    if f.cls in MODEL_CLASSES:
        return True
    info = f.module.classes.get(f.cls)
    bases = [getattr(b, "id", getattr(b, "attr", None)) for b in (info or {}).get("bases", [])]
    return any(b in MODEL_CLASSES for b in bases)


def mutable_like_params(f):
    """parameters the function treats as containers / arrays (subscripted, iterated, measured, used in arithmetic, given array
    methods or handed to numpy): returning one of *those* hands the caller's storage back.  A parameter that is only passed on
    (a path, a flag, a seed, a label) and returned is not storage."""
    out = set()
    params = set(f.params)
    for n in ast.walk(f.node):
        if isinstance(n, ast.Subscript) and isinstance(n.value, ast.Name) and n.value.id in params:
            out.add(n.value.id)
        elif isinstance(n, ast.Attribute) and isinstance(n.value, ast.Name) and n.value.id in params:
            out.add(n.value.id)
        elif isinstance(n, (ast.For, ast.comprehension)) and isinstance(n.iter, ast.Name) and n.iter.id in params:
            out.add(n.iter.id)
        elif isinstance(n, ast.BinOp):
            for x in (n.left, n.right):
                if isinstance(x, ast.Name) and x.id in params:
                    out.add(x.id)
        elif isinstance(n, ast.Compare):
            for x in [n.left] + list(n.comparators):
                if isinstance(x, ast.Name) and x.id in params and not all(isinstance(o, (ast.Is, ast.IsNot)) for o in n.ops):
                    out.add(x.id)
        elif isinstance(n, ast.Call):
            fn = dotted_of(n.func) or ""
            if fn.split(".")[0] in ("np", "numpy") or fn in ("len", "list", "set", "sorted", "tuple", "sum", "min", "max", "zip", "enumerate", "deepcopy", "copy.deepcopy"):
                for a in list(n.args) + [k.value for k in n.keywords]:
                    if isinstance(a, ast.Name) and a.id in params:
                        out.add(a.id)
    return out


def site_where(site):
    return {"file": site[3], "line": site[1], "function": site[0], "construct": site[2]}


def run(prog, rep, tier):
    # entry points: everything a user can call.  Private helpers (leading underscore) are analysed inside their
    # callers (the analysis is interprocedural), where it is known what they are handed
    called = set()
    # the library as the property knows it; a module added later is reported in the notes, not judged
    new_mods = sorted({f.public_module.name for f in prog.funcs.values() if f.public_module.name.startswith("sempler.") and f.public_module.name not in SCOPE_MODULES
                       and f.public_module.name != "sempler.plot" and not f.public_module.name.startswith("sempler.test")})
    if new_mods:
        rep.notes.append("modules outside the scope the property was stated for (not judged): %s" % ", ".join(new_mods))
    funcs = [f for f in prog.funcs.values() if f.public_module.name in SCOPE_MODULES
             and not (f.name.startswith("_") and not f.name.startswith("__") and f.qname not in ("sempler.semi._bootstrap", "sempler.lganm._parse_interventions"))
             and not (f.cls and f.cls.startswith("_") and not f.cls.startswith("__"))]       # methods of private classes are internal: judged through the public callers that use them
    if tier == "thorough":
        funcs += [f for f in prog.funcs.values() if f.public_module.name.startswith("drf")]
    O = OW.Own(prog)
    n_ret = 0
    n_entries = 0
    for f in sorted(funcs, key=lambda f: f.qname):
        note_only = f.public_module.name.startswith("drf")
        try:
            summ, obj = OW.analyse_entry(O, f)
        except Inconclusive as e:
            if note_only:
                rep.notes.append("drf: %s not analysed (%s)" % (f.qname, e.why))
                continue
            rep.unk("OWN.entry", fwhere(f, e.node if hasattr(e.node, "lineno") else None), "ownership analysis left the modelled fragment: %s" % e.why)
            continue
        n_entries += 1
        viol = False
        for w in summ.effects:
            if not isinstance(w, OW.Write):
                continue
            owned = OW.caller_owned(w.labels)
            via = (" (in %s via %s)" % (f.name, " -> ".join("%s:%d" % c for c in w.chain))) if w.chain else ""
            for l in sorted(owned, key=str):
                kind, name = OW.strip_maybe(l)
                may = l[0].endswith("?")
                if (w.site[0], name) in EXEMPT_WRITE or (f.qname, name) in EXEMPT_WRITE:
                    rep.notes.append("exempt write %s: %s" % (w.site[2], EXEMPT_WRITE.get((w.site[0], name)) or EXEMPT_WRITE.get((f.qname, name))))
                    continue
                if kind in ("S", "SE") and f.name == "__init__":
                    continue
                if kind in ("S", "SE") and not is_model_class(prog, f):
                    rep.notes.append("%s.%s updates its own object: not one of the library's models (%s), not judged" % (f.cls, f.name, ", ".join(sorted(MODEL_CLASSES))))
                    continue
                rule = {"P": "M1.param", "PE": "M1.param", "S": "M2.self", "SE": "M2.self", "D": "M5.default", "G": "M5.module-state", "U": "M1.callable-result"}[kind]
                msg = "%s %s an object reachable from %s `%s` of %s%s" % (
                    w.how, "may write" if may else "writes", {"P": "parameter", "PE": "an element of parameter", "S": "self attribute",
                                                            "SE": "an element of self attribute", "D": "the default value of", "G": "module-level object", "U": "the array returned by the user's callable"}[kind], name, f.qname, via)
                if note_only:
                    rep.notes.append("NOTE drf: " + msg)
                elif kind == "G" and module_state_managed(w.site[2], [l]):
                    # module-level state (a cache, a registry) is written: results are *able* to depend on earlier calls; whether they do - a memo table
                    # with a sound key does not - is not decided by the ownership domain
                    rep.unk(rule, site_where(w.site), msg + ": hidden state between calls, not decided whether results can depend on it")
                    viol = True
                else:
                    rep.bad(rule, site_where(w.site), msg)
                    viol = True
        # a factory's returned callable is part of the API surface: what does *it* return?
        from ..core import Closure
        if isinstance(summ.ret, Closure):
            clo = summ.ret
            k = len(clo.node.args.args)
            try:
                r2 = O.call_closure(clo, [OW.OV([OW.IMM], kind="int")] * k, {}, clo.node, {}, O.module_ctx(f.module))
                shared = {l for l in OW.deep_labels(r2) if isinstance(l, tuple) and OW.strip_maybe(l)[0] in ("G", "P", "D")}
                if shared:
                    rep.bad("M4.return", fwhere(f), "the callable returned by %s hands out %s: results of different calls share storage" % (
                        f.name, ", ".join("%s `%s`" % ({"G": "a view of module-level object", "P": "a view of parameter", "D": "a default object"}[OW.strip_maybe(l)[0]], l[1]) for l in sorted(shared, key=str))))
                    viol = True
            except Inconclusive:
                pass
        if getattr(f, "cached", False) and summ.ret is not None and not (isinstance(summ.ret, OW.OV) and summ.ret.labels == {OW.IMM}):
            rep.bad("M4.return", fwhere(f), "%s is memoised and returns a mutable object: every caller receives the same array, so editing one result corrupts later calls" % f.name)
            viol = True
        # M4
        if summ.ret is not None and f.name != "__init__":
            n_ret += 1
            top = OW.labels_of(summ.ret) if not isinstance(summ.ret, OW.ObjV) else set()
            deep = {l for l in OW.deep_labels(summ.ret) if isinstance(l, tuple) and OW.strip_maybe(l)[0] in ("P", "S", "G")}
            bad = {l for l in (OW.caller_owned(top) | deep) if OW.strip_maybe(l)[0] in ("P", "S", "D", "G") or l in OW.caller_owned(top)}
            if isinstance(summ.ret, OW.ObjV) and summ.ret.tag == "self":
                bad = {("S", "<self>")} if is_model_class(prog, f) else set()
            ml = mutable_like_params(f)
            skipped = {l for l in bad if OW.strip_maybe(l)[0] in ("P", "PE") and l[1] not in ml}
            if skipped:
                rep.notes.append("%s returns its parameter %s, which it never treats as a container / array: not storage" % (f.qname, sorted(l[1] for l in skipped)))
                bad = bad - skipped
            if bad and f.qname not in EXEMPT_RETURN:
                if note_only:
                    rep.notes.append("NOTE drf: %s returns %s" % (f.qname, sorted(map(str, bad))))
                else:
                    # what comes back out of a module-level table may be that table's own object: harmless when what the table holds is immutable
                    # (memoised closures), storage shared between calls when it is an array (the caller edits one result and corrupts the next)
                    only_maybe_g = all(OW.strip_maybe(l)[0] == "G" and l[0].endswith("?") for l in bad) and OW.IMM in top
                    (rep.unk if only_maybe_g else rep.bad)("M4.return", fwhere(f), "the returned object %s %s" % (
                        "may alias" if all(l[0].endswith("?") for l in bad) else "aliases",
                        ", ".join("%s `%s`" % ({"P": "parameter", "PE": "an element of parameter", "S": "self attribute", "SE": "an element of self attribute",
                                                 "D": "default of", "G": "module-level object"}[OW.strip_maybe(l)[0]], l[1]) for l in sorted(bad, key=str))))
                    viol = True
            elif bad:
                rep.notes.append("exempt return %s: %s" % (f.qname, EXEMPT_RETURN[f.qname]))
        if not viol and not note_only:
            rep.ok("OWN.entry", fwhere(f), "no write to caller or model storage, nothing returned aliases it")
    # M2 rebinding / M3 constructor stores
    n_ctor = 0
    for (q, target, attr, val, rel, func) in O.rebinds:
        w = {"file": rel, "line": target.lineno, "function": q, "construct": norm(target)}
        if func.public_module.name.startswith("drf"):
            continue
        if not is_model_class(prog, func):
            continue                 # helper classes (not the library's models) may keep state of their own
        if func.name != "__init__":
            rep.bad("M2.rebind", w, "self.%s is rebound outside the constructor: the model changes under use" % attr)
            continue
        n_ctor += 1
        deep = OW.deep_labels(val)
        owned = {l for l in deep if isinstance(l, tuple) and OW.strip_maybe(l)[0] in ("P", "PE", "D")}
        definite = {l for l in owned if not l[0].endswith("?")}
        if definite:
            rep.bad("M3.ctor-copy", w, "self.%s keeps a reference to the caller's %s" % (attr, ", ".join("`%s`" % l[1] for l in sorted(definite, key=str))))
        elif owned:
            rep.bad("M3.ctor-copy", w, "self.%s may keep a view of the caller's %s" % (attr, ", ".join("`%s`" % l[1] for l in sorted(owned, key=str))))
        else:
            rep.ok("M3.ctor-copy", w, "self.%s is a fresh value" % attr)
    for site, labels in sorted(O.write_sites.items()):
        if not OW.caller_owned(labels) and not site[0].startswith("drf"):
            rep.ok("WRITE.fresh", site_where(site), "written object is a fresh local allocation")
    rep.analysed["own.entries"] = n_entries
    rep.analysed["own.write_sites"] = len(O.write_sites)
    rep.analysed["own.constructor_stores"] = n_ctor
    rep.analysed["own.return_summaries"] = n_ret
    rep.require_count("OWN.entry", 95)
    rep.require_count("WRITE.fresh", 60)
    rep.require_count("M3.ctor-copy", 12)
    rep.assume("user supplied callables (assignments, noise distributions) do not mutate their arguments")
    rep.assume("numpy alias model: basic slicing / .T / atleast_nd / asarray may alias; fancy and boolean indexing, copy(), astype(), arithmetic are fresh")
