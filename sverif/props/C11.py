"""C11 - random DAG generators return valid DAGs with a valid ordering (structural part).

Decided, on the symbolic terms of dag_avg_deg and dag_full: (TRIU) the edge mask is np.triu(., k>=1) - zero
diagonal, acyclic in position space; (PERM) rows and columns are re-indexed with the *same* permutation,
drawn from the seeded generator, on both return paths; the ordering returned is argsort(permutation), the
inverse map position -> node; (WEIGHTS) weights = rng.uniform(w_min, w_max, size = mask shape) multiplied
elementwise with the 0/1 mask, so entries are 0 or in [w_min, w_max); (BERNOULLI) dag_avg_deg's mask is
`U <= q` / `U < q` with U = rng.uniform/random over (p, p) at default bounds and q = k/(p-1) as a rational
normal form; dag_full's mask is ones((p, p)); (SEED) the generator is default_rng(random_state).
Not decided: independence/uniformity facts beyond the idiom (numpy's generator is trusted).
"""
from .common import *
from .. import mnf as MN
from ..mnf import MNF, rB
from ..sym import kwargs_of
from ..pred import ratpoly, rat_equal, poly, pkey, padd, pconst

EXPLANATION = __doc__
GE = "sempler.generators."
RNG = ("ext", "numpy.random.default_rng", (("param", "random_state"),), ())
Pp = ("param", "p")


def shape_of(t):
    """shape (tuple of terms) of an array term, from the constructors and the elementwise operations this module uses; None when not read"""
    if not isinstance(t, tuple) or not t:
        return None
    if t[0] == "ext" and t[1] in ("numpy.zeros", "numpy.ones", "numpy.empty", "numpy.full") and t[2]:
        sh = t[2][0]
        return tuple(sh[1]) if sh[0] == "tuple" else (sh,)
    if t[0] in ("ext", "method"):
        kw = dict(t[4] if t[0] == "method" else t[3])
        if "size" in kw and t[0] == "method" and t[2] in ("uniform", "random", "normal", "integers", "binomial"):
            sh = kw["size"]
            if sh[0] == "attr" and sh[2] == "shape":
                return shape_of(sh[1])
            return tuple(sh[1]) if sh[0] == "tuple" else (sh,)
        if t[0] == "ext" and t[1] in ("numpy.triu", "numpy.tril", "numpy.abs", "numpy.zeros_like", "numpy.ones_like", "numpy.array", "numpy.asarray", "numpy.copy") and t[2]:
            return shape_of(t[2][0])
        if t[0] == "method" and t[2] in ("astype", "copy") :
            return shape_of(t[1])
    if t[0] == "binop" and t[1] in ("*", "+", "-", "/"):
        a, b = shape_of(t[2]), shape_of(t[3])
        return a if a is not None and (b is None or a == b) else (b if a is None else None)
    if t[0] == "cmp" and len(t) == 4:
        a, b = shape_of(t[2]), shape_of(t[3])
        return a if a is not None else b
    return None


FULL_SL = ("slice", ("const", None), ("const", None), ("const", None))


def scatter_as_block(t, pt):
    """R = zeros_like(W); R[g[fro], g[to]] = W[fro, to] with (fro, to) = np.where(W != 0) and g = argsort(perm) moves every edge i -> j to
    g[i] -> g[j]: that is W[perm, :][:, perm] (perm is the inverse of g). -> ("block", term) | ("bad", why) | None (another form)"""
    if not (isinstance(t, tuple) and t and t[0] == "store" and len(t) >= 4):
        return None
    base, idx, val = t[1], t[2], t[3]

    def inv(g_):
        if g_ == ("ext", "numpy.argsort", (pt,), ()):
            return pt
        if g_ == pt:
            return ("ext", "numpy.argsort", (pt,), ())
        return None
    # R = zeros_like(W); R[np.ix_(g, g)] = W  puts W[i, j] at (g[i], g[j]) as well
    if idx[0] == "ext" and idx[1] == "numpy.ix_" and len(idx[2]) == 2 and idx[2][0] == idx[2][1] and not idx[3] and t[4] is None and \
            ((base[0] == "ext" and base[1] == "numpy.zeros_like" and base[2] == (val,) and not base[3]) or
             (base[0] == "ext" and base[1] == "numpy.zeros" and len(base[2]) == 1 and not base[3] and base[2][0] in (("attr", val, "shape"), ("tuple", (Pp, Pp))))):
        gi = inv(idx[2][0])
        if gi is None:
            return None
        return ("block", ("sub", ("sub", val, ("tuple", (gi, FULL_SL))), ("tuple", (FULL_SL, gi))))
    if not (idx[0] == "tuple" and len(idx[1]) == 2 and val[0] == "sub" and val[2][0] == "tuple" and len(val[2][1]) == 2):
        return None
    W = val[1]
    (gr, gc), (fr, to) = idx[1], val[2][1]
    if not (gr[0] == "sub" and gc[0] == "sub" and gr[1] == gc[1] and gr[2] == fr and gc[2] == to):
        return None
    g = gr[1]
    if not (fr[0] == "sub" and to[0] == "sub" and fr[1] == to[1] and is_const(fr[2], 0) and is_const(to[2], 1)):
        return None
    wh = fr[1]
    if not (wh[0] == "ext" and wh[1] in ("numpy.where", "numpy.nonzero") and len(wh[2]) == 1 and not wh[3]):
        return None
    fresh = (base[0] == "ext" and base[1] == "numpy.zeros_like" and base[2] == (W,) and not base[3]) or \
        (base[0] == "ext" and base[1] == "numpy.zeros" and len(base[2]) == 1 and not base[3] and base[2][0] in (("attr", W, "shape"), ("tuple", (Pp, Pp))))
    if not fresh:
        return None
    cond = wh[2][0]
    factors = [W] + ([W[2], W[3]] if W[0] == "binop" and W[1] == "*" else [])
    nonzero = (cond in factors and wh[1] == "numpy.nonzero") or cond in factors or \
        (cond[0] == "cmp" and cond[1] == "!=" and is_const(cond[3], 0) and (cond[2] in factors or (cond[2][0] == "ext" and cond[2][1] == "numpy.abs" and cond[2][2][0] in factors)))
    if not nonzero:
        if cond[0] == "cmp" and cond[1] in (">", "<", ">=", "<=") and (cond[2] in factors or cond[3] in factors):
            return ("bad", "only the entries with `%s` are moved to their new position: edges whose weight does not satisfy it are dropped from the graph" % fmt(cond)[:60])
        return None
    gi = inv(g)
    if gi is None:
        return None
    return ("block", ("sub", ("sub", W, ("tuple", (gi, FULL_SL))), ("tuple", (FULL_SL, gi))))


def first_axis(t):
    sh = shape_of(t)
    return sh[0] if sh else None
PP = ("tuple", (Pp, Pp))


def gen_call(t, name):
    return isinstance(t, tuple) and t[0] == "method" and t[1] == RNG and t[2] == name


def regions(t):
    """(value below the diagonal, on it, above it) of a (p, p) matrix term built from constants, or None."""
    t = strip_cast(t)
    if not isinstance(t, tuple):
        return None
    if t[0] == "const" and isinstance(t[1], (int, float)) and not isinstance(t[1], bool):
        return (t[1],) * 3
    if t[0] == "ext" and t[1] in ("numpy.ones", "numpy.zeros", "numpy.eye", "numpy.identity"):
        kw = dict(t[3])
        if set(kw) - {"dtype"}:
            return None
        if t[1] in ("numpy.ones", "numpy.zeros"):
            if t[2] != (PP,):
                return None
            c = 1 if t[1] == "numpy.ones" else 0
            return (c, c, c)
        return (0, 1, 0) if t[2] in ((Pp,), (Pp, Pp)) else None
    if t[0] == "ext" and t[1] == "numpy.tri" and t[2] and not (set(dict(t[3])) - {"k", "dtype"}):
        # np.tri(N, M=None, k=0): ones at and below the k-th diagonal
        kk = dict(t[3]).get("k", t[2][2] if len(t[2]) > 2 else ("const", 0))
        sq = t[2][0] == Pp and (len(t[2]) == 1 or t[2][1] in (Pp, ("const", None)))
        if sq and is_const(kk) and kk[1] in (0, -1):
            return (1, 1 if kk[1] == 0 else 0, 0)
        return None
    if t[0] == "ext" and t[1] in ("numpy.triu", "numpy.tril") and t[2]:
        b2, _ = api.bind_slots(api.SLOTS["numpy.triu"], list(t[2]), dict(t[3]))
        kk = b2.get("k")
        k = 0 if kk is None else (kk[1] if is_const(kk) and isinstance(kk[1], int) else None)
        r = regions(b2["m"])
        if r is None or k not in (-1, 0, 1):
            return None
        if t[1] == "numpy.triu":
            return (0, r[1], r[2]) if k == 0 else None      # k = +-1 cut inside a region: only k = 0 is region-exact
        return (r[0], r[1], 0) if k == 0 else None
    if t[0] == "binop" and t[1] in ("+", "-", "*"):
        a, b = regions(t[2]), regions(t[3])
        if a is None or b is None:
            return None
        op = {"+": lambda x, y: x + y, "-": lambda x, y: x - y, "*": lambda x, y: x * y}[t[1]]
        return tuple(op(x, y) for x, y in zip(a, b))
    if t[0] == "attr" and t[2] == "T":
        r = regions(t[1])
        return None if r is None else (r[2], r[1], r[0])
    return None


def subset_form(rep, f, mask):
    """A = zeros((p, p)); A[fro[E], to[E]] = 1 with (fro, to) = np.triu_indices(p, k >= 1) and E = rng.choice(m, size=rng.binomial(m, q), replace=False):
    a Binomial(m, q) number of distinct positions above the diagonal, uniformly chosen - the same law as m independent Bernoulli(q) indicators.
    -> True when the form was recognised (and judged), False when it is something else"""
    _, base, idx, val, aug = mask
    if not (base[0] == "ext" and base[1] == "numpy.zeros" and base[2][:1] == (PP,) and idx[0] == "tuple" and len(idx[1]) == 2 and aug is None):
        return False
    r_, c_ = idx[1]
    if not (r_[0] == "sub" and c_[0] == "sub" and r_[2] == c_[2] and r_[1][0] == "sub" and c_[1][0] == "sub" and r_[1][1] == c_[1][1]
            and r_[1][1][0] == "ext" and r_[1][1][1] == "numpy.triu_indices"):
        return False
    ti, E = r_[1][1], r_[2]
    b2, _ = api.bind_slots(["n", "k", "m"], list(ti[2]), dict(ti[3]))
    kk = b2.get("k")
    rows_cols = (is_const(r_[1][2], 0) and is_const(c_[1][2], 1))
    rep.check("TRIU.strict", b2.get("n") == Pp and b2.get("m") in (None, Pp) and kk is not None and is_const(kk) and isinstance(kk[1], int) and kk[1] >= 1 and rows_cols and is_const(val, 1),
              fwhere(f), "edges are stored at positions drawn from np.triu_indices(p, k=%s): strictly above the diagonal" % (kk[1] if kk else 0),
              "edge positions come from %s with rows / columns %s: not strictly above the diagonal" % (fmt(ti)[:60], "in order" if rows_cols else "swapped"))
    m_terms = [("ext", "len", (("sub", ti, ("const", 0)),), ()), ("ext", "len", (("sub", ti, ("const", 1)),), ())]
    ok, why, q = False, "positions are chosen by %s" % fmt(E)[:80], None
    if gen_call(E, "choice"):
        sl, _ = api.bind_slots(api.GEN_SLOTS["choice"], list(E[3]), kwargs_of(E))
        cnt = sl.get("size")
        if sl.get("a") in m_terms and cnt is not None and gen_call(cnt, "binomial"):
            sb, _ = api.bind_slots(api.GEN_SLOTS["binomial"], list(cnt[3]), kwargs_of(cnt))
            if sb.get("n") in m_terms and sb.get("size") is None:
                q = sb.get("p")
                if sl.get("replace") == ("const", False):
                    ok = True
                else:
                    why = "the Binomial(m, q) positions are drawn *with* replacement: repeated positions collapse into one edge, the graph has fewer edges than m independent Bernoulli(q) indicators"
    if q is None and not ok:
        rep.unk("BERNOULLI.idiom", fwhere(f), "edge positions are a random subset of the upper triangle drawn in a form these rules do not read: %s" % fmt(E)[:80])
        return True
    rep.check("BERNOULLI.idiom", ok, fwhere(f), "a Binomial(m, q) number of distinct positions above the diagonal, chosen uniformly: m independent Bernoulli(q) edge indicators", why)
    if ok:
        want = ratpoly(("binop", "/", ("param", "k"), ("binop", "-", Pp, ("const", 1))))
        rep.check("BERNOULLI.probability", rat_equal(ratpoly(q), want), fwhere(f), "edge probability = k / (p - 1)", "edge probability is %s, not k/(p-1)" % fmt(q)[:80])
    return True


def strip_cast(t):
    while isinstance(t, tuple) and t[0] == "method" and t[2] == "astype":
        t = t[1]
    return t


def special_paths(rep, f, special, pt, mainmat, extra_of):
    """returns under further conditions (fast paths).  The ordering must still be random: one that contains no draw of the seeded
    generator is a fixed ordering on that path; a path restricted only by comparisons of p with constants (degenerate sizes) and
    matrices that differ in normal form are not decided here."""
    for r, path, v in special:
        ex = extra_of(path)
        cond = ", ".join(sorted(pred_fmt(x) for x in ex))[:100]
        only_p = all(set(y for y in walk(x) if isinstance(y, tuple) and y and y[0] == "param") <= {Pp} for x in ex)
        mat, o = (v[1][0], v[1][1]) if v[0] == "tuple" and len(v[1]) == 2 else (v, None)
        if o is not None:
            if o == ("ext", "numpy.argsort", (pt,), ()):
                rep.ok("PERM.ordering", fwhere(f, r.node), "fast path under [%s] still returns argsort(permutation)" % cond)
            elif not any(isinstance(y, tuple) and y and y[0] == "method" and y[1] == RNG for y in walk(o)) and not only_p:
                rep.bad("PERM.ordering", fwhere(f, r.node), "under [%s] the returned ordering is %s: a fixed ordering, not a random one (no draw of the seeded generator reaches it)" % (
                    cond, fmt(o)[:60]))
            else:
                rep.unk("PERM.ordering", fwhere(f, r.node), "fast path under [%s] returns the ordering %s: not decided" % (cond, fmt(o)[:60]))
        try:
            same = MN.key(MNF().nf(mat)) == MN.key(MNF().nf(mainmat))
        except Inconclusive:
            same = mat == mainmat
        if same:
            rep.ok("PERM.both-paths", fwhere(f, r.node), "fast path under [%s] hands out the same matrix" % cond)
        else:
            rep.unk("PERM.both-paths", fwhere(f, r.node), "fast path under [%s] returns %s: equality with the general path under that condition is not decided" % (cond, fmt(mat)[:60]))


def analyse(rep, prog, name, full, also=()):
    f = need(prog, GE + name)
    S = Sym(prog, inline=inline_helpers(prog, "sempler.generators", also=also))
    run_function(S, f)
    if not also:
        # a helper of another module that is handed the permutation (utils.inverse_permutation(permutation), a relabelling helper) is part of the
        # construction: read through it
        helpers = {c.target for c in S.select("call", qname=f.qname) if c.callkind == "repo" and not c.target.startswith(GE) and
                   any(isinstance(x, tuple) and len(x) == 5 and x[0] == "method" and x[2] == "permutation" for a_ in list(c.args) + [v_ for _, v_ in (c.kwargs or {}).items()] for x in walk(a_))}
        if helpers:
            return analyse(rep, prog, name, full, also=tuple(sorted(helpers)))
    rets = []
    for r in S.select("return", qname=f.qname):
        v = r.value
        if v[0] == "phi":            # `return (W, ordering) if return_ordering else W`
            rets.append((r, tuple(r.path) + ((v[1], True),), v[2]))
            rets.append((r, tuple(r.path) + ((v[1], False),), v[3]))
        else:
            rets.append((r, tuple(r.path), v))
    RO = ("param", "return_ordering")

    def extra_of(path):
        return frozenset(x for x in conj(path) if not (x[0] == "atom" and x[1] == RO))
    # the general path is the group of returns reached last (fall-through); earlier groups under further conditions are fast paths
    last = max(rets, key=lambda x: x[0].order) if rets else None
    main = [x for x in rets if extra_of(x[1]) == extra_of(last[1])]
    special = [x for x in rets if extra_of(x[1]) != extra_of(last[1])]
    if len(rets) == 2 and sum(1 for x in rets if x[2][0] == "tuple" and len(x[2][1]) == 2) == 1:
        main, special = list(rets), []          # the two documented forms, whatever their conditions are (judged by PERM.switch)
    mats, ords = [], []
    for r, path, v in main:
        if v[0] == "tuple" and len(v[1]) == 2:
            mats.append(v[1][0])
            ords.append((v[1][1], r, path))
        else:
            mats.append(v)
    if len(main) != 2 or len(ords) != 1:
        raise Inconclusive("%s: expected one unconditional return with and one without the ordering" % name, f.node)
    try:
        same = MN.key(MNF().nf(mats[0])) == MN.key(MNF().nf(mats[1]))
    except Inconclusive:
        same = mats[0] == mats[1]
    rep.check("PERM.both-paths", same, fwhere(f), "both return paths hand out the same matrix", "the matrix differs between return_ordering=True and False")
    withord = ords[0]
    pc = conj(withord[2])
    if special:
        pc = pc - extra_of(withord[2])
    rep.check("PERM.switch", pc == frozenset([("atom", RO, True)]), fwhere(f, withord[1].node), "ordering returned iff return_ordering",
              "ordering is returned under %s" % [pred_fmt(x) for x in pc])
    # permutation
    perm = None
    for c in S.select("call", qname=f.qname):
        if c.callkind == "method" and c.target == ".permutation":
            perm = c
    if perm is None:
        def sorts_a_draw(c_):
            return c_.callkind == "ext" and c_.target in ("numpy.argsort", "sorted", "numpy.lexsort") and \
                any(isinstance(x, tuple) and len(x) == 5 and x[0] == "method" and x[2] in ("random", "uniform", "integers", "normal") for a_ in c_.args for x in walk(a_))
        other = [c for c in S.select("call", qname=f.qname) if (c.callkind == "method" and c.target in (".shuffle", ".permuted", ".choice")) or
                 (c.callkind == "ext" and c.target in ("numpy.random.permutation", "numpy.random.shuffle", "numpy.random.choice", "random.shuffle", "random.sample")) or sorts_a_draw(c)]
        with_repl = [c for c in other if c.target in (".choice", "numpy.random.choice") and not is_const((c.kwargs or {}).get("replace", c.args[2] if len(c.args) > 2 else ("const", True)), False)]
        if with_repl:
            # numpy's choice draws *with* replacement unless replace=False is given: labels repeat, the relabelling is not a bijection of the nodes
            rep.bad("PERM.random", fwhere(f, with_repl[0].node), "the relabelling is drawn with %s without replace=False: a sample with replacement, not a permutation of the nodes "
                    "(repeated labels; some nodes never appear)" % with_repl[0].target)
        elif other:
            rep.unk("PERM.random", fwhere(f, other[0].node), "the random relabelling is not drawn with rng.permutation(p); this way of drawing it (%s) is not read" % other[0].target)
        else:
            rep.bad_form("PERM.random", fwhere(f), "no rng.permutation(p) from default_rng(random_state): the nodes are not relabelled at random")
        return
    if perm.recv != RNG:
        rep.bad("PERM.random", fwhere(f, perm.node), "the permutation is drawn from %s, not from default_rng(random_state)" % fmt(perm.recv)[:60])
        return
    arg_is_p = perm.args == [Pp] and not perm.kwargs
    if not arg_is_p and len(perm.args) == 1 and not perm.kwargs:
        a_ = perm.args[0]
        rows = None
        if a_[0] == "ext" and a_[1] == "len" and len(a_[2]) == 1:
            rows = first_axis(a_[2][0])
        elif a_[0] == "sub" and a_[1][0] == "attr" and a_[1][2] == "shape" and is_const(a_[2]) and a_[2][1] in (0, 1, -1, -2):
            sh_ = shape_of(a_[1][1])
            rows = sh_[a_[2][1]] if sh_ is not None and len(sh_) == 2 else None
        if rows == Pp:
            arg_is_p = True
        elif rows is None:
            try:
                d_ = dict(poly(a_))
            except Exception:
                d_ = None
            if d_ is None or not set(d_) <= {(Pp,), ()}:
                rep.unk("PERM.random", fwhere(f, perm.node), "rng.permutation(%s): whether this is the number of nodes is not read" % fmt(a_)[:60])
                return
    if not arg_is_p:
        rep.bad("PERM.random", fwhere(f, perm.node), "rng.permutation(%s) is not a permutation of the p nodes" % ", ".join(fmt(a_)[:40] for a_ in perm.args))
        return
    rep.ok("PERM.random", fwhere(f, perm.node), "permutation = default_rng(random_state).permutation(p): random, seeded, a bijection of the p nodes")
    pt = perm.result
    special_paths(rep, f, special, pt, mats[0], extra_of)
    sc = scatter_as_block(mats[0], pt)
    if sc is not None and sc[0] == "bad":
        rep.bad("PERM.scatter", fwhere(f, main[0][0].node), sc[1])
        return
    if sc is not None:
        mats = [sc[1]] + mats[1:]
    M = MNF()
    try:
        got = M.nf(mats[0])
    except Inconclusive as e:
        rep.unk("PERM.same-axes", fwhere(f), "result matrix left the block fragment: %s" % e.why)
        return
    blocks = [fct for m in got for fct in m if fct[0] == "B"]
    ASORT = ("ext", "numpy.argsort", (pt,), ())
    ok = len(got) == 1 and len(blocks) == 1 and blocks[0][2] == blocks[0][3] and blocks[0][2] in (pt, ASORT) and not blocks[0][4]
    by_inverse = ok and blocks[0][2] == ASORT        # relabelled with the inverse permutation: as random, and then the ordering is the permutation itself
    if ok:
        rep.ok("PERM.same-axes", fwhere(f, main[0][0].node), "result = W[permutation, :][:, permutation]: the same relabelling on both axes" if not by_inverse else
               "result = W[inverse, :][:, inverse] with inverse = argsort(permutation): the same relabelling on both axes")
    elif len(got) == 1 and len(blocks) == 1:
        rep.bad("PERM.same-axes", fwhere(f, main[0][0].node), "rows and columns are not re-indexed with the same permutation: %s" % MN.show(got))
    else:
        # not a re-indexed block of W at all (a scatter into a fresh matrix, a product with a permutation matrix ...): another construction, not read
        rep.unk("PERM.same-axes", fwhere(f, main[0][0].node), "the result is not written as a block W[rows, :][:, cols] of the upper-triangular matrix: %s" % MN.show(got)[:100])
        return
    if not ok:
        return
    W = blocks[0][1]
    o = ords[0][0]
    INT_OK = (("extref", "int"), ("extref", "numpy.intp"), ("extref", "numpy.int64"), ("const", "int"), ("extref", "numpy.int_"))

    def plain(t):
        # conversions of the permutation that leave it as it is: np.asarray(perm, dtype=int), perm.astype(int), np.array(perm)
        def rw(x):
            if isinstance(x, tuple) and x:
                if x[0] == "ext" and x[1] in ("numpy.asarray", "numpy.array", "numpy.asanyarray") and len(x[2]) == 1 and x[2][0] == pt and \
                        set(dict(x[3])) <= {"dtype"} and dict(x[3]).get("dtype", INT_OK[0]) in INT_OK:
                    return pt
                if x[0] == "method" and x[1] == pt and x[2] == "astype" and len(x[3]) == 1 and x[3][0] in INT_OK:
                    return pt
                return tuple(rw(y) for y in x)
            return x
        return rw(t)

    def inverse_of(o_):
        """True: the inverse of the permutation; a string: why it is decidedly not; None: not read"""
        o_ = plain(o_)
        if o_ == ("ext", "numpy.argsort", (pt,), ()):
            return True
        if o_ == pt:
            return "the permutation itself, not its inverse (position -> node)"
        # written out: inv = np.empty(len(perm), dtype=int); inv[perm] = np.arange(len(perm))
        n_ = (("ext", "len", (pt,), ()), Pp, ("sub", ("attr", pt, "shape"), ("const", 0)), ("attr", pt, "size"))
        if o_[0] == "store" and o_[2] == pt and o_[4] is None and o_[1][0] == "ext" and o_[3][0] == "ext" and o_[3][1] in ("numpy.arange", "range") and len(o_[3][2]) == 1 and o_[3][2][0] in n_:
            b_ = o_[1]
            if b_[1] in ("numpy.empty", "numpy.zeros") and b_[2][:1] in tuple((x_,) for x_ in n_):
                dt = dict(b_[3]).get("dtype")
                if set(dict(b_[3])) <= {"dtype"} and dt in INT_OK:
                    return True
                if dt is None:
                    return "the inverse is written into a float array (np.empty without dtype): the ordering is not an integer index array"
                if dt[0] == "extref" and dt[1] in ("numpy.byte", "numpy.int8", "numpy.uint8", "numpy.int16", "numpy.uint16", "numpy.bool_", "bool"):
                    return "the inverse is written into an array of dtype %s: node labels above its range wrap around" % dt[1]
                return None
            if b_[1] in ("numpy.empty_like", "numpy.zeros_like") and b_[2][:1] == (pt,) and not dict(b_[3]):
                return True
        return None
    inv = inverse_of(o)
    if by_inverse:
        # the block is indexed with argsort(permutation): the map position -> node is then the permutation itself
        po = plain(o)
        inv = True if po == pt else ("argsort(permutation), but the matrix was relabelled with the inverse permutation: the ordering of that matrix is the permutation itself"
                                     if po == ASORT else None)
    if inv is True:
        rep.ok("PERM.ordering", fwhere(f, ords[0][1].node), "ordering = argsort(permutation), the inverse map (position -> node)")
    elif isinstance(inv, str):
        rep.bad("PERM.ordering", fwhere(f, ords[0][1].node), "the returned ordering is %s" % inv)
    else:
        rep.unk("PERM.ordering", fwhere(f, ords[0][1].node), "the returned ordering is %s: whether this is argsort(permutation) is not read" % fmt(o)[:80])
    # W = mask * weights
    if not (W[0] == "binop" and W[1] == "*"):
        rep.bad_form("WEIGHTS.masked", fwhere(f), "weight matrix is not `mask * weights`: %s" % fmt(W)[:80])
        return
    a, b = W[2], W[3]
    wcall = [x for x in (a, b) if gen_call(x, "uniform") and (x[3] or kwargs_of(x).get("low") is not None)]
    if len(wcall) != 1:
        rep.bad_form("WEIGHTS.uniform", fwhere(f), "no factor of the weight matrix is rng.uniform(w_min, w_max, ...)")
        return
    wt = wcall[0]
    mask = b if wt is a else a
    slots, extra = api.bind_slots(api.GEN_SLOTS["uniform"], list(wt[3]), kwargs_of(wt))
    shape_ok = slots.get("size") in (PP, ("attr", mask, "shape"))
    ok = slots.get("low") == ("param", "w_min") and slots.get("high") == ("param", "w_max") and shape_ok and not extra
    rep.check("WEIGHTS.uniform", ok, fwhere(f), "weights = rng.uniform(low=w_min, high=w_max, size=p x p)",
              "weights are drawn as uniform(low=%s, high=%s, size=%s)" % tuple(fmt(slots.get(k, ("const", None))) for k in ("low", "high", "size")))
    # mask = triu(., k >= 1)
    if strip_cast(mask)[0] == "ext" and strip_cast(mask)[1] == "numpy.triu":
        mask = strip_cast(mask)             # np.triu(U <= q, k=1).astype(float): the cast of a 0/1 mask keeps the mask
    if mask[0] == "after" and mask[1] in S.loopinfo:
        # the same mask written as a loop: A = zeros((p, p)); for i in range(p): A[i, i+1:] = 1  (row i gets the columns j > i)
        li_ = S.loopinfo[mask[1]]
        nm_ = mask[2]
        i_ = ("elem", li_["iter"])
        init_ = li_["init"].get(nm_)
        sts = [x for x in S.select("store", qname=f.qname) if mask[1] in x.loops]
        rng_ok = li_["iter"][0] == "ext" and li_["iter"][1] == "range" and len(li_["iter"][2]) == 1 and \
            li_["iter"][2][0] in (("param", "p"), ("ext", "len", (init_,), ()), ("ext", "len", (("mu", mask[1], nm_),), ()))
        zero_ok = init_ is not None and init_[0] == "ext" and init_[1] == "numpy.zeros" and init_[2] and init_[2][0] in (PP,)
        st_ok = len(sts) == 1 and sts[0].base == ("mu", mask[1], nm_) and is_const(sts[0].value, 1) and sts[0].aug is None and \
            sts[0].idx == ("tuple", (i_, ("slice", ("binop", "+", i_, ("const", 1)), ("const", None), ("const", None))))
        if rng_ok and zero_ok and st_ok:
            rep.ok("TRIU.strict", fwhere(f, li_["node"]), "row i of the zero matrix gets ones in the columns j > i: the strict upper triangle")
            rep.ok("MASK.full", fwhere(f, li_["node"]), "every entry above the diagonal is an edge")
        else:
            rep.unk("TRIU.strict", fwhere(f, li_["node"]), "the edge mask is built by a loop that is not read as the strict upper triangle")
        return
    if mask[0] == "store" and not full and subset_form(rep, f, mask):
        return
    if not (mask[0] == "ext" and mask[1] == "numpy.triu" and mask[2]):
        reg = regions(mask)
        if reg is not None:
            # a mask of constants per region (below the diagonal, on it, above it)
            if reg[0] != 0 or reg[1] != 0:
                rep.bad("TRIU.strict", fwhere(f), "edge mask %s has non-zero entries %s: not a strict upper triangle" % (
                    fmt(mask)[:80], " and ".join(w for w, v in zip(("below the diagonal", "on the diagonal"), reg) if v != 0)))
            else:
                rep.ok("TRIU.strict", fwhere(f), "edge mask %s is zero on and below the diagonal" % fmt(mask)[:80])
                if full:
                    rep.check("MASK.full", reg[2] == 1, fwhere(f), "every entry above the diagonal is 1", "dag_full's mask is %s above the diagonal" % reg[2])
                else:
                    rep.bad("BERNOULLI.idiom", fwhere(f), "edge indicator is a constant mask, not a Bernoulli threshold")
            return
        if mask[0] == "ext" and mask[1] in ("numpy.tril", "numpy.ones", "numpy.eye", "numpy.ones_like"):
            rep.bad_form("TRIU.strict", fwhere(f), "edge mask is not np.triu(...): %s" % fmt(mask)[:80])
        else:
            rep.unk("TRIU.strict", fwhere(f), "the edge mask %s is not written with np.triu: not read" % fmt(mask)[:80])
        return
    b2, extra = api.bind_slots(api.SLOTS["numpy.triu"], list(mask[2]), dict(mask[3]))
    kk = b2.get("k")
    rep.check("TRIU.strict", kk is not None and is_const(kk) and isinstance(kk[1], int) and kk[1] >= 1, fwhere(f),
              "np.triu(., k=%s): zero diagonal, only position i < j" % (kk[1] if kk else None), "np.triu keeps the diagonal (k=%s): self-loops possible" % (fmt(kk) if kk else "0"))
    inner = strip_cast(b2["m"])
    if full:
        ok = inner in (("ext", "numpy.ones", (PP,), ()), ("ext", "numpy.ones", (PP,), (("dtype", ("extref", "float")),)))
        rep.check("MASK.full", ok, fwhere(f), "mask = ones((p, p)) above the diagonal: every pair adjacent", "dag_full's mask is %s" % fmt(inner)[:80])
        return
    # Bernoulli idiom
    ok, why = False, "mask is %s" % fmt(inner)[:100]
    q = None
    if inner[0] == "cmp" and inner[1] in ("<=", "<", ">=", ">"):
        l, r = inner[2], inner[3]
        u, q = (l, r) if inner[1] in ("<=", "<") else (r, l)
        u_ok = (gen_call(u, "uniform") and not u[3] and kwargs_of(u).get("size") == PP and set(kwargs_of(u)) == {"size"}) or \
               (gen_call(u, "random") and (u[3] == (PP,) or kwargs_of(u).get("size") == PP))
        ok = u_ok
        why = "threshold test on %s" % fmt(u)[:60]
    elif gen_call(inner, "binomial"):
        sl, _ = api.bind_slots(api.GEN_SLOTS["binomial"], list(inner[3]), kwargs_of(inner))
        ok = is_const(sl.get("n"), 1) and sl.get("size") == PP
        q = sl.get("p")
    rep.check("BERNOULLI.idiom", ok and q is not None, fwhere(f), "edge indicator = [U <= q], U uniform on [0,1) over (p, p)", "edge indicator is not a Bernoulli threshold: " + why)
    if ok and q is not None:
        want = ratpoly(("binop", "/", ("param", "k"), ("binop", "-", Pp, ("const", 1))))
        rep.check("BERNOULLI.probability", rat_equal(ratpoly(q), want), fwhere(f), "edge probability = k / (p - 1)",
                  "edge probability is %s, not k/(p-1)" % fmt(q)[:80])


def run(prog, rep, tier):
    analyse(rep, prog, "dag_avg_deg", False)
    analyse(rep, prog, "dag_full", True)
    # every call builds its graph from fresh arrays: a triangular mask or weight matrix kept between calls (a memoised helper) and then written in place
    # makes the second graph of the same size a product of two draws
    from .common import inputs_intact
    inputs_intact(rep, prog, ["sempler.generators.dag_avg_deg", "sempler.generators.dag_full"], rule="FRESH")
    rep.require_count("PERM", 10)
    rep.require_count("TRIU", 2)
    rep.require_count("WEIGHTS", 2)
    rep.assume("rng.permutation(p) is a uniformly random bijection; rng.uniform(low, high) lies in [low, high)")


from .. import api  # noqa: E402
