"""evaluate a factory function and the closure it returns (noise factories)"""
from ..core import Closure, PartialV
from ..sym import Sym, run_function, T
from ..loader import Inconclusive


def factory_closure(prog, qname, arg=("param", "n")):
    """-> (S, factory Func, closure value, result term of calling the closure with `arg`, facts of the closure body)"""
    f = prog.func(qname)
    mod = qname.rsplit(".", 1)[0]
    # private helpers of the factory's module are expanded, so that extracting one does not hide the draw
    from ..sym import private_class
    S = Sym(prog, inline=lambda g: (g.name.startswith("_") and not g.name.startswith("__")) or private_class(g))
    summ, _ = run_function(S, f)
    clo = summ.ret
    from ..core import ObjV
    callable_obj = isinstance(clo, ObjV) and prog.method(clo.module, clo.cls, "__call__") is not None       # an instance of a class with __call__
    if not isinstance(clo, (Closure, PartialV)) and not callable_obj:
        raise Inconclusive("%s does not return a closure" % qname, f.node)
    n0 = len(S.facts)
    ctx = S.module_ctx(f.module)
    res = S.apply(clo, [arg], {}, getattr(clo, "node", f.node), {}, ctx)
    return S, f, clo, T(res), S.facts[n0:]
