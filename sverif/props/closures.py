"""evaluate a factory function and the closure it returns (noise factories)"""
from ..core import Closure
from ..sym import Sym, run_function, T
from ..loader import Inconclusive


def factory_closure(prog, qname, arg=("param", "n")):
    """-> (S, factory Func, closure value, result term of calling the closure with `arg`, facts of the closure body)"""
    f = prog.func(qname)
    S = Sym(prog)
    summ, _ = run_function(S, f)
    clo = summ.ret
    if not isinstance(clo, Closure):
        raise Inconclusive("%s does not return a closure" % qname, f.node)
    n0 = len(S.facts)
    ctx = S.module_ctx(f.module)
    res = S.call_closure(clo, [arg], {}, clo.node, {}, ctx)
    return S, f, clo, T(res), S.facts[n0:]
