"""C06 - population regression and MSE are the least-squares solution (structural part).

Decided: (FORMULA) the coefficients stored at S equal C_SS^-1 C_Sy, the intercept equals mu_y - b.mu,
mse equals C_yy + b C b^T - 2 C_y. b^T with b the coefficients returned by regress(y, S) - as matrix
normal forms over the reals; (WRITESET) the coefficient vector is zeros(p) written only at S; (NODEP) mse
does not depend on the means (the intercept is discarded, self.mean is never read).
Also decided: coefficients may be stored at a re-ordering of S when value and positions are in the same order; differing forms are
refuted by exact rational evaluation at a point with S in cyclic order; (OWN) nothing passed in is written.
Not decided: monotonicity / invariance corollaries; the LGANM causal link (a theorem on top of C01).
"""
from .common import *
from .common import decide_formula
from .. import mnf as MN
from ..mnf import MNF, rB, rV, rA, rinv, add, mul, rscale, strip_wrappers

EXPLANATION = __doc__
ND = "sempler.normal_distribution.NormalDistribution."
MU, C = ("self", "mean"), ("self", "covariance")
Py, PXs = ("param", "y"), ("param", "Xs")
SY = ("scalar", Py)


def cmp_rule(rep, rule, w, got, ref, what, extra=None):
    def make_point(rnd):
        from .. import mnf_eval as ME
        p = 5
        vals = {C: ME.rand_spd(rnd, p), MU: ME.rand_vec(rnd, p)}
        for t in (extra or ()):
            vals[t] = ME.rand_vec(rnd, p)
        return ME.Point(p, vals, {Py: 2, PXs: [4, 1]})
    decide_formula(rep, rule, w, got, ref, what, make_point)


def split_phis(t, limit=3):
    """case split on the phi terms inside t -> [(assumptions, term without those phis)]"""
    phis = []
    for x in walk(t):
        if isinstance(x, tuple) and x and x[0] == "phi" and x not in phis:
            phis.append(x)
    phis = [x for x in phis if not any(x is not y and mentions(y, x) for y in phis)][:limit]   # outermost first
    if not phis:
        return [((), t)]
    out = []
    x = phis[0]
    from ..sym import subst
    for pol, br in ((True, x[2]), (False, x[3])):
        for assume, t2 in split_phis(subst(t, {x: br}), limit - 1 if limit > 1 else 0) if limit > 1 else [((), subst(t, {x: br}))]:
            out.append((((x[1], pol),) + tuple(assume), t2))
    return out


def mentions_outside_len(t, idx):
    if t == ("ext", "len", (idx,), ()):
        return False
    if t == idx:
        return True
    return isinstance(t, tuple) and any(mentions_outside_len(c, idx) for c in t if isinstance(c, tuple))


def run(prog, rep, tier):
    # regress / mse read self.mean and self.covariance: the constructor must have stored the given moments themselves
    from .C05 import ctor_rules
    ctor_rules(rep, prog)
    from ..sym import UNIT_HELPERS, private_class
    inl = lambda g: g.qname in (U + "matrix_block",) or (((g.name.startswith("_") and not g.name.startswith("__")) or private_class(g)) and g.qname not in UNIT_HELPERS)
    f = need(prog, ND + "regress")
    S = Sym(prog, inline=inl)
    summ, _ = run_function(S, f)
    M = MNF(symmetric=[C], scalars=[Py])
    stores = S.select("store", qname=f.qname)
    zeros = ("ext", "numpy.zeros", (("self", "p"),), ())
    if len(stores) != 1:
        rep.bad_form("WRITESET.coefs", fwhere(f), "coefficients must be written exactly once (at S); found %d stores" % len(stores))
    else:
        st = stores[0]
        MUs = ("self", "mean")
        base_ok = zeros_of(st.base, shapes=[("self", "p"), ("ext", "len", (MUs,), ()), ("attr", MUs, "shape"), ("sub", ("attr", MUs, "shape"), ("const", 0)),
                                            ("ext", "len", (("self", "covariance"),), ())], like=[MUs])
        # the write positions are S itself or a re-ordering of S (sorted, S[argsort(S)]): the same set of entries
        L_ = M.idx_key(st.idx)

        def reorder_of(k_):
            if k_ == PXs:
                return True
            if isinstance(k_, tuple) and k_[0] == "ext" and k_[1] in ("sorted", "numpy.sort") and len(k_[2]) == 1:
                return reorder_of(M.idx_key(k_[2][0]))
            if isinstance(k_, tuple) and k_[0] == "sub" and len(k_) == 3 and reorder_of(M.idx_key(k_[1])) and isinstance(k_[2], tuple) and k_[2][0] == "ext" and \
                    k_[2][1] == "numpy.argsort" and len(k_[2][2]) == 1 and reorder_of(M.idx_key(k_[2][2][0])):
                return True
            return False
        ok = base_ok and reorder_of(L_) and st.aug is None
        rep.check("WRITESET.coefs", ok, fwhere(f, st.node), "coefficients = zeros(p) written only at the regressors S",
                  "coefficient vector is not `zeros(p)` written at S only (base %s, index %s)" % (fmt(st.base), fmt(st.idx)))
        # the value stored at positions L must be the solution *in the order of L*
        L_ref = L_ if reorder_of(L_) else PXs
        ref = mul(rinv(rB(C, L_ref, L_ref)), rB(C, SY, L_ref))
        for assume, term in split_phis(st.value):
            full = any(strip_wrappers(c) in (("cmp", "==", ("ext", "len", (PXs,), ()), ("self", "p")), ("cmp", "==", ("self", "p"), ("ext", "len", (PXs,), ()))) and pol
                       for c, pol in assume)
            content = any(mentions_outside_len(strip_wrappers(c), PXs) for c, pol in assume)
            label = "coefs[S]" + (" when " + " and ".join(("" if pol else "not ") + fmt(strip_wrappers(c))[:40] for c, pol in assume) if assume else "")
            try:
                got = M.nf(term)
            except Inconclusive as e:
                rep.unk("FORMULA.coefs", fwhere(f, st.node, construct=label), "left the matrix fragment: %s" % e.why)
                continue
            if MN.key(got) != MN.key(ref) and content:
                rep.unk("FORMULA.coefs", fwhere(f, st.node, construct=label), "special case whose condition inspects the regressor list itself: not decided")
                continue

            def make_point(rnd, full=full):
                from .. import mnf_eval as ME
                p = 5
                # a regressor list in *cyclic* order: a permutation applied twice instead of inverted shows only there
                return ME.Point(p, {C: ME.rand_spd(rnd, p), MU: ME.rand_vec(rnd, p)}, {Py: 2, PXs: [3, 0, 4, 1, 2] if full else [4, 1, 3]}, mnf=M)
            decide_formula(rep, "FORMULA.coefs", fwhere(f, st.node, construct=label), got, ref, label, make_point)
    from .common import hidden_state
    hidden_state(rep, "HISTORY.regress", fwhere(f), [r_.value for r_ in S.select("return", qname=f.qname)] + [s_.value for s_ in stores], {"mean", "covariance", "p"}, f=f)
    rets = S.select("return", qname=f.qname)
    if len(rets) != 1 or rets[0].value[0] != "tuple" or len(rets[0].value[1]) != 2:
        raise Inconclusive("regress: expected a single `return (coefs, intercept)`", f.node)
    coefs_t, icpt_t = rets[0].value[1]
    has_store = any(x == stores[0].base or (isinstance(x, tuple) and x[0] == "store") for x in walk(coefs_t)) if stores else False
    def is_written_vector(t):
        # the vector after the store, the untouched zero vector on the other branch, or a copy of either
        while isinstance(t, tuple) and ((t[0] == "method" and t[2] == "copy" and not t[3]) or (t[0] == "ext" and t[1] in ("numpy.array", "numpy.copy") and len(t[2]) == 1 and not t[3])):
            t = t[1] if t[0] == "method" else t[2][0]
        if isinstance(t, tuple) and t[0] == "phi":
            return is_written_vector(t[2]) and is_written_vector(t[3])
        return bool(stores) and (t == stores[0].base or (isinstance(t, tuple) and t[0] == "store" and t[1] == stores[0].base))
    rep.check("RETURN.coefs", has_store and is_written_vector(coefs_t) and any(isinstance(x, tuple) and x[0] == "store" for x in walk(coefs_t)), fwhere(f, rets[0].node),
              "first result is the coefficient vector", "first result is not the written coefficient vector")
    Mi = MNF(symmetric=[C], scalars=[Py], vectors=[coefs_t, MU])
    try:
        got = Mi.nf(icpt_t)
        ref = add(rV(MU, SY), mul(rA(coefs_t), rA(MU)), -1)
        alt = add(rV(MU, SY), mul(rA(MU), rA(coefs_t)), -1)        # b.mu = mu.b for 1-D vectors
        if MN.key(got) == MN.key(alt):
            ref = alt
        cmp_rule(rep, "FORMULA.intercept", fwhere(f, rets[0].node, construct="intercept"), got, ref, "intercept", [coefs_t])
    except Inconclusive as e:
        rep.unk("FORMULA.intercept", fwhere(f), "left the matrix fragment: %s" % e.why)
    # ---------------------------------------------------------------- mse
    f2 = need(prog, ND + "mse")
    S2 = Sym(prog, inline=inl)
    s2, _ = run_function(S2, f2)
    calls = [c for c in S2.select("call", qname=f2.qname) if c.target == ND + "regress"]
    ok = len(calls) == 1 and calls[0].args[:2] == [Py, PXs] or (len(calls) == 1 and calls[0].named.get("y") == Py and calls[0].named.get("Xs") == PXs)
    rep.check("MSE.regress", ok, fwhere(f2), "mse uses the coefficients of regress(y, Xs)", "mse does not call regress(y, Xs)")
    if not calls:
        return
    b = ("sub", calls[0].result, ("const", 0))
    term = T(s2.ret)
    M2 = MNF(symmetric=[C], scalars=[Py], vectors=[b])
    try:
        got = M2.nf(term)
        cyy = rB(C, SY, SY)
        ref = add(add(cyy, mul(mul(rA(b), rA(C)), rA(b))), rscale(mul(rB(C, SY, "ALL"), rA(b)), 2), -1)
        cmp_rule(rep, "FORMULA.mse", fwhere(f2, construct="mse"), got, ref, "mse", [b])
    except Inconclusive as e:
        rep.unk("FORMULA.mse", fwhere(f2), "left the matrix fragment: %s" % e.why)
    reads_mean = any(x == MU for x in walk(term)) or any(x == ("sub", calls[0].result, ("const", 1)) for x in walk(term))
    rep.check("NODEP.mse-mean", not reads_mean, fwhere(f2), "mse never reads self.mean nor the intercept", "mse depends on the means")
    rep.assume("self.covariance is symmetric; equality is over the reals")
    # no branch / index of the computation may depend on the *values* of the moments
    from .common import no_foreign_writes
    no_foreign_writes(rep, prog, ND + "regress", rule="OWN.regress")
    no_foreign_writes(rep, prog, ND + "mse", rule="OWN.mse")
    pattern_method(prog, rep, ND + "regress", ["mean", "covariance"], rule="NODECISION")
    pattern_method(prog, rep, ND + "mse", ["mean", "covariance"], rule="NODECISION")
    rep.require_count("FORMULA", 3)
