"""C16 - structural decompositions of a graph are exact and weight preserving (structural part).

Decided: exact pointwise tables (8 admissible entry pairs x boolean atoms) of only_directed,
only_undirected (their sum is the input), skeleton, directed_edges, undirected_edges (one of (i,j),(j,i)),
edge_weights, induced_subgraph; the counting identities of is_clique / is_complete / degrees over the
adjacency indicator; vstructures = pairs of parents of c, both entries between them zero, reported as
(min, c, max), with a pre-filter that admits every node having two directed parents; moral_graph =
skeleton plus both directions between the outer nodes of every v-structure.
"""
from .common import *
from .. import pw as PW
from ..pw import Eval, M, E, CNT, mat
from .. import signs

EXPLANATION = __doc__


def vstructure_rules(rep, prog):
    q = U + "vstructures"
    f = need(prog, q)
    S = Sym(prog)
    summ, _ = run_function(S, f)
    loops = sorted([(k, v) for k, v in S.loopinfo.items() if v["func"] == q], key=lambda kv: kv[0][1])
    cartesian_dtype(rep, prog, [q])
    if len(loops) != 2:
        # the same loops written as one comprehension: [(i, c, j) ... for c in colliders for (i, j) in pairs if ...]
        S = Sym(prog)
        S.desugar = True
        summ, _ = run_function(S, f)
        loops = sorted([(k, v) for k, v in S.loopinfo.items() if v["func"] == q], key=lambda kv: kv[0][1])
    if len(loops) != 2:
        rep.unk("VS.shape", fwhere(f), "vstructures is no longer a loop over colliders with a loop over parent pairs; the v-structure rules do not read this idiom")
        return
    (lo, outer), (li, inner) = loops
    c = ("elem", outer["iter"])
    # 1. pre-filter
    it = outer["iter"]
    ok, why = False, "outer loop does not range over np.where(<count> > 1)[0] or over all nodes"
    unread = False
    if it == ("ext", "range", (("ext", "len", (("param", "A"),), ()),), ()):
        ok, why = True, "all nodes"
    elif it[0] == "sub" and is_const(it[2], 0) and it[1][0] == "ext" and it[1][1] == "numpy.where" and len(it[1][2]) == 1:
        cond = it[1][2][0]
        p = npred(cond, True)
        cnt = None
        if p[0] in (">0", ">=0"):
            pd = dict(p[1])
            const = pd.pop((), 0)
            if len(pd) == 1:
                (mono, coef), = pd.items()
                if len(mono) == 1 and coef == 1 and ((p[0] == ">0" and const == -1) or (p[0] == ">=0" and const == -2)):
                    cnt = mono[0]
        if cnt is not None:
            S2 = Sym(prog, inline=lambda g: g.public_module.name == "sempler.utils" and g.qname != q)
            S2.desugar = getattr(S, "desugar", False)
            run_function(S2, f)
            it2 = [v for k, v in S2.loopinfo.items() if v["func"] == q and k[1] == lo[1]][0]["iter"]
            cond2 = it2[1][2][0]
            cnt2 = [x for x in walk(cond2) if isinstance(x, tuple) and ((x[0] == "method" and x[2] == "sum") or (x[0] == "ext" and x[1] == "numpy.sum"))]
            try:
                good = bool(cnt2)
                for pair in signs.PAIRS:
                    r = Eval({("param", "A"): M(mat(pair))}, {}).ev(cnt2[0])
                    if not isinstance(r, CNT) or r.kind != "axis0":
                        good = False
                        why = "count is not a column sum (axis 0 = incoming edges)"
                        break
                    ij, ji = r.m.d["*"]
                    wa = pair[0] != signs.Z and pair[1] == signs.Z
                    if PW.nzb(ij) is not wa:
                        good = False
                        why = "counted indicator differs from `directed edge i -> j` at pair %s" % (pair,)
                ok = good
                if good:
                    why = "nodes with at least two directed parents"
            except Inconclusive as e:
                why, unread = e.why, True
    if unread and not ok:
        # the count could not be evaluated on the pair table: a form this rule does not read, not a wrong pre-filter
        rep.unk("VS.prefilter", fwhere(f, outer["node"]), "collider pre-filter not read: " + why)
    else:
        rep.check("VS.prefilter", ok, fwhere(f, outer["node"]), "candidate colliders: " + why, "collider pre-filter may drop colliders: " + why)
    # 2. pairs of parents of c in A
    want_it = ("ext", "itertools.combinations", (("call", U + "pa", (c, ("param", "A")), (("A", ("param", "A")), ("i", c))), ("const", 2)), ())
    pa_c = want_it[2][0]
    want_sorted = ("ext", "itertools.combinations", (("ext", "sorted", (pa_c,), ()), ("const", 2)), ())
    pairs_sorted = inner["iter"] == want_sorted        # pairs come out with i < j: no further normalisation needed
    rep.check("VS.pairs", inner["iter"] == want_it or pairs_sorted, fwhere(f, inner["node"]), "pairs range over combinations(pa(c, A), 2)",
              "parent pairs are not combinations(pa(c, A), 2): " + fmt(inner["iter"]))
    e = ("elem", inner["iter"])
    i, j = ("sub", e, ("const", 0)), ("sub", e, ("const", 1))
    # 3. unshielded condition + tuple layout
    apps = merge_complementary([x for x in S.select("call", qname=q) if x.callkind == "method" and x.target in (".append", ".add")])
    ok, why = False, "no single append found"
    if len(apps) == 1:
        a = apps[0]
        conds = conj([pc for pc in a.path])
        z = lambda r, cidx: ("==0", (((("sub", ("param", "A"), ("tuple", (r, cidx))),), 1),))
        want = frozenset([z(i, j), z(j, i)])
        got = frozenset(x for x in conds)
        tup = a.args[0]
        t1, t2 = ("tuple", (i, c, j)), ("tuple", (j, c, i))
        lay = tup == ("phi", ("cmp", "<", i, j), t1, t2) or tup == ("phi", ("cmp", ">", i, j), t2, t1) or \
            tup == ("phi", ("cmp", "<", j, i), t2, t1) or tup == ("phi", ("cmp", ">", j, i), t1, t2) or \
            tup == ("tuple", (("ext", "min", (i, j), ()), c, ("ext", "max", (i, j), ())))
        lay = lay or (pairs_sorted and tup == t1)
        ok = got == want and lay
        why = "condition %s, tuple %s" % (sorted(pred_fmt(x) for x in got), fmt(tup)[:120])
    acc = [k for k, v in outer["init"].items() if v in (("list", ()), ("ext", "set", (), ()), ("set", ()))]
    lo_id = [k for k, v in S.loopinfo.items() if v is outer][0]

    def triple_shaped(t):
        if t[0] == "phi":
            return triple_shaped(t[2]) and triple_shaped(t[3])
        return t[0] == "tuple" and len(t[1]) == 3
    # what is recorded must be a triple, recorded into the collection that is returned: anything else (pairs mapped to their colliders, a dict of lists,
    # an object keeping the state) is another representation of the same search, which these rules do not read
    recorded_triples = len(apps) == 1 and len(apps[0].args) == 1 and triple_shaped(apps[0].args[0]) and len(acc) == 1 and \
        apps[0].recv in (("mu", lo_id, acc[0]), ("mu", li, acc[0]))
    if ok:
        rep.ok("VS.condition", fwhere(f, apps[0].node), "(min(i,j), c, max(i,j)) recorded exactly when A[i,j] == 0 and A[j,i] == 0")
    elif recorded_triples:
        rep.bad("VS.condition", fwhere(f, apps[0].node), "v-structure test/tuple deviates from `unshielded, (min, c, max)`: " + why)
    else:
        rep.unk("VS.condition", fwhere(f, apps[0].node if apps else None), "the v-structures are not recorded as triples appended to one local collection (%s): this representation is not read" % why[:120])
        return
    rets = S.select("return", qname=q)
    full = [("after", lo_id, k) for k in acc]
    rv = rets[0].value if len(rets) == 1 else ("const", None)
    # the whole accumulated collection, as a set (or the accumulated set itself)
    ok = len(acc) == 1 and ((rv[0] == "ext" and rv[1] in ("set", "frozenset") and len(rv[2]) == 1 and rv[2][0] in full) or (rv in full and outer["init"][acc[0]] != ("list", ())))
    if ok:
        rep.ok("VS.result", fwhere(f), "returns the set of recorded triples")
    elif len(acc) == 1 and any(x in full for x in walk(rv)) or (len(rets) == 1 and is_const(rv)):
        rep.bad("VS.result", fwhere(f), "result is not the set of recorded triples: %s" % fmt(rv)[:80])
    else:
        rep.unk("VS.result", fwhere(f), "what vstructures returns is not built from the collection the loop fills (%s): not read" % fmt(rv)[:80])


def moral_rules(rep, prog):
    q = U + "moral_graph"
    f = need(prog, q)
    S = Sym(prog)
    run_function(S, f)
    loops = [(k, v) for k, v in S.loopinfo.items() if v["func"] == q]
    sk = ("call", U + "skeleton", (("param", "A"),), (("A", ("param", "A")),))
    vs = ("call", U + "vstructures", (("param", "A"),), (("A", ("param", "A")),))
    ok, why = False, "loop over vstructures(A) not found"
    if len(loops) == 1:
        lid, li = loops[0]
        e = ("elem", vs)
        i, j = ("sub", e, ("const", 0)), ("sub", e, ("const", 2))
        stores = S.select("store", qname=q)
        idxs = {st.idx for st in stores if is_const(st.value, 1) and st.aug is None}
        base_ok = list(li["init"].values()) in ([sk], [("method", sk, "copy", (), ())], [("ext", "numpy.copy", (sk,), ())], [("ext", "numpy.array", (sk,), ())])
        ok = li["iter"] == vs and idxs == {("tuple", (i, j)), ("tuple", (j, i))} and base_ok and len(stores) == 2
        why = "iter=%s stores=%s base=%s" % (fmt(li["iter"]), sorted(fmt(x) for x in idxs), [fmt(v) for v in li["init"].values()])
        rets = S.select("return", qname=q)
        ok = ok and len(rets) == 1 and rets[0].value == ("after", lid, li["changed"][0])
    if not ok and why == "loop over vstructures(A) not found":
        rep.unk("MORAL.marry", fwhere(f), "moral_graph is not a loop over vstructures(A) that marries the outer nodes: this form is not read")
    else:
        rep.check("MORAL.marry", ok, fwhere(f), "moral = skeleton(A) with [i, j] = [j, i] = 1 for the outer nodes of every v-structure",
                  "moral graph is not skeleton + married parents: " + why)


def run(prog, rep, tier):
    # the moral graph is built by writing into the skeleton it was handed: that skeleton must be its own array, not one that
    # skeleton() keeps (a cache) or that belongs to the caller
    from .common import no_foreign_writes
    no_foreign_writes(rep, prog, U + "moral_graph", rule="OWN.moral")
    node_label_truthiness(rep, prog, [U + n_ for n_ in ['vstructures', 'moral_graph', 'is_clique', 'is_complete', 'degrees', 'induced_subgraph', 'only_directed', 'only_undirected', 'skeleton']])
    isin_over_sets(rep, prog, [U + n_ for n_ in ['vstructures', 'moral_graph', 'is_clique', 'is_complete', 'degrees', 'induced_subgraph', 'only_directed', 'only_undirected', 'skeleton']])
    from .common import empty_subset_replaced
    empty_subset_replaced(rep, prog, [(U + "is_clique", "S"), (U + "induced_subgraph", "S")])
    PW.rule_decompositions(prog, rep)
    PW.rule_counts(prog, rep)
    rep.require_count("PW.table", 8)
    rep.require_count("PW.count", 3)
    vstructure_rules(rep, prog)
    moral_rules(rep, prog)
    entries = [(U + n, {"only_directed": "P", "only_undirected": "P", "undirected_edges": "P", "is_complete": "P",
                        "edge_weights": "W", "induced_subgraph": "G"}.get(n, "A")) for n in
               ("only_directed", "only_undirected", "skeleton", "directed_edges", "undirected_edges", "edge_weights",
                "induced_subgraph", "is_clique", "is_complete", "degrees", "vstructures", "moral_graph")]
    pattern_entries(prog, rep, entries, not_charged=(U + "topological_ordering", U + "is_dag"))
    empty_index_arrays(rep, prog, [q_ for q_, _ in entries], "INDEX.empty-array")
    rep.require_count("PAT.entry", 12)
    rep.exhaustive = True
    rep.assume("input domain of the tables: binary PDAGs and DAG weight matrices of any sign (8 admissible entry pairs)")
