"""C05 - Gaussian conditioning and marginalisation are exact (structural part).

Decided: (FORMULA) the mean and covariance handed to the result of conditional(Y, X, x) equal
mu_Y + C_YX C_XX^-1 (x - mu_X) and C_YY - C_YX C_XX^-1 C_XY as matrix normal forms over the reals (the
covariance is symmetric: C[X,Y]^T = C[Y,X]); marginal(X) hands out mu_X, C_XX; (ORDER) the index lists
reach every indexing site through order-keeping operations only - a sort / unique / set on the way
changes the normal form; (GUARD) ValueError for len(X) != len(x), for Y∩X non-empty, and for a
mean/covariance size mismatch at construction, each before the first inverse / store; conditioning on
nothing returns marginal(Y).
Also decided: guards are compared as predicates over the index sets (Venn-world tables, membership-mask idiom, intersect1d size);
(OWN) the queries write none of their arguments; (HISTORY) no cache keyed by part of the arguments.
Not decided: floating-point accuracy of the inverse.
"""
from .common import *
from .common import lossy_casts, decide_formula
from .. import mnf as MN
from ..mnf import MNF, rB, rV, rA, rinv, add, mul, strip_wrappers

EXPLANATION = __doc__
ND = "sempler.normal_distribution.NormalDistribution."


def overlap_guard(cond):
    """is `cond` true exactly when Y and X share an element?  Decided in every Venn world of the two index sets, so
    `not set(Y).isdisjoint(X)`, `set(Y) & set(X)` as a truth value, `len(set(X).intersection(Y)) > 0` ... are all accepted"""
    from ..setpred import SetAlg
    from ..sym import subst
    Y_, X_ = ("YSET",), ("XSET",)
    t = cond
    for raw, sym_ in ((PY, Y_), (PX, X_)):
        for w_ in (("ext", "set", (raw,), ()), ("ext", "frozenset", (raw,), ()), strip_wrappers(raw)):
            t = subst(t, {w_: sym_})
        t = subst(t, {raw: sym_})
    # np.intersect1d(a, b) is the (sorted) intersection; its size / length is the emptiness test, but `.any()` / np.any() asks
    # whether a shared *index is non-zero*: index 0 alone is falsy, so an overlap in variable 0 would pass unnoticed
    def fold_intersect(u):
        if not isinstance(u, tuple):
            return u
        if u and u[0] == "ext" and u[1] == "numpy.intersect1d" and len(u[2]) == 2:
            return ("binop", "&", fold_intersect(u[2][0]), fold_intersect(u[2][1]))
        if u and u[0] == "attr" and u[2] == "size":
            return ("ext", "len", (fold_intersect(u[1]),), ())
        return tuple(fold_intersect(c_) for c_ in u)
    t = fold_intersect(t)
    inter_ = (("binop", "&", Y_, X_), ("binop", "&", X_, Y_))
    if (t[0] == "method" and t[2] in ("any", "all") and t[1] in inter_) or (t[0] == "ext" and t[1] in ("numpy.any", "any", "numpy.all", "all") and t[2] and t[2][0] in inter_):
        return False
    # membership mask: m = zeros(n, bool); m[A] = True; m[B].any()   <=>   A and B share an element
    def mask_any(u):
        if u[0] == "method" and u[2] == "any" and not u[3]:
            u = u[1]
        elif u[0] == "ext" and u[1] in ("numpy.any", "any") and len(u[2]) == 1:
            u = u[2][0]
        else:
            return False
        if not (u[0] == "sub" and u[1][0] == "store"):
            return False
        st, b_ = u[1], u[2]
        base, a_, val = st[1], st[2], st[3]
        boolz = base[0] == "ext" and base[1] in ("numpy.zeros", "numpy.zeros_like") and dict(base[3]).get("dtype") in (("extref", "bool"), ("extref", "numpy.bool_"))
        return boolz and is_const(val, True) and {a_, b_} == {Y_, X_}
    if mask_any(t):
        return True
    alg = SetAlg([Y_, X_])
    try:
        ok, _ = alg.equal(lambda w: alg.truth(t, w), lambda w: alg.nonempty(("binop", "&", Y_, X_), w))
        return ok
    except Inconclusive:
        return None
MU, C = ("self", "mean"), ("self", "covariance")
PY, PX, Px = ("param", "Y"), ("param", "X"), ("param", "x")


def make_point(rnd):
    from .. import mnf_eval as ME
    p = 5
    return ME.Point(p, {C: ME.rand_spd(rnd, p), MU: ME.rand_vec(rnd, p), Px: ME.rand_vec(rnd, 2)}, {PY: [3, 0], PX: [4, 1]})


def path_mentions_content(path, idx_param):
    """does the path condition constrain the *content / order* of an index list (not merely its length)?"""
    for c, pol in path:
        if pol is not True:
            continue          # fall-through after a guard: not a special case
        t = strip_wrappers(c)
        # remove len(param) occurrences, then look for the bare parameter
        def rec(u):
            if u == ("ext", "len", (idx_param,), ()):
                return False
            if u == idx_param:
                return True
            return isinstance(u, tuple) and any(rec(v) for v in u if isinstance(v, tuple))
        if rec(t):
            return True
    return False


def check_construction(rep, f, c, M, what, ref_mean, ref_cov):
    """one `NormalDistribution(mean, covariance)` site: formulas must equal the references; a special-case path
    may only deviate if its condition looks at the content of the index lists (then it is not decided here)"""
    full = any(strip_wrappers(cond) in (("cmp", "==", ("ext", "len", (PX,), ()), ("self", "p")), ("cmp", "==", ("self", "p"), ("ext", "len", (PX,), ())))
               and pol is True for cond, pol in c.path)

    def point(rnd):
        from .. import mnf_eval as ME
        p = 5
        X = [3, 0, 4, 1, 2] if full else [4, 1]
        return ME.Point(p, {C: ME.rand_spd(rnd, p), MU: ME.rand_vec(rnd, p), Px: ME.rand_vec(rnd, len(X))}, {PY: [3, 0], PX: X}, mnf=M)
    from .common import hidden_state
    if hidden_state(rep, "HISTORY.%s" % what, fwhere(f, c.node, construct="%s result" % what), [c.args[0], c.args[1]], {"mean", "covariance", "p"}, f=f):
        return
    for name, term, ref in (("mean", c.args[0], ref_mean), ("covariance", c.args[1], ref_cov)):
        w = fwhere(f, c.node, construct="%s %s" % (what, name))
        rule = "FORMULA.%s.%s" % (what, name)
        for cast, d in lossy_casts(term):
            rep.bad("DTYPE.%s" % what, w, "values entering the %s %s are cast to %s (%s): fractional conditioning values / means are truncated silently" % (
                what, name, fmt(d), fmt(cast)[:80]))
        try:
            got = M.nf(term)
        except Inconclusive as e:
            rep.unk(rule, w, "formula left the matrix fragment: %s" % e.why)
            continue
        if MN.key(got) != MN.key(ref) and (path_mentions_content(c.path, PX) or path_mentions_content(c.path, PY)):
            rep.unk(rule, w, "special-case path whose condition inspects the index lists themselves: equivalence to %s under that condition is not decided" % MN.show(ref)[:80])
            continue
        decide_formula(rep, rule, w, got, ref, "%s %s" % (what, name), point)


def ctor_calls(S, qname):
    return [c for c in S.select("call", qname=qname) if c.target == ND + "__init__"]


def ctor_rules(rep, prog):
    """what every query reads: the constructor stores exactly the given moments (copies, no change of values or dtype) and
    rejects a size mismatch before anything is stored"""
    from .common import ctor_copies
    ctor_copies(rep, prog, ND + "__init__", attrs=("mean", "covariance"))
    f4 = need(prog, ND + "__init__")
    S4 = Sym(prog)
    run_function(S4, f4)
    want = npred(("cmp", "!=", ("ext", "len", (("param", "mean"),), ()), ("ext", "len", (("param", "covariance"),), ())), True)
    hit = None
    for r in S4.select("raise", qname=f4.qname):
        if r.exctype == "ValueError" and r.path and npred(strip_wrappers(r.path[-1][0]), r.path[-1][1]) == want:
            hit = r
    if hit is None:
        rep.bad_form("GUARD.ctor", fwhere(f4), "no ValueError exactly when len(mean) != len(covariance)")
    else:
        stores = S4.select("attrstore", qname=f4.qname)
        late = [s for s in stores if (hit.path[-1][0], not hit.path[-1][1]) not in s.path]
        rep.check("GUARD.ctor", not late and len(stores) >= 2, fwhere(f4, hit.node), "size mismatch raises ValueError before anything is stored",
                  "attributes are stored without passing the size check")
    st = {s.attr: s.value for s in S4.select("attrstore", qname=f4.qname)}
    def copy_of(t, p_):
        t = strip_wrappers(t)
        return t == ("method", ("param", p_), "copy", (), ()) or (isinstance(t, tuple) and len(t) == 4 and t[0] == "ext" and
                                                                 t[1] in ("copy.deepcopy", "copy.copy", "numpy.copy", "numpy.array") and t[2] == (("param", p_),) and not t[3])
    ok = copy_of(st.get("mean", ()), "mean") and copy_of(st.get("covariance", ()), "covariance")
    ok = ok or (MNF().nf(st.get("mean", ("const", 0))) == rA(("param", "mean")) and MNF().nf(st.get("covariance", ("const", 0))) == rA(("param", "covariance")))
    rep.check("CTOR.roles", ok, fwhere(f4), "self.mean <- mean, self.covariance <- covariance", "self.mean / self.covariance are not (copies of) the given mean / covariance: self.mean = %s, self.covariance = %s" % (
                  fmt(st.get("mean", ("const", None)))[:70], fmt(st.get("covariance", ("const", None)))[:70]))


def run(prog, rep, tier):
    from ..sym import UNIT_HELPERS, private_class
    inl = lambda f: f.qname == U + "matrix_block" or (((f.name.startswith("_") and not f.name.startswith("__")) or private_class(f)) and f.qname not in UNIT_HELPERS)
    M = MNF(symmetric=[C])
    # ---------------------------------------------------------------- conditional
    f = need(prog, ND + "conditional")
    S = Sym(prog, inline=inl)
    run_function(S, f)
    cs = [c for c in ctor_calls(S, f.qname)]
    if not cs or any(len(c.args) < 2 for c in cs):
        raise Inconclusive("conditional: no NormalDistribution(mean, covariance) construction found", f.node)
    ref_mean = add(rV(MU, PY), mul(mul(rB(C, PY, PX), rinv(rB(C, PX, PX))), add(rA(Px), rV(MU, PX), -1)))
    ref_cov = add(rB(C, PY, PY), mul(mul(rB(C, PY, PX), rinv(rB(C, PX, PX))), rB(C, PX, PY)), -1)
    from .common import pinv_cutoff
    pinv_cutoff(rep, S, f, "FORMULA.conditional.cutoff")
    for c in cs:
        check_construction(rep, f, c, M, "conditional", ref_mean, ref_cov)
    rep.tables["conditional"] = {"mean": MN.show(ref_mean), "covariance": MN.show(ref_cov)}
    # guards
    raises = [r for r in S.select("raise", qname=f.qname) if r.exctype == "ValueError"]
    g_len = ("!=0", None)
    want_len = npred(("cmp", "!=", ("ext", "len", (PX,), ()), ("ext", "len", (Px,), ())), True)
    want_ov = [("nonempty", ("binop", "&", ("ext", "set", (PY,), ()), ("ext", "set", (PX,), ()))),
               ("nonempty", ("binop", "&", ("ext", "set", (PX,), ()), ("ext", "set", (PY,), ())))]
    found = {"len": None, "overlap": None}
    decided_wrong = set()         # guards whose condition was read completely and is not the wanted one
    for r in raises:
        last = r.path[-1] if r.path else None
        if last is None:
            continue
        lc = strip_wrappers(last[0]) if last[1] is True else ("unop", "not", strip_wrappers(last[0]))      # the condition under which this raise is reached
        p = npred(strip_wrappers(last[0]), last[1])
        if p == want_len:
            found["len"] = r
        og = overlap_guard(lc)
        if p in want_ov or og is True:
            found["overlap"] = r
        elif og is False:
            decided_wrong.add(id(r))
        if p != want_len and p[0] in (">0", ">=0", "==0", "!=0"):
            decided_wrong.add(id(r))
        if p[0] == "and" and (want_len in p[1] or any(w_ in p[1] for w_ in want_ov)):
            decided_wrong.add(id(r))       # the wanted test weakened by a further conjunct: raised in fewer cases
    invs = [c2 for c2 in S.select("call", qname=f.qname) if c2.target in ("numpy.linalg.inv", "numpy.linalg.solve", "numpy.linalg.pinv",
                                                                               "numpy.linalg.lstsq", ND + "__init__", ND + "marginal")]
    for k, label in (("len", "len(X) != len(x)"), ("overlap", "Y ∩ X non-empty")):
        r = found[k]
        if r is None:
            # a ValueError whose condition reads both quantities, in a form that is not recognised, is not a missing guard
            names = {"len": (PX, Px), "overlap": (PY, PX)}[k]
            cand = [r2 for r2 in raises if r2.path and r2 not in found.values() and id(r2) not in decided_wrong and all(any(z == nm_ for z in walk(r2.path[-1][0])) for nm_ in names)]
            if cand:
                rep.unk("GUARD.conditional." + k, fwhere(f, cand[0].node), "a ValueError guard reads %s in a form that is not decided: %s" % (label, fmt(cand[0].path[-1][0])[:80]))
            else:
                rep.bad_form("GUARD.conditional." + k, fwhere(f), "no ValueError is raised exactly when %s" % label)
            continue
        cond = (r.path[-1][0], not r.path[-1][1])
        late = [x for x in invs if cond not in x.path]
        rep.check("GUARD.conditional." + k, not late, fwhere(f, r.node), "ValueError when %s, before any inverse / result" % label,
                  "the %s guard does not precede %s" % (label, norm(late[0].node)[:50] if late else ""))
    # conditioning on nothing = marginalising
    rets = S.select("return", qname=f.qname)
    em = [r for r in rets if r.value[0] == "call" and r.value[1] == ND + "marginal"]
    ok = False
    if em:
        r = em[0]
        arg = dict(r.value[3]).get("X")
        lastp = npred(strip_wrappers(r.path[-1][0]), r.path[-1][1]) if r.path else None
        ok = strip_wrappers(arg) == PY and lastp == ("empty", PX)
    rep.check("EMPTY.conditional", ok or not em, fwhere(f), "len(X) == 0 returns marginal(Y)" if em else "no special case for empty X",
              "the empty-X shortcut is not `marginal(Y)` under `len(X) == 0`")
    # ---------------------------------------------------------------- marginal
    f2 = need(prog, ND + "marginal")
    S2 = Sym(prog, inline=inl)
    run_function(S2, f2)
    cs = ctor_calls(S2, f2.qname)
    if not cs or any(len(c.args) < 2 for c in cs):
        raise Inconclusive("marginal: no NormalDistribution(mean, covariance) construction found", f2.node)
    for c in cs:
        check_construction(rep, f2, c, M, "marginal", rV(MU, PX), rB(C, PX, PX))
    # the sibling helper the blocks go through
    f3 = need(prog, U + "matrix_block")
    S3 = Sym(prog)
    s3, _ = run_function(S3, f3)
    got = MNF().nf(T(s3.ret))
    ref = rB(("param", "M"), ("param", "rows"), ("param", "cols"))
    rep.check("FORMULA.matrix_block", MN.key(got) == MN.key(ref), fwhere(f3), "matrix_block(M, rows, cols) = M[rows, cols] in the given order",
              "matrix_block is %s" % MN.show(got))
    ctor_rules(rep, prog)
    rep.assume("self.covariance is symmetric (a covariance matrix)")
    rep.assume("equality is over the reals; floating-point accuracy of inv() is not decided")
    # no branch / index of the computation may depend on the *values* of the moments
    # the query must leave x / X / Y and the distribution alone: conditioning twice on the same arrays is conditioning on the same values
    from .common import no_foreign_writes
    no_foreign_writes(rep, prog, ND + "conditional", rule="OWN.conditional")
    no_foreign_writes(rep, prog, ND + "marginal", rule="OWN.marginal")
    pattern_method(prog, rep, ND + "conditional", ["mean", "covariance"], rule="NODECISION")
    pattern_method(prog, rep, ND + "marginal", ["mean", "covariance"], rule="NODECISION")
    rep.require_count("FORMULA", 5)
    rep.require_count("GUARD", 3)
