"""C04 - finite samples follow the population law (structural part).

Decided: (SAME-OBJECT) in LGANM.sample the object whose .sample() produces the finite sample is the very
NormalDistribution that population=True returns (one construction, same mean / covariance terms), and n and
random_state are forwarded; (SLOTS) NormalDistribution.sample hands self.mean -> mean, self.covariance ->
cov, n -> size to numpy.random.multivariate_normal and returns the draw unchanged; noise.normal hands
var**0.5 as scale (so an ANM built from linear assignments and noise.normal(mean, var) has the noise law of
the LGANM with the same parameters; the composition itself is C02's table).
Also decided: (HISTORY) neither sampler reads or writes model state beyond the defining attributes.
Not decided: anything statistical (rates, independence) - numpy's sampler is the trusted base.
"""
from .common import *
from .closures import factory_closure
from .. import api
from .C20 import is_sd_of

EXPLANATION = __doc__
ND = "sempler.normal_distribution.NormalDistribution."


def run(prog, rep, tier):
    # the law a sample follows is the law of the distribution as constructed: the constructor keeps the given moments, as its own copies
    from .C05 import ctor_rules
    ctor_rules(rep, prog)
    f = need(prog, "sempler.lganm.LGANM.sample")
    S = Sym(prog)
    run_function(S, f)
    model_history(rep, S, f, {"W", "means", "variances", "p"}, "HISTORY.lganm")
    rets = S.select("return", qname=f.qname)
    pop = [r for r in rets if r.value[0] == "new" and r.value[1].endswith("NormalDistribution")]
    fin = [r for r in rets if r.value[0] == "method" and r.value[2] == "sample"]
    if len(pop) != 1 or len(fin) != 1 or len(rets) != 2:
        rep.bad_form("SAME-OBJECT", fwhere(f), "LGANM.sample must return either the distribution or distribution.sample(...): found %d returns" % len(rets))
    else:
        same = fin[0].value[1] == pop[0].value
        rep.check("SAME-OBJECT", same, fwhere(f, fin[0].node), "the finite sample is drawn from the very distribution returned in population mode",
                  "the finite-sample path samples from another distribution than the one returned for population=True")
        args, kw = fin[0].value[3], dict(fin[0].value[4])
        slots = dict(zip(["n", "random_state"], args))
        slots.update(kw)
        rep.check("FORWARD.n", slots.get("n") == ("param", "n"), fwhere(f, fin[0].node), "n is forwarded", "sample size passed on is %s" % fmt(slots.get("n", ("const", None))))
        rep.check("FORWARD.seed", slots.get("random_state") == ("param", "random_state"), fwhere(f, fin[0].node), "random_state is forwarded",
                  "random_state is not forwarded to the sampler")
        # the switch: finite path exactly when not population
        pc = conj(fin[0].path)
        want = frozenset([("atom", ("param", "population"), False)])
        rep.check("SWITCH", pc == want or conj(pop[0].path) == frozenset([("atom", ("param", "population"), True)]), fwhere(f, fin[0].node),
                  "finite sample iff population is false", "population switch is %s" % [pred_fmt(p) for p in pc])
    f2 = need(prog, ND + "sample")
    S2 = Sym(prog)
    s2, _ = run_function(S2, f2)
    model_history(rep, S2, f2, {"mean", "covariance", "p"}, "HISTORY.normal")
    draws = [c for c in S2.select("call", qname=f2.qname) if c.callkind == "ext" and c.target in api.GLOBAL_DRAWS]
    if len(draws) != 1 or draws[0].target != "numpy.random.multivariate_normal":
        rep.bad_form("SLOTS.mvn", fwhere(f2), "NormalDistribution.sample must draw once with numpy.random.multivariate_normal (found %s)" % [d.target for d in draws])
    else:
        c = draws[0]
        b, extra = api.bind_slots(api.SLOTS[c.target], c.args, c.kwargs)
        ok = b.get("mean") == ("self", "mean") and b.get("cov") == ("self", "covariance") and b.get("size") == ("param", "n") and not extra
        rep.check("SLOTS.mvn", ok, fwhere(f2, c.node), "mean <- self.mean, cov <- self.covariance, size <- n",
                  "multivariate_normal receives mean=%s cov=%s size=%s" % tuple(fmt(b.get(k, ("const", None))) for k in ("mean", "cov", "size")))
        rep.check("RESULT.mvn", T(s2.ret) == c.result, fwhere(f2, c.node), "the n x p draw is returned unchanged", "the draw is post-processed: %s" % fmt(T(s2.ret))[:80])
    S3, f3, clo, res, facts = factory_closure(prog, "sempler.noise.normal")
    draws = [c for c in facts if c.kind == "call" and c.callkind == "ext" and c.target == "numpy.random.normal"]
    if not draws:
        # a generator's / RandomState's .normal has the same slots: which stream is drawn from is C20's and C13's question, the unit of `scale` is this one's
        draws = [c for c in facts if c.kind == "call" and c.callkind == "method" and c.target == ".normal"]
    ok = False
    if len(draws) == 1:
        b, extra = api.bind_slots(api.SLOTS["numpy.random.normal"], draws[0].args, draws[0].kwargs)
        ok = b.get("loc") == ("param", "mean") and b.get("scale") is not None and is_sd_of(b["scale"], ("param", "var")) and b.get("size") == ("param", "n")
    if not ok:
        # the same law as a location-scale transform of one standard draw (mean + var**0.5 * standard_normal(n)): decided on mean and standard deviation
        from .C20 import law_of
        gl = [c for c in facts if c.kind == "call" and c.callkind == "ext" and c.target.startswith("numpy.random.")]
        lw = law_of("normal", res, gl[0]) if len(gl) == 1 else None
        if lw is not None and lw[0]:
            ok = True
        elif lw is not None:
            rep.bad("UNIT.noise-normal", fwhere(f3, gl[0].node), "noise.normal(mean, var) returns a draw with %s, not mean `mean` and standard deviation var**0.5" % lw[1])
            ok = None
    opaque = [c for c in facts if c.kind == "call" and (c.callkind == "opaque" or c.target in ("getattr", "operator.attrgetter", "operator.methodcaller"))]
    if ok is None:
        pass
    elif not draws and opaque:
        rep.unk("UNIT.noise-normal", fwhere(f3), "noise.normal calls a sampler that is looked up at run time (%s): what it is handed is not read" % opaque[0].target)
        ok = None
    if ok is not None:
      rep.check("UNIT.noise-normal", ok, fwhere(f3), "noise.normal(mean, var) draws normal(loc=mean, scale=var**0.5, size=n)",
                "noise.normal does not pass the standard deviation var**0.5 as scale")
    # no branch / index of the computation may depend on the *values* of the moments
    pattern_method(prog, rep, ND + "sample", ["mean", "covariance"], rule="NODECISION")
    rep.require_count("SLOTS", 1)
    rep.require_count("SAME-OBJECT", 1)
    rep.assume("numpy.random.multivariate_normal(mean, cov, size=n) returns n i.i.d. rows of N(mean, cov)")
