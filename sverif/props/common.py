"""Rule building blocks shared by the per-property checks."""
import ast
import re

from .. import pattern as PT
from ..loader import Inconclusive, AnchorMissing, where, norm, dotted_of
from ..sym import Sym, run_function, T, fmt, walk, atoms, is_const, mentions
from ..pred import npred, conj, pred_fmt

U = "sempler.utils."


def head(node):
    """normalised text of a construct; compound statements are named by their header line only"""
    t = norm(node)
    if isinstance(node, (ast.For, ast.While, ast.If, ast.With, ast.Try, ast.ClassDef)):
        t = t.split("\n", 1)[0]
    return t.replace("\n", " ")


def fwhere(func, node=None, construct=None):
    node = node if node is not None else func.node
    w = {"file": func.module.relpath, "line": getattr(node, "lineno", func.node.lineno), "function": func.qname,
         "construct": construct if construct is not None else (head(node)[:200] if not isinstance(node, ast.FunctionDef) else "def " + func.name)}
    return w


def need(prog, qname):
    return prog.func(qname)


# ----------------------------------------------------------------------------- PATTERN
def pattern_entries(prog, rep, entries, rule="PAT", not_charged=(), allow_raw=(), any_graph=False):
    """entries: [(qname, matrix parameter)].  One obligation per entry (result / decisions are
    pattern-only) and one violation per value-sensitive root expression.  any_graph: the matrix is an arbitrary weighted graph
    (opposite entries of any signs), not a DAG / binary PDAG - `(A + A.T) != 0` is then value-sensitive (cancelling two-cycles)."""
    P = PT.Pattern(prog)
    if any_graph:
        from .. import signs as _signs
        P.pairs = _signs.ALL_PAIRS
    objs = {}
    approx = set()
    for q, param in entries:
        f = need(prog, q)
        before = set(P.violations)
        unk0 = len(P.unknown)
        col0 = len(PT.COLLAPSED)
        try:
            ret, obj = PT.run_entry(P, f, param)
        except Inconclusive as e:
            rep.unk(rule + ".entry", fwhere(f, e.node if e.node is not None and hasattr(e.node, "lineno") else None),
                    "zero-pattern analysis left the modelled fragment: %s" % e.why)
            continue
        objs[q] = obj
        new = [k for k in P.violations if k not in before]
        lvl = PT.lvl_of(ret) if ret is not None else PT.CLEAN
        roots = set(P.violations)
        bad_ret = lvl == PT.ARITH or (lvl == PT.RAW and f.name not in allow_raw and f.name not in PT.MAY_RETURN_RAW
                                      and f.name != "__init__")
        if len(P.unknown) > unk0:
            for (qq, line, msg) in P.unknown[unk0:]:
                rep.unk(rule + ".entry", {"file": f.module.relpath, "line": line, "function": qq, "construct": msg}, msg)
        collapsed = PT.COLLAPSED[col0:]
        ret_through_object = ret is not None and any(p_[0] == "$collapsed" for p_ in PT.prov_of(ret))
        if bad_ret and collapsed and (ret_through_object or lvl == PT.RAW):
            # the level of the result went through an object that holds the raw matrix next to derived data (a working-state class): the domain joins
            # an object's attributes when the object is used as a whole, so "raw" is an over-approximation here, not a finding
            rep.unk(rule + ".result", fwhere(f), "the result of %s passes through an object (%s) that also holds the raw matrix; the zero-pattern domain does not keep "
                    "the attributes of an object apart when it is iterated / compared as a whole" % (f.name, ", ".join(sorted({str(c_) for c_ in collapsed}))))
        elif bad_ret and lvl == PT.RAW:
            rep.bad(rule + ".result", fwhere(f), "result of %s carries raw weights (must be determined by the zero pattern)" % f.name)
        elif bad_ret:
            prov = ["%s:%s `%s`" % (x[0].rsplit(".", 1)[-1], x[1], x[2][:60]) for x in sorted((y for y in PT.prov_of(ret) if y[0] != "$collapsed"), key=str)[:2]] if ret is not None else []
            rep.bad(rule + ".result", fwhere(f), "result of %s is computed by value-sensitive arithmetic on raw weights (sums / products / ordered comparisons of "
                    "entries), not from the zero pattern%s" % (f.name, (": " + "; ".join(str(x) for x in prov)) if prov else ""))
        elif not bad_ret:
            rep.ok(rule + ".entry", fwhere(f), "decisions and result of %s(%s) depend on the weights only through their zero pattern "
                   "(result level %s)" % (f.name, param, PT.NAMES[lvl]))
    for k, v in P.violations.items():
        if v["function"] in not_charged:
            continue
        if v.get("approx"):
            rep.unk(rule + ".value-sensitive", {"file": v["file"], "line": v["line"], "function": v["function"], "construct": v["construct"]},
                    "a decision may depend on raw weights, but the value went through an object whose attributes the zero-pattern domain joins: not decided (%s)" % "; ".join(v["sinks"][:2]))
            continue
        rep.bad(rule + ".value-sensitive",
                {"file": v["file"], "line": v["line"], "function": v["function"], "construct": v["construct"]},
                "arithmetic on raw weights reaches a decision: " + "; ".join(v["sinks"][:3]), detail=v["sinks"])
    for (q, text), why in P.exempted.items():
        rep.notes.append("exempt %s: %s — %s" % (q, text, why))
    rep.analysed["pattern.declassification_sites"] = len(P.declass)
    rep.analysed["pattern.functions_visited"] = len(P.visited_funcs)
    return P, objs


def pattern_method(prog, rep, qname, raw_attrs, rule="PAT", allow_result_arith=True, strict=False):
    """Analyse a method whose object holds raw weight matrices in `raw_attrs`: no *decision* (branch, index,
    loop) may depend on weight values; the numeric result may (e.g. a sample, a covariance)."""
    from ..core import ObjV
    f = need(prog, qname)
    P = PT.Pattern(prog)
    P.strict_values = strict          # strict: not even `x == 0` may decide anything (quantities whose zero pattern has no meaning)
    obj = ObjV(f.module, f.cls, {a: P.fresh_matrix() for a in raw_attrs}, tag="self")
    bound = {p_: PT.PV() for p_ in f.params}
    try:
        P.summary(f, obj, bound, {}, P.module_ctx(f.module), f.node)
    except Inconclusive as e:
        rep.unk(rule + ".method", fwhere(f), "zero-pattern analysis left the modelled fragment: %s" % e.why)
        return
    for (qq, line, msg) in P.unknown:
        rep.unk(rule + ".method", {"file": f.module.relpath, "line": line, "function": qq, "construct": msg}, msg)
    if not P.violations:
        rep.ok(rule + ".method", fwhere(f), "no branch, index or loop of %s depends on the values of self.%s%s" % (
            f.name, "/".join(raw_attrs), "" if strict else " - only on their zero pattern"))
    for k, v in P.violations.items():
        rep.bad(rule + ".value-sensitive", {"file": v["file"], "line": v["line"], "function": v["function"], "construct": v["construct"]},
                "arithmetic on raw weights reaches a decision: " + "; ".join(v["sinks"][:3]), detail=v["sinks"])


PLAIN_HEADS = {"param", "const", "sub", "binop", "tuple", "list", "attr", "self", "slice", "unop", "cmp", "extref", "star", "*"}


def plain_term(t):
    """an expression over the arguments / attributes themselves (size[0], variances[1] + 1, self.p ...). A deviation found in such a term is a decided
    one; a term that went through branches, containers, helpers or loops is a form a rule written for the plain spelling does not read"""
    if t is None:
        return True
    for x in walk(t):
        if isinstance(x, tuple) and x and isinstance(x[0], str) and x[0] not in PLAIN_HEADS:
            if x[0] == "ext" and len(x) == 4 and x[1] in ("len", "int", "float", "numpy.random.default_rng"):
                continue
            if len(x) >= 2 and all(not isinstance(y, tuple) for y in x):       # a leaf written as a tuple of atoms
                continue
            return False
    return True


def module_state_managed(site_text, labels):
    """the written place is the module-level object itself, by its own name (`_cache[key] = v`, `_cache.clear()`): the function keeps a table at module
    level. Anything else - a store through a local name that happens to alias an array held there - is a write *into* shared storage"""
    head_ = re.split(r"[\[.(]", site_text.strip(), 1)[0].strip()
    return any(isinstance(l_, tuple) and len(l_) > 1 and str(l_[1]).rsplit(".", 1)[-1] == head_ for l_ in labels)


def inline_helpers(prog, module, keep=(), also=()):
    """SYM inlining policy: private helpers of `module` (leading underscore) and the functions named in `also` are
    expanded at their call sites, so that extracting a helper does not hide what a function computes"""
    keep, also = set(keep), set(also)

    def pol(g):
        if g.qname in keep:
            return False
        if g.qname in also:
            return True
        from ..sym import UNIT_HELPERS, private_class
        if (g.name.startswith("_") and not g.name.startswith("__")) or private_class(g):
            # private helpers of the module itself always; those of other modules unless the rules treat them as units of their own
            return g.public_module.name == module or g.qname not in UNIT_HELPERS
        return False
    return pol


# ----------------------------------------------------------------------------- SYM helpers
def sym_function(prog, qname, inline=None, args=None):
    f = need(prog, qname)
    S = Sym(prog, inline=inline)
    summ, obj = run_function(S, f, args=args)
    return S, f, summ, obj


PATTERN_PRESERVING_EXT = {"numpy.atleast_2d", "numpy.asarray", "numpy.array", "numpy.copy", "numpy.abs", "numpy.absolute",
                          "copy.deepcopy", "copy.copy", "numpy.asanyarray", "numpy.atleast_1d"}
PATTERN_PRESERVING_METHODS = {"copy"}


def derives_patternwise(t, param):
    """t is the parameter itself or an entrywise zero-pattern-preserving image of it"""
    if t == ("param", param):
        return True
    if not isinstance(t, tuple):
        return False
    if t[0] == "ext" and t[1] in PATTERN_PRESERVING_EXT and t[2]:
        return derives_patternwise(t[2][0], param)
    if t[0] == "method" and t[2] in PATTERN_PRESERVING_METHODS:
        return derives_patternwise(t[1], param)
    if t[0] == "method" and t[2] == "astype" and t[3] and t[3][0] in (("extref", "bool"), ("extref", "float")):
        return derives_patternwise(t[1], param)
    if t[0] == "cmp" and t[1] == "!=" and is_const(t[3], 0):
        return derives_patternwise(t[2], param)
    if t[0] == "method" and t[2] == "astype" and t[3] and isinstance(t[1], tuple) and t[1][0] == "cmp":
        return derives_patternwise(t[1], param)         # a boolean pattern cast to any numeric type keeps the pattern
    if t[0] == "phi":
        return derives_patternwise(t[2], param) and derives_patternwise(t[3], param)
    return False


NARROW_FLOAT_DTYPES = {("extref", "float"), ("ext", "numpy.float64"), ("ext", "numpy.float32"), ("ext", "numpy.float16"), ("ext", "numpy.double"), ("ext", "numpy.single"),
                       ("const", "float"), ("const", "float64"), ("const", "float32"), ("const", "f8"), ("const", "f4"), ("const", "d"), ("const", "f")}


def float_narrowings(t):
    """sub-terms of t that convert a raw (not boolean) array to a fixed-width float dtype"""
    out = []
    for x in walk(t):
        if not isinstance(x, tuple) or len(x) < 3:
            continue
        src = dt = None
        if x[0] == "method" and x[2] == "astype" and len(x) > 3 and x[3]:
            src, dt = x[1], x[3][0]
        elif x[0] == "ext" and x[1] in ("numpy.array", "numpy.asarray", "numpy.asanyarray", "numpy.ascontiguousarray") and x[2]:
            src = x[2][0]
            dt = dict(x[3]).get("dtype", x[2][1] if len(x[2]) > 1 else None)
        elif x[0] == "ext" and x[1] in ("numpy.asfarray", "numpy.float64", "numpy.float32") and x[2]:
            src, dt = x[2][0], ("extref", "float")
        if dt is None or src is None:
            continue
        if isinstance(dt, tuple) and dt[0] == "extref" and dt[1] in ("numpy.float64", "numpy.float32", "numpy.float16", "numpy.double", "numpy.single"):
            dt = ("extref", "float")
        if dt in NARROW_FLOAT_DTYPES and not (isinstance(src, tuple) and src[0] in ("cmp", "boolop")):
            out.append(x)
    return out


def merge_complementary(calls):
    """`if c: xs.append(a) else: xs.append(b)` is `xs.append(a if c else b)`: two calls of the same method on the same receiver whose paths differ only
    in the polarity of their last condition are replaced by one call whose argument is the phi over that condition"""
    import types
    calls = list(calls)
    changed = True
    while changed:
        changed = False
        for x_ in range(len(calls)):
            for y_ in range(x_ + 1, len(calls)):
                a, b = calls[x_], calls[y_]
                if a.target == b.target and a.recv == b.recv and len(a.args) == 1 and len(b.args) == 1 and a.path and b.path and len(a.path) == len(b.path) and \
                        tuple(a.path[:-1]) == tuple(b.path[:-1]) and a.path[-1][0] == b.path[-1][0] and {a.path[-1][1], b.path[-1][1]} == {True, False} and a.loops == b.loops:
                    t_, e_ = (a, b) if a.path[-1][1] is True else (b, a)
                    m = types.SimpleNamespace(**{k: getattr(t_, k, None) for k in ("recv", "node", "loops", "order", "kwargs", "callkind", "target", "kind", "qname", "root", "func")})
                    m.path = tuple(t_.path[:-1])
                    m.args = [("phi", t_.path[-1][0], t_.args[0], e_.args[0])]
                    calls = [c_ for k_, c_ in enumerate(calls) if k_ not in (x_, y_)] + [m]
                    changed = True
                    break
            if changed:
                break
    return calls


def call_terms(path_or_term, qname):
    """all ('call', qname, ...) sub-terms"""
    return [x for x in walk(path_or_term) if isinstance(x, tuple) and len(x) == 4 and x[0] == "call" and x[1] == qname]


def gate_atoms(path, qname):
    """[(call term, polarity under which the path continues)] for calls of qname that occur as path conditions"""
    out = []
    for c, pol in path:
        p = npred(c, pol)
        parts = p[1] if p[0] in ("and",) else [p]
        for q in parts:
            if q[0] == "atom" and isinstance(q[1], tuple) and q[1][0] == "call" and q[1][1] == qname:
                out.append((q[1], q[2]))
            elif q[0] == "or" and all(x[0] == "atom" for x in q[1]) and len({(x[1], x[2]) for x in q[1]}) == 1:
                x = next(iter(q[1]))
                if isinstance(x[1], tuple) and x[1][0] == "call" and x[1][1] == qname:
                    out.append((x[1], x[2]))
    return out


def dag_gate(rep, prog, qname, param, rule="GATE", exc="ValueError", via=U + "is_dag", S=None):
    """The function raises `exc` when `via`(matrix) is false, for the matrix that derives
    pattern-wise from `param`, and everything it stores / returns is dominated by that test."""
    f = need(prog, qname)
    if S is None:
        S = Sym(prog)
        run_function(S, f)
    raises = [r for r in S.select("raise", qname=f.qname) if r.exctype == exc]
    hit = None
    for r in raises:
        for call, pol in gate_atoms(r.path, via):
            if pol is False and call[2] and derives_patternwise(call[2][0], param):
                hit = (r, call)
    if hit is None:
        rep.bad(rule + ".raise", fwhere(f), "no `raise %s` is controlled by `not %s(%s)`" % (exc, via.split(".")[-1], param))
        return S
    r, call = hit
    rep.ok(rule + ".raise", fwhere(f, r.node), "%s raised when %s(%s) is false" % (exc, via.split(".")[-1], fmt(call[2][0])))
    nar = float_narrowings(call[2][0])
    if nar:
        # "whatever the magnitude of the entries": float64 is not a superset of what the caller may hand in (np.longdouble,
        # object arrays of Fractions): a non-zero entry below 4.9e-324 becomes 0.0 and the edge is gone before the test sees it
        rep.bad(rule + ".lossless", fwhere(f, r.node), "the matrix is converted to a fixed float dtype before the %s test (%s): non-zero entries of wider types "
                "(np.longdouble, exact rationals) underflow to 0 and their edges are not tested" % (via.split(".")[-1], fmt(nar[0])[:80]))
    else:
        rep.ok(rule + ".lossless", fwhere(f, r.node), "the tested matrix is the caller's, up to conversions that cannot turn a non-zero entry into zero")
    # dominance: every store / return after the gate is reached only with the gate passed
    late = [x for x in S.facts if x.qname == f.qname and x.kind in ("attrstore", "return")]
    undominated = [x for x in late if (call, True) not in gate_atoms(x.path, via)]
    if f.name == "__init__":
        # a constructor that raises leaves no object behind: attributes stored *before* the test, at the nesting level of the
        # test itself, are harmless (the constructor cannot complete without passing it)
        undominated = [x for x in undominated if not (x.kind == "attrstore" and x.order < r.order and tuple(x.path) == tuple(r.path[:-1]))]
    if undominated:
        x = undominated[0]
        rep.bad(rule + ".dominates", fwhere(f, x.node), "reached without passing the %s test" % via.split(".")[-1])
    else:
        rep.ok(rule + ".dominates", fwhere(f, r.node), "all %d stores/returns of %s are dominated by the test" % (len(late), f.name))
    # no handler swallows it
    if getattr(r, "in_try", None):
        types = [t for _, ts in r.in_try for t in ts]
        if any(t in ("*", exc, "Exception", "BaseException") for t in types):
            rep.bad(rule + ".swallowed", fwhere(f, r.node), "the raise sits in a try block that catches %s" % exc)
    return S


def uses_same_matrix(rep, S, f, call, param, rule):
    """what is stored afterwards derives from the very matrix that was tested"""
    stores = [x for x in S.select("attrstore", qname=f.qname) if ("param", param) in atoms(x.value)]
    if not stores:
        rep.bad(rule + ".stored", fwhere(f), "no attribute stores a value derived from %s" % param)
        return
    for x in stores:
        if derives_patternwise(x.value, param) or mentions(x.value, call[2][0]):
            rep.ok(rule + ".stored", fwhere(f, x.node), "self.%s derives from the tested matrix" % x.attr)
        else:
            rep.bad(rule + ".stored", fwhere(f, x.node), "self.%s is not the matrix that was tested" % x.attr)


def wrapper_predicate(rep, prog, qname, wrapped, param, rule="WRAP", exc="ValueError"):
    """`qname` is True exactly when `wrapped(param)` returns, False when it raises `exc`."""
    f = need(prog, qname)
    S = Sym(prog)
    run_function(S, f)
    calls = [c for c in S.select("call", qname=f.qname) if c.target == wrapped]
    good = [c for c in calls if c.args and derives_patternwise(c.args[0], param)]
    if not good:
        decides = any(isinstance(x, (ast.If, ast.For, ast.While, ast.IfExp, ast.Call, ast.Compare)) for x in ast.walk(f.node))
        if calls or not decides:
            rep.bad(rule + ".call", fwhere(f), "%s does not call %s on its argument" % (f.name, wrapped.split(".")[-1]))
        else:
            # the predicate is computed in another way (a search of its own): not the wrapper these rules read
            rep.unk(rule + ".call", fwhere(f), "%s does not call %s at all: it decides the question by a computation of its own, which is not read" % (f.name, wrapped.split(".")[-1]))
        return S
    c = good[0]
    tries = getattr(c, "in_try", [])
    handled = any(t in ("*", exc, "Exception", "BaseException") for _, ts in tries for t in ts)
    rep.check(rule + ".handled", handled, fwhere(f, c.node),
              "a %s of %s is handled" % (exc, wrapped.split(".")[-1]), "a %s raised by %s escapes %s" % (exc, wrapped.split(".")[-1], f.name))
    if not handled:
        return S
    trynode = tries[0][0]
    body_ids = {id(x) for st in trynode.body + trynode.orelse for x in ast.walk(st)}
    handler_ids = {id(x) for h in trynode.handlers for st in h.body for x in ast.walk(st)}
    rets = S.select("return", qname=f.qname)
    ok = bool(rets)
    for r in rets:
        if id(r.node) in handler_ids:
            ok &= is_const(r.value, False)
        elif id(r.node) in body_ids or r.order > c.order:
            ok &= is_const(r.value, True)
        else:
            ok = False
    n_h = sum(1 for r in rets if id(r.node) in handler_ids)
    n_b = len(rets) - n_h
    ok = ok and n_h >= 1 and n_b >= 1
    rep.check(rule + ".outcome", ok, fwhere(f), "returns True after the call succeeded and False in the handler, nothing else",
              "return values are not (True after success, False on %s)" % exc)
    # a raise inside the handler would leak
    leaks = [r for r in S.select("raise", qname=f.qname)]
    rep.check(rule + ".noraise", not leaks, fwhere(f), "%s never raises itself" % f.name, "%s raises" % f.name)
    return S


# ----------------------------------------------------------------------------- formulas
def decide_formula(rep, rule, w, got, ref, what, make_point=None):
    """equal normal forms pass; a complete comparison or an exact rational counter-example is a
    violation; anything else is inconclusive (never a pass)"""
    import os
    from .. import mnf as MN
    from .. import mnf_eval as ME
    v = MN.compare(got, ref)
    if v == "equal":
        rep.ok(rule, w, "%s equals %s" % (what, MN.show(ref)[:220]))
        return
    if v == "different":
        rep.bad(rule, w, "%s is %s but must be %s" % (what, MN.show(got)[:220], MN.show(ref)[:220]))
        return
    if make_point is not None:
        res = ME.refute(got, ref, make_point, seed=int(os.environ.get("VERIF_SEED", "0") or 0))
        if res[0] == "different":
            rep.bad(rule, w, "%s is %s, must be %s: the two expressions differ at an exact rational point (witness recorded)" % (
                what, MN.show(got)[:200], MN.show(ref)[:200]), detail=res[1])
            return
        rep.unk(rule, w, "%s (%s) has another algebraic structure than the reference (%s); %s" % (
            what, MN.show(got)[:160], MN.show(ref)[:160],
            "they agree at %d generic rational points, which proves nothing" % res[1] if res[0] == "agree" else "not evaluable: %s" % res[1]))
        return
    rep.unk(rule, w, "%s has a different inverse structure: %s vs %s" % (what, MN.show(got)[:160], MN.show(ref)[:160]))


FLOAT_TYPES = {("extref", "float"), ("extref", "numpy.float64"), ("extref", "numpy.float_"), ("extref", "numpy.double"), ("const", "float"),
               ("const", "float64"), ("extref", "numpy.longdouble"), ("extref", "complex"), ("extref", "numpy.complex128")}


def lossy_casts(term):
    """casts of numeric data to a dtype that is not floating point (integer, bool, or 'whatever dtype another
    array happens to have'): fractional values are truncated silently"""
    out = []
    for x in walk(term):
        if not isinstance(x, tuple) or not x:
            continue
        d = None
        if x[0] == "method" and x[2] == "astype" and x[3]:
            d = x[3][0]
        elif x[0] == "ext" and x[1] in ("numpy.array", "numpy.asarray", "numpy.asanyarray", "numpy.atleast_1d", "numpy.full", "numpy.zeros", "numpy.empty"):
            d = dict((k, v) for k, v in x[3] if k != "$draw").get("dtype")
        if d is not None and d not in FLOAT_TYPES:
            out.append((x, d))
    return out


def hidden_state(rep, rule, w, terms, allowed, f=None):
    """the result may depend on the distribution only through the attributes in `allowed`: reading any other
    attribute of self (a cache written by earlier calls) makes the answer depend on the call history"""
    extra = sorted({x[1] for t in terms for x in walk(t) if isinstance(x, tuple) and len(x) == 2 and x[0] == "self" and x[1] not in allowed})
    if f is not None:
        extra = history_attrs(f, extra)
    if extra:
        rep.bad(rule, w, "the result reads self.%s, state that is not part of the distribution (mean / covariance): it depends on what earlier calls left there" % ", self.".join(extra))
    else:
        rep.ok(rule, w, "the result is a function of self.%s and the arguments only" % ", self.".join(sorted(allowed)))
    return extra


FLOAT_DTYPES = (("extref", "float"), ("extref", "numpy.float64"), ("const", "float"), ("extref", "numpy.float_"), ("extref", "numpy.double"),
                ("const", "float64"))


def _shape_norm(sh):
    if isinstance(sh, tuple) and sh and sh[0] == "list":
        sh = ("tuple", sh[1])
    if isinstance(sh, tuple) and sh and sh[0] == "tuple" and len(sh[1]) == 1:
        sh = sh[1][0]
    return sh


def zeros_of(t, shapes=(), like=(), allow_empty=False):
    """t is a fresh float array of zeros (np.zeros / np.zeros_like; np.empty when every entry is known to be written before it
    is read) of one of the given shapes, in any spelling of the shape (tuple, list, keyword) and with no dtype or a float one"""
    if not (isinstance(t, tuple) and t and t[0] == "ext"):
        return False
    kw = dict((k, (v[2] if isinstance(v, tuple) and len(v) == 3 and v[0] == "default" else v)) for k, v in t[3] if k != "$draw")      # a helper's keyword default is its value
    pos = list(t[2])
    if "shape" in kw and not pos:
        pos = [kw.pop("shape")]                 # np.zeros(shape=n)
    dt = kw.get("dtype", FLOAT_DTYPES[0])
    if isinstance(dt, tuple) and len(dt) == 4 and dt[0] == "ext" and dt[1] == "numpy.dtype" and len(dt[2]) == 1 and not dt[3]:
        dt = dt[2][0]                           # np.dtype(float) names the same type
    if not set(kw) <= {"dtype"} or dt not in FLOAT_DTYPES:
        return False
    if t[1] == "numpy.full" and (len(pos) == 2 or (len(pos) == 1 and "fill_value" in dict(t[3]))):
        # np.full(n, 0, dtype=float) is np.zeros(n)
        fv = pos[1] if len(pos) == 2 else dict(t[3])["fill_value"]
        kw2 = {k: v for k, v in kw.items() if k != "fill_value"}
        return isinstance(fv, tuple) and fv[0] == "const" and fv[1] == 0 and not isinstance(fv[1], bool) and set(kw2) <= {"dtype"} and "dtype" in kw2 and \
            _shape_norm(pos[0]) in [_shape_norm(s_) for s_ in shapes]
    names = ("numpy.zeros",) + (("numpy.empty",) if allow_empty else ())
    if t[1] in names and len(pos) == 1:
        return _shape_norm(pos[0]) in [_shape_norm(s_) for s_ in shapes]
    if t[1] == "numpy.zeros_like" and len(t[2]) == 1:
        return t[2][0] in like
    return False


NODE_FUNCS = {"pa", "ch", "neighbors", "adj", "na", "ancestors", "descendants", "desc", "chain_component"}
NODE_PARAMS = {"S", "A_nodes", "B_nodes", "I", "path", "visited", "to_visit", "targets"}


def node_label_truthiness(rep, prog, qnames, rule="TRUTHY.node-label", sets_as_params=()):
    """any(...) / all(...) applied to node *labels* (a set / list of nodes, or a comprehension that yields its own loop
    variable over one): node 0 is falsy, so the answer depends on how the nodes happen to be numbered."""
    n = 0
    for q in qnames:
        f = prog.funcs.get(q)
        if f is None:
            continue
        nodesets = set(NODE_PARAMS) | set(sets_as_params)

        def holds_nodes(e):
            if isinstance(e, ast.Name):
                return e.id in nodesets
            if isinstance(e, ast.Call):
                fn = (dotted_of(e.func) or "").split(".")[-1]
                if fn in NODE_FUNCS:
                    return True
                if fn in ("set", "list", "sorted", "tuple", "frozenset") and len(e.args) == 1:
                    return holds_nodes(e.args[0])
                return False
            if isinstance(e, ast.BinOp) and isinstance(e.op, (ast.BitAnd, ast.BitOr, ast.Sub, ast.BitXor)):
                return holds_nodes(e.left) or holds_nodes(e.right)
            if isinstance(e, ast.Set):
                return False
            return False
        for _ in range(3):
            for node in ast.walk(f.node):
                if isinstance(node, ast.Assign) and len(node.targets) == 1 and isinstance(node.targets[0], ast.Name) and holds_nodes(node.value):
                    nodesets.add(node.targets[0].id)
        hit = None
        for node in ast.walk(f.node):
            if isinstance(node, ast.Call) and isinstance(node.func, ast.Name) and node.func.id in ("any", "all") and len(node.args) == 1:
                n += 1
                a = node.args[0]
                if isinstance(a, (ast.GeneratorExp, ast.ListComp, ast.SetComp)):
                    tgt = a.generators[0].target
                    if isinstance(a.elt, ast.Name) and isinstance(tgt, ast.Name) and a.elt.id == tgt.id and holds_nodes(a.generators[0].iter):
                        hit = node
                elif holds_nodes(a):
                    hit = node
        if hit is not None:
            rep.bad(rule, fwhere(f, hit), "%s() takes the truth value of node labels (`%s`): node 0 is falsy, so the result depends on the numbering of the nodes" % (
                hit.func.id, norm(hit)[:60]))
    if not rep.count(rule, "VIOLATION"):
        rep.ok(rule, {"file": "sempler/utils.py", "line": 0, "function": "(%d functions)" % len(qnames), "construct": "any()/all()"},
               "%d any()/all() calls inspected; none takes the truth value of a node label" % n)


def truth_of_generator(rep, prog, qnames, rule="API.all-of-generator"):
    """np.all(<generator expression>) / np.any(<generator expression>): numpy wraps the generator *object* in a 0-d object array,
    whose truth value is True - the condition is never evaluated (builtin all / any iterate; np.all / np.any need a list)."""
    n = 0
    hit = None
    for q in qnames:
        f = prog.funcs.get(q)
        if f is None:
            continue
        for node in ast.walk(f.node):
            if isinstance(node, ast.Call) and (dotted_of(node.func) or "") in ("np.all", "np.any", "numpy.all", "numpy.any", "np.alltrue", "np.sometrue") and node.args:
                n += 1
                if isinstance(node.args[0], ast.GeneratorExp):
                    hit = (f, node)
                    rep.bad(rule, fwhere(f, node), "`%s` is the truth value of a generator object (always True), not of its elements" % norm(node)[:80])
    if hit is None:
        rep.ok(rule, {"file": "sempler/utils.py", "line": 0, "function": "(%d functions)" % len(qnames), "construct": "np.all()/np.any()"},
               "%d np.all / np.any calls inspected; none is applied to a generator expression" % n)


def isin_over_sets(rep, prog, qnames, rule="API.isin-set"):
    truth_of_generator(rep, prog, qnames)
    """np.isin(x, s) / np.in1d(x, s) with a Python *set* s: numpy wraps the set in a 0-d object array and every membership test is
    False (the documented trap: "pass list(s)").  Reported when the second argument is a set literal, set(...), a set
    comprehension, a set operation or one of the library's set-valued node functions."""
    n = 0
    for q in qnames:
        f = prog.funcs.get(q)
        if f is None:
            continue
        setvars = set()

        def is_set(e):
            if isinstance(e, (ast.Set, ast.SetComp)):
                return True
            if isinstance(e, ast.Name):
                return e.id in setvars
            if isinstance(e, ast.Call):
                fn = (dotted_of(e.func) or "").split(".")[-1]
                return fn in NODE_FUNCS or fn in ("set", "frozenset")
            if isinstance(e, ast.BinOp) and isinstance(e.op, (ast.BitAnd, ast.BitOr, ast.Sub, ast.BitXor)):
                return is_set(e.left) or is_set(e.right)
            return False
        # parameters the function itself combines with set operators are sets
        for node in ast.walk(f.node):
            if isinstance(node, ast.BinOp) and isinstance(node.op, (ast.BitAnd, ast.BitOr)):
                for x in (node.left, node.right):
                    if isinstance(x, ast.Name) and x.id in f.params:
                        setvars.add(x.id)
        for _ in range(3):
            for node in ast.walk(f.node):
                if isinstance(node, ast.Assign) and len(node.targets) == 1 and isinstance(node.targets[0], ast.Name) and is_set(node.value):
                    setvars.add(node.targets[0].id)
        for node in ast.walk(f.node):
            if isinstance(node, ast.Call) and (dotted_of(node.func) or "").split(".")[-1] in ("isin", "in1d") and (dotted_of(node.func) or "").split(".")[0] in ("np", "numpy"):
                n += 1
                second = node.args[1] if len(node.args) > 1 else next((k.value for k in node.keywords if k.arg in ("test_elements", "ar2")), None)
                if second is not None and is_set(second):
                    rep.bad(rule, fwhere(f, node), "np.%s is given the Python set `%s`: numpy treats a set as one 0-d object, every element tests False "
                            "(convert with list(...) first)" % ((dotted_of(node.func) or "").split(".")[-1], norm(second)[:40]))
    if not rep.count(rule, "VIOLATION"):
        rep.ok(rule, {"file": "sempler/utils.py", "line": 0, "function": "(%d functions)" % len(qnames), "construct": "np.isin / np.in1d"},
               "%d np.isin / np.in1d calls inspected; none is handed a Python set" % n)


def pinv_cutoff(rep, S, f, rule):
    """np.linalg.pinv(M, rcond=c) drops every direction of M below c * largest singular value: with variables on very different
    scales (a well-conditioned but badly scaled covariance) that is not the inverse any more.  An explicit cut-off is reported."""
    hits = [c for c in S.select("call", qname=f.qname) if c.callkind == "ext" and c.target in ("numpy.linalg.pinv", "scipy.linalg.pinv", "scipy.linalg.pinvh")
            and (len(c.args) > 1 or any(k in c.kwargs for k in ("rcond", "rtol", "atol", "cond")))]
    if hits:
        rep.bad(rule, fwhere(f, hits[0].node), "a pseudo-inverse with an explicit cut-off replaces the inverse: directions whose scale is below the cut-off relative to the "
                "largest one are dropped although the block is invertible")
    return bool(hits)


def cartesian_dtype(rep, prog, qnames, rule="API.cartesian-dtype"):
    """utils.cartesian(arrays, out=None, dtype=np.byte) allocates int8 unless told otherwise: node labels >= 128 wrap to negative
    numbers.  Every call whose arrays are not plain booleans must pass a dtype."""
    n = 0
    for q in qnames:
        f = prog.funcs.get(q)
        if f is None:
            continue
        for node in ast.walk(f.node):
            if isinstance(node, ast.Call) and (dotted_of(node.func) or "").split(".")[-1] == "cartesian":
                n += 1
                has_dtype = any(k.arg == "dtype" for k in node.keywords) or len(node.args) >= 3
                if not has_dtype:
                    rep.bad(rule, fwhere(f, node), "cartesian(...) without dtype builds an int8 array: node labels of 128 and more wrap to negative indices")
    if not rep.count(rule, "VIOLATION"):
        rep.ok(rule, {"file": "sempler/utils.py", "line": 0, "function": "(%d functions)" % len(qnames), "construct": "cartesian(...)"},
               "%d cartesian(...) calls inspected; each states its dtype" % n)


def empty_index_arrays(rep, prog, qnames, rule):
    """np.array(<list that may be empty>) is float64 when the list is empty, and numpy refuses a float array as an index
    (IndexError) - the list itself would have been accepted.  Reported: an index / store position that is np.array(...) /
    np.asarray(...) of a list built by a filter or comprehension, without an integer dtype."""
    n = 0
    for q in qnames:
        f = prog.funcs.get(q)
        if f is None:
            continue
        S = Sym(prog)
        try:
            run_function(S, f)
        except Inconclusive:
            continue
        sus = None
        for fact in S.facts:
            if fact.qname != q:
                continue
            idxs = []
            if fact.kind == "store":
                idxs.append(fact.idx)
            for t in [getattr(fact, "value", None), getattr(fact, "term", None)] + list(getattr(fact, "args", []) or []):
                if t is not None:
                    idxs += [x[2] for x in walk(t) if isinstance(x, tuple) and len(x) == 3 and x[0] == "sub"]
            for ix in idxs:
                parts = list(ix[1]) if isinstance(ix, tuple) and ix and ix[0] == "tuple" else [ix]
                for p_ in parts:
                    if isinstance(p_, tuple) and len(p_) == 4 and p_[0] == "ext" and p_[1] in ("numpy.array", "numpy.asarray") and len(p_[2]) == 1 and \
                            "dtype" not in dict(p_[3]) and isinstance(p_[2][0], tuple) and p_[2][0] and \
                            (p_[2][0][0] == "comp" or (p_[2][0][0] == "ext" and p_[2][0][1] in ("list", "filter", "sorted"))):
                        sus = (fact, p_)
        n += 1
        if sus is not None:
            rep.bad(rule, fwhere(f, sus[0].node), "%s indexes with %s: when the list is empty the array is float64 and numpy raises IndexError "
                    "(an index list, or dtype=int, would be accepted)" % (f.name, fmt(sus[1])[:70]))
        else:
            rep.ok(rule, fwhere(f), "%s: no index array that turns float when empty" % f.name)
    return n


def message_safe(rep, S, f, rule):
    """building the exception must not raise another one: `"...%s" % x` unpacks x when it is a tuple (TypeError instead of the
    documented exception), so a bare right operand that the same function treats as a possible tuple is reported"""
    tuple_tested = set()
    for fact in S.facts:
        if fact.root != f.qname:
            continue
        for t in [getattr(fact, "term", None)] + [c for c, _ in getattr(fact, "path", ())]:
            if t is None:
                continue
            for x in walk(t):
                if isinstance(x, tuple) and len(x) == 4 and x[0] == "ext" and x[1] == "isinstance" and len(x[2]) == 2 and \
                        any(y == ("extref", "tuple") for y in walk(x[2][1])):
                    tuple_tested.add(x[2][0])
                if isinstance(x, tuple) and len(x) == 4 and x[0] == "cmp" and x[1] in ("==", "is", "in") and x[2][:2] == ("ext", "type") and \
                        any(y == ("extref", "tuple") for y in walk(x[3])):
                    tuple_tested.add(x[2][2][0])
    n = 0
    for r in S.select("raise", qname=f.qname):
        n += 1
        bad = None
        for x in walk(r.exc):
            if isinstance(x, tuple) and len(x) == 4 and x[0] == "binop" and x[1] == "%" and x[3] in tuple_tested:
                # under a path condition that excludes the tuple form the operand is a scalar
                excluded = any(c == ("ext", "isinstance", (x[3], ("extref", "tuple")), ()) and pol is False for c, pol in r.path)
                if not excluded:
                    bad = x
        if bad is not None:
            rep.bad(rule, fwhere(f, r.node), "the message is built with `%% %s`, and %s may be a tuple here (the function tests isinstance(%s, tuple)): "
                    "the %% operator unpacks it and a TypeError escapes instead of %s" % (fmt(bad[3]), fmt(bad[3]), fmt(bad[3]), r.exctype))
        else:
            rep.ok(rule, fwhere(f, r.node), "building the %s cannot itself fail on the documented argument forms" % r.exctype)
    return n


def history_attrs(f, hidden):
    """of the attributes a method reads, those that can carry history: written by some method other than __init__, or never
    defined by __init__.  An attribute that only the constructor sets (a flag, a name, a setting) is constant over the object's life."""
    hidden = list(hidden)
    cls = f.module.classes.get(f.cls) if f.cls else None
    if cls is not None and hidden:
        set_in_init, set_elsewhere = set(), set()
        for mname, mf in cls["methods"].items():
            for n_ in ast.walk(mf.node):
                tgts = []
                if isinstance(n_, ast.Assign):
                    tgts = n_.targets
                elif isinstance(n_, (ast.AugAssign, ast.AnnAssign)):
                    tgts = [n_.target]
                elif isinstance(n_, ast.Call) and isinstance(n_.func, ast.Name) and n_.func.id == "setattr" and n_.args and isinstance(n_.args[0], ast.Name) and n_.args[0].id == "self":
                    set_elsewhere.add("*")
                for t_ in tgts:
                    for y in ast.walk(t_):
                        if isinstance(y, ast.Attribute) and isinstance(y.value, ast.Name) and y.value.id == "self":
                            (set_in_init if mname == "__init__" else set_elsewhere).add(y.attr)
            if mname != "__init__":
                for n_ in ast.walk(mf.node):      # self.x.append(...) / self.x[k] = ... / self.x.update(...) outside the constructor
                    if isinstance(n_, ast.Call) and isinstance(n_.func, ast.Attribute) and n_.func.attr in ("append", "update", "setdefault", "add", "pop", "extend", "clear", "insert", "remove") \
                            and isinstance(n_.func.value, ast.Attribute) and isinstance(n_.func.value.value, ast.Name) and n_.func.value.value.id == "self":
                        set_elsewhere.add(n_.func.value.attr)
        hidden = [a for a in hidden if a in set_elsewhere or "*" in set_elsewhere or a not in set_in_init]
    return hidden


def model_history(rep, S, f, model_attrs, rule):
    """what a method of a model hands out is a function of the model's defining attributes and of this call's arguments only:
    reading any other attribute of self (a cache) or writing an attribute makes the answer depend on the call history"""
    seen_terms = []
    for fact in S.facts:
        if fact.root == f.qname:
            seen_terms += [getattr(fact, "value", None), getattr(fact, "term", None), getattr(fact, "base", None), getattr(fact, "recv", None)] + \
                list(getattr(fact, "args", []) or []) + list((getattr(fact, "kwargs", {}) or {}).values())
    hidden = sorted({x[1] for t in seen_terms if t is not None for x in walk(t) if isinstance(x, tuple) and len(x) == 2 and x[0] == "self" and isinstance(x[1], str)
                     and x[1] not in model_attrs})
    hidden = history_attrs(f, hidden)
    rebound = sorted({a.attr for a in S.select("attrstore", qname=f.qname)})
    if hidden or rebound:
        rep.bad(rule, fwhere(f), "%s %s: what it returns depends on what earlier calls left on the object" % (f.name, "; ".join(
            (["reads self.%s, which is not part of the model (%s)" % (", self.".join(hidden), ", ".join(sorted(model_attrs)))] if hidden else []) +
            (["rebinds self.%s" % ", self.".join(rebound)] if rebound else []))))
    else:
        rep.ok(rule, fwhere(f), "the result is a function of self.%s and the arguments only; no attribute is written" % " / ".join(sorted(model_attrs)))
    return hidden, rebound


def no_foreign_writes(rep, prog, qname, rule="OWN"):
    """the function writes only objects it allocated itself: not its arguments, not the model, not arrays handed
    back by user callables (which may be storage the callable keeps)"""
    from .. import own as OW
    f = need(prog, qname)
    O = OW.Own(prog)
    try:
        summ, _ = OW.analyse_entry(O, f)
    except Inconclusive as e:
        rep.unk(rule + ".writes", fwhere(f), "ownership analysis left the modelled fragment: %s" % e.why)
        return
    bad = 0
    for w in summ.effects:
        if isinstance(w, OW.Write):
            owned = [l for l in OW.caller_owned(w.labels) if not (OW.strip_maybe(l)[0] in ("S", "SE") and f.name == "__init__")]
            if owned:
                bad += 1
                l = sorted(owned, key=str)[0]
                what = {"P": "parameter", "PE": "an element of parameter", "S": "self attribute", "SE": "an element of self attribute", "D": "the default of",
                        "G": "module-level object", "U": "the array returned by the user's callable"}[OW.strip_maybe(l)[0]]
                if all(OW.strip_maybe(l_)[0] == "G" for l_ in owned) and module_state_managed(w.site[2], owned):
                    # state kept at module level (a cache, a registry): it is written, which makes results *able* to depend on earlier calls; whether they
                    # do (a memo table with a sound key does not) is not something the ownership domain decides
                    rep.unk(rule + ".writes", {"file": w.site[3], "line": w.site[1], "function": w.site[0], "construct": w.site[2]},
                            "%s writes module-level object `%s`: hidden state between calls, not decided whether results can depend on it" % (w.how, l[1]))
                    continue
                rep.bad(rule + ".writes", {"file": w.site[3], "line": w.site[1], "function": w.site[0], "construct": w.site[2]},
                        "%s %s %s `%s`" % (w.how, "may write" if l[0].endswith("?") else "writes", what, l[1]))
    if not bad:
        rep.ok(rule + ".writes", fwhere(f), "%s writes only arrays it allocated itself" % f.name)


def inputs_intact(rep, prog, qnames, rule="INTACT"):
    """the entry points of a graph property return a function of the matrix they are given *and leave it as it was*: a
    gate / helper that consumes the caller's matrix (Kahn's algorithm run on the argument itself) changes what every later
    step of the same call — and every later call — sees.  Interprocedural ownership analysis from each entry point."""
    for q in qnames:
        no_foreign_writes(rep, prog, q, rule=rule + "." + q.rsplit(".", 1)[1])


def negative_zero_slices(rep, prog, qnames, rule="SLICE.minus-zero"):
    """`x[-k:]` / `x[:-k]` with a k that can be 0 is the whole sequence / the empty one — the classic off-by-sign at
    size 0.  Flags slices whose bound is the negation of a non-constant that no enclosing test mentions; zero findings is
    the expected count."""
    import ast as _ast
    n = 0
    for q in qnames:
        f = need(prog, q)
        parents = {}
        for a in _ast.walk(f.node):
            for c in _ast.iter_child_nodes(a):
                parents[c] = a
        for a in _ast.walk(f.node):
            if not (isinstance(a, _ast.Subscript) and isinstance(a.slice, _ast.Slice)):
                continue
            for b in (a.slice.lower, a.slice.upper):
                if isinstance(b, _ast.UnaryOp) and isinstance(b.op, _ast.USub) and not isinstance(b.operand, _ast.Constant):
                    names = {x.id for x in _ast.walk(b.operand) if isinstance(x, _ast.Name)}
                    guarded, c = False, a
                    while c in parents:
                        c = parents[c]
                        if isinstance(c, (_ast.If, _ast.While, _ast.IfExp)) and names & {x.id for x in _ast.walk(c.test) if isinstance(x, _ast.Name)}:
                            guarded = True
                    n += 1
                    w = {"file": f.module.relpath, "line": a.lineno, "function": f.qname, "construct": _ast.unparse(a)}
                    if guarded:
                        rep.unk(rule, w, "slice bound -(%s) under a test on the same variable: whether 0 is excluded is not decided" % _ast.unparse(b.operand))
                    else:
                        rep.bad(rule, w, "for %s = 0 the bound -0 is 0: the slice is the whole sequence (lower bound) / empty (upper bound), not the last 0 items" % _ast.unparse(b.operand))
    if not n:
        rep.ok(rule, fwhere(need(prog, qnames[0])), "no slice bound of the form -(variable)")


def decorator_slots(rep, prog, interps):
    """DECOR.slots - a wrapper may validate, convert or log, but the value the caller passed *as parameter p* must not arrive
    unchanged in the slot of another parameter q (swapped order in the wrapper's own signature, kwargs appended in call order,
    an off-by-one when re-packing *args).  Decided from what the undecorated entry point was finally called with, in every
    call form, by the symbolic interpreter (parameters are symbols there)."""
    from ..sym import Sym, T as _T
    seen = set()
    mism = set()
    for it in interps:
        for q, k, rev, why, line in it.signature_mismatch:
            f = prog.funcs.get(q)
            if f is None or (q, why) in mism:
                continue
            mism.add((q, why))
            form = "all arguments by position" if k is None else "first %d by position, the others by keyword%s" % (k, " in reverse order" if rev else "")
            rep.bad("DECOR.signature", fwhere(f), "a call %s accepts (%s) is a TypeError behind its decorator: %s (wrapper at line %d)" % (f.name, form, why, line))
    # DECOR.cache-key: a memo table indexed by hash(arguments) - hash() is not injective (hash(-1) == hash(-2), hash(1) == hash(1.0) ==
    # hash(True)), so different arguments share one entry
    import ast as _ast
    decs = set()
    for it in interps:
        decs |= set(it.decorator_funcs)
    for q in sorted(decs):
        f = prog.funcs.get(q)
        if f is None:
            continue
        hashed = {t.id: a.value.func.id for a in _ast.walk(f.node) if isinstance(a, _ast.Assign) and isinstance(a.value, _ast.Call) and isinstance(a.value.func, _ast.Name)
                  and a.value.func.id in ("hash", "id") for t in a.targets if isinstance(t, _ast.Name)}
        kind = {}

        def is_hash(e):
            if isinstance(e, _ast.Name) and e.id in hashed:
                kind[0] = hashed[e.id]
                return True
            if isinstance(e, _ast.Call) and isinstance(e.func, _ast.Name) and e.func.id in ("hash", "id"):
                kind[0] = e.func.id
                return True
            return False
        for a in _ast.walk(f.node):
            key = None
            if isinstance(a, _ast.Subscript) and is_hash(a.slice):
                key = a
            elif isinstance(a, _ast.Compare) and len(a.ops) == 1 and isinstance(a.ops[0], (_ast.In, _ast.NotIn)) and is_hash(a.left):
                key = a
            elif isinstance(a, _ast.Call) and isinstance(a.func, _ast.Attribute) and a.func.attr in ("get", "setdefault", "pop") and a.args and is_hash(a.args[0]):
                key = a
            confirms = any((isinstance(x, _ast.Call) and (dotted_of(x.func) or "").split(".")[-1] in ("array_equal", "array_equiv", "allclose")) or
                           (isinstance(x, _ast.Compare) and any(isinstance(o, _ast.Eq) for o in x.ops) and not any(isinstance(y, _ast.Constant) for y in [x.left] + x.comparators))
                           for x in _ast.walk(f.node))
            if key is not None and confirms:
                # a hit under hash / id is confirmed against what was stored (the argument itself, a copy of its contents): whether that makes the
                # table sound is not decided here
                rep.unk("DECOR.cache-key", {"file": f.module.relpath, "line": key.lineno, "function": q, "construct": _ast.unparse(key)[:100]},
                        "results are remembered under %s(argument) and a hit is compared by value with the stored argument before it is used (an identity test would not do: an array changed in place keeps its identity): whether the table is sound is not decided" % kind.get(0))
                break
            if key is not None:
                rep.bad("DECOR.cache-key", {"file": f.module.relpath, "line": key.lineno, "function": q, "construct": _ast.unparse(key)[:100]},
                        "results are remembered under hash(arguments): different arguments with equal hashes (-1 and -2; 1, 1.0 and True) get each other's result"
                        if kind.get(0) == "hash" else
                        "results are remembered under id(argument): an array that is changed in place keeps its identity, so the result computed for "
                        "its old contents is returned for the new ones")
                break
    st_seen = set()
    for it in interps:
        read_ids = {r[0] for r in it.persistent_reads}
        for oid, q, line, text, rel in it.persistent_writes:
            if (q, text) in st_seen:
                continue
            st_seen.add((q, text))
            w = {"file": rel, "line": line, "function": q, "construct": text}
            if oid in read_ids:
                rep.bad("DECOR.state", w, "a dict built once, when the function was decorated, is updated by every call and read again by the wrapper: what one call "
                        "passes (its arguments) is still there for the next call - the result depends on the call history")
            else:
                rep.unk("DECOR.state", w, "a dict in the decorator's closure is updated by every call (state shared between calls): not decided")
    for it in interps:
        if not isinstance(it, Sym):
            continue
        for q, calls in it.raw_calls.items():
            f = prog.funcs.get(q)
            if f is None:
                continue
            pp = f.posparams[1:] if f.is_method else f.posparams
            for args, kwargs, k, rev in calls:
                got = {}
                for p_, a in zip(pp, args):
                    got[p_] = a
                got.update(kwargs)
                for slot, a in got.items():
                    t = _T(a) if not isinstance(a, tuple) or not a or a[0] != "*" else None
                    if isinstance(t, tuple) and len(t) == 2 and t[0] == "param" and t[1] in f.params and t[1] != slot and slot in f.params:
                        key = (q, slot, t[1])
                        if key in seen:
                            continue
                        seen.add(key)
                        form = "all arguments by position" if k is None else "first %d by position, the others by keyword%s" % (k, " in reverse order" if rev else "")
                        rep.bad("DECOR.slots", fwhere(f), "behind its decorator(s) %s receives the caller's `%s` as its parameter `%s` (%s)" % (f.name, t[1], slot, form))
            if calls and not any(k_[0] == q for k_ in seen):
                rep.ok("DECOR.slots", fwhere(f), "every argument reaches the parameter it was passed for, in %d call(s) through the decorator(s)" % len(calls))


def empty_subset_replaced(rep, prog, entries, rule="EMPTY.subset"):
    """entries: [(qname, node-set parameter)].  `S or <default>` (the `x or default` idiom for an optional argument) applied to
    a node set replaces the *empty* set as well - a legitimate input (is_clique(set(), A) is vacuously True, the subgraph
    induced by no node is empty).  Decided on the symbolic terms, private helpers inlined."""
    from ..sym import walk as _walk
    for q, p_ in entries:
        f = need(prog, q)
        S = Sym(prog, inline=inline_helpers(prog, f.public_module.name))
        try:
            run_function(S, f)
        except Inconclusive as e:
            rep.unk(rule, fwhere(f), "symbolic evaluation left the modelled fragment: %s" % e.why)
            continue
        hit = None
        for fact in S.facts:
            terms = [v for k, v in fact.__dict__.items() if k not in ("node", "func", "kind", "qname", "root", "loops", "order")]
            for t in terms:
                for x in _walk(t) if isinstance(t, tuple) else ():
                    if isinstance(x, tuple) and len(x) == 3 and x[0] == "bool" and x[1] == "or" and x[2] and x[2][0] == ("param", p_):
                        hit = (fact, x)
                        break
                if hit:
                    break
            if hit:
                break
        if hit:
            rep.bad(rule, fwhere(hit[0].func if hit[0].func is not None else f, hit[0].node),
                    "`%s`: an empty %s is falsy and is replaced by the default as well - %s(%s=empty) no longer answers for the empty set" % (fmt(hit[1])[:60], p_, f.name, p_))
        else:
            rep.ok(rule, fwhere(f), "the node set %s of %s is never replaced by a default when it is empty" % (p_, f.name))


def ctor_copies(rep, prog, ctor_qname, attrs=None, rule="CTOR.copy"):
    """what the constructor stores in self.<attr> is the object's own: not the caller's array (a later change of the caller's
    array would change the model), not an object a memoising helper hands to everybody (ownership analysis of the constructor)"""
    from .. import own as OW
    f = need(prog, ctor_qname)
    O = OW.Own(prog)
    try:
        OW.analyse_entry(O, f)
    except Inconclusive as e:
        rep.unk(rule, fwhere(f), "ownership analysis left the modelled fragment: %s" % e.why)
        return
    seen = 0
    for (q, target, attr, val, rel, func) in O.rebinds:
        if func is None or func.qname != f.qname or (attrs is not None and attr not in attrs):
            continue
        seen += 1
        w = {"file": rel, "line": target.lineno, "function": q, "construct": norm(target)}
        deep = OW.deep_labels(val)
        owned = sorted({l for l in deep if isinstance(l, tuple) and OW.strip_maybe(l)[0] in ("P", "PE", "D", "G")}, key=str)
        if owned:
            kind = {"P": "the caller's", "PE": "an element of the caller's", "D": "the default value of", "G": "the shared module-level object"}
            rep.bad(rule, w, "self.%s %s %s" % (attr, "may keep a reference to" if all(l[0].endswith("?") for l in owned) else "keeps a reference to",
                                                  ", ".join("%s `%s`" % (kind[OW.strip_maybe(l)[0]], l[1]) for l in owned)))
        else:
            rep.ok(rule, w, "self.%s is the object's own value" % attr)
    if not seen:
        rep.unk(rule, fwhere(f), "no store into self.%s found in %s" % ("/".join(attrs) if attrs else "*", f.name))


def chain_test_rules(rep, prog, rule="CHAIN.test"):
    """mec / imec answer from the closed-form enumeration `chain_graph_MEC(len(A))` when `is_chain_graph(A)`: that enumeration is
    the class of *the* chain 0 -> 1 -> ... -> p-1, so the test must single out that labelled graph.  Decided: the test is the
    comparison with chain_graph(len(A)) (of A or of its zero pattern) -> ok; the test is invariant under relabelling the nodes
    (only sums / counts / degree vectors compared with constants) -> violation, because any directed path through all nodes
    then takes the shortcut and receives the class of another graph; anything else is not decided."""
    from ..pattern import chain_test_is_exact
    q = U + "is_chain_graph"
    f = need(prog, q)
    # the reference the test compares with must be built afresh: chain_graph is public, callers edit what it returns (add an edge, scale by weights);
    # with a memoised chain_graph the edit lands in the reference itself and the edited graph still "is a chain" - for the rest of the process
    fcg = prog.func(U + "chain_graph") if prog.has(U + "chain_graph") else None
    if fcg is not None and getattr(fcg, "cached", False):
        rep.bad(rule + ".reference", fwhere(fcg), "chain_graph is memoised and returns a mutable array: the matrix is_chain_graph compares with is the one every caller of "
                "chain_graph(p) received and may have edited; the chain shortcut of mec / imec is then taken for graphs that are not chains")
    elif fcg is not None:
        rep.ok(rule + ".reference", fwhere(fcg), "chain_graph builds its result on every call (not memoised)")
    if chain_test_is_exact(prog):
        rep.ok(rule, fwhere(f), "is_chain_graph(A) is the comparison of A with chain_graph(len(A))")
        return
    S = Sym(prog, inline=inline_helpers(prog, "sempler.utils"))
    try:
        summ, _ = run_function(S, f)
    except Inconclusive as e:
        rep.unk(rule, fwhere(f), "symbolic evaluation left the modelled fragment: %s" % e.why)
        return
    A = ("param", "A")
    t = T(summ.ret)
    lens = [("ext", "len", (A,), ()), ("sub", ("attr", A, "shape"), ("const", 0)), ("sub", ("attr", A, "shape"), ("const", 1))]

    def pat(x):
        # A or its zero pattern
        while isinstance(x, tuple) and x and ((x[0] == "method" and x[2] in ("astype", "copy")) or (x[0] == "ext" and x[1] in ("numpy.asarray", "numpy.array", "bool") and len(x[2]) == 1)):
            x = x[1] if x[0] == "method" else x[2][0]
        if isinstance(x, tuple) and len(x) == 4 and x[0] == "cmp" and x[1] == "!=" and is_const(x[3], 0):
            x = x[2]
        return x == A

    def chain(x):
        return isinstance(x, tuple) and len(x) == 4 and x[0] == "call" and x[1] == U + "chain_graph" and x[2] and x[2][0] in lens
    u = t
    while isinstance(u, tuple) and u and u[0] == "ext" and u[1] in ("bool", "numpy.all") and len(u[2]) == 1:
        u = u[2][0]
    if isinstance(u, tuple) and u and u[0] == "method" and u[2] == "all":
        u = u[1]
    if isinstance(u, tuple) and len(u) == 4 and ((u[0] == "cmp" and u[1] == "==") or (u[0] == "ext" and u[1] == "numpy.array_equal" and len(u[2]) == 2)):
        a_, b_ = (u[2], u[3]) if u[0] == "cmp" else u[2]
        if (pat(a_) and chain(b_)) or (pat(b_) and chain(a_)):
            rep.ok(rule, fwhere(f), "is_chain_graph(A) compares the zero pattern of A with chain_graph(len(A))")
            return

    RED = ("sum", "any", "all", "max", "min", "mean", "prod")
    EL_EXT = ("numpy.abs", "numpy.absolute", "numpy.logical_and", "numpy.logical_or", "numpy.logical_not", "bool", "int", "numpy.asarray", "numpy.array", "abs")

    def kind(x):
        """'mat' / 'vec' / 'sc' when x is equivariant under simultaneous row/column permutation of A (invariant for scalars), else None"""
        if x == A:
            return "mat"
        if not isinstance(x, tuple) or not x:
            return None
        if x[0] == "const" or x in lens:
            return "sc"
        if x[0] == "attr" and x[2] == "T":
            return kind(x[1])
        if x[0] == "cmp" or x[0] == "binop":
            ks = [kind(x[2]), kind(x[3])]
            if None in ks:
                return None
            return "mat" if "mat" in ks else "vec" if "vec" in ks else "sc"
        if x[0] == "bool":
            ks = [kind(y) for y in x[2]]
            return None if None in ks else ("mat" if "mat" in ks else "vec" if "vec" in ks else "sc")
        if x[0] == "not" or (x[0] == "unary"):
            return kind(x[-1])
        if x[0] == "method" and x[2] in ("astype", "copy"):
            return kind(x[1])
        if x[0] == "method" and x[2] in RED:
            k = kind(x[1])
            if k is None:
                return None
            axis = dict(x[4]).get("axis") if len(x) > 4 else None
            if axis is None and len(x) > 3 and x[3]:
                axis = x[3][0]
            if k == "mat" and axis is not None:
                return "vec" if axis in (("const", 0), ("const", 1), ("const", -1)) else None
            return "sc"
        if x[0] == "ext" and x[1] in ("numpy.sum", "numpy.count_nonzero", "numpy.any", "numpy.all", "numpy.max", "numpy.min") and x[2]:
            k = kind(x[2][0])
            if k is None:
                return None
            axis = dict(x[3]).get("axis") or (x[2][1] if len(x[2]) > 1 else None)
            if k == "mat" and axis is not None:
                return "vec" if axis in (("const", 0), ("const", 1), ("const", -1)) else None
            return "sc"
        if x[0] == "ext" and x[1] in EL_EXT and x[2]:
            ks = [kind(y) for y in x[2]]
            return None if None in ks else ("mat" if "mat" in ks else "vec" if "vec" in ks else "sc")
        if x[0] == "ext" and x[1] == "len" and len(x[2]) == 1 and kind(x[2][0]) in ("mat", "vec"):
            return "sc"
        return None
    if kind(t) == "sc":
        rep.bad(rule, fwhere(f), "is_chain_graph(A) = %s reads A only through sums / counts that do not change when the nodes are relabelled: every directed path "
                "through all nodes (e.g. 0 -> 2 -> 1) takes the shortcut and is answered with the class of the chain 0 -> 1 -> ... -> p-1" % fmt(t)[:120])
    else:
        rep.unk(rule, fwhere(f), "is_chain_graph(A) = %s is not the comparison with chain_graph(len(A)); whether it accepts exactly that graph is not decided" % fmt(t)[:120])


NONE_METHODS = {"sort", "reverse", "append", "extend", "insert", "remove", "clear", "update", "add", "discard", "shuffle", "difference_update",
                "intersection_update", "symmetric_difference_update", "fill", "setdefault_"}


def input_assertions(rep, prog, qnames, rule="ASSERT.input"):
    """`assert <condition on the arguments as they arrived>` in a public function the check analysed: unless the condition holds for every input of the
    property's quantifier, inputs are rejected with an AssertionError nobody documented.  Whether it always holds is not decided here: the site is
    reported as undecided (exit 2), so that such a change does not pass silently.  Assertions about values the function computed itself are not touched."""
    import builtins
    n = 0
    for q in sorted(qnames):
        f = prog.funcs.get(q)
        if f is None or f.public_module.name.startswith("drf") or f.name.startswith("_") or (f.cls and f.cls.startswith("_")):
            continue
        params = set(f.params)
        assigned = {}
        for node in ast.walk(f.node):
            if isinstance(node, (ast.Assign, ast.AugAssign, ast.AnnAssign, ast.For, ast.With, ast.NamedExpr)):
                tgts = node.targets if isinstance(node, ast.Assign) else [getattr(node, "target", None)] if not isinstance(node, ast.With) else [i_.optional_vars for i_ in node.items]
                for t in tgts:
                    for x in ast.walk(t) if t is not None else ():
                        if isinstance(x, ast.Name):
                            assigned.setdefault(x.id, []).append(getattr(node, "lineno", 0))
        for node in ast.walk(f.node):
            if not isinstance(node, ast.Assert):
                continue
            names = {x.id for x in ast.walk(node.test) if isinstance(x, ast.Name)}
            names -= {y.id for x in ast.walk(node.test) if isinstance(x, ast.comprehension) for y in ast.walk(x.target) if isinstance(y, ast.Name)}
            names -= {a_.arg for x in ast.walk(node.test) if isinstance(x, ast.Lambda) for a_ in x.args.args}
            free = {x for x in names if x not in params and not hasattr(builtins, x) and x not in ("np", "numpy", "pd", "math")}
            # only raw arguments: no local, and no parameter that was re-bound before this line
            raw = names & params and not free and not any(any(ln <= node.lineno for ln in assigned.get(x, ())) for x in names & params)
            n += 1
            if raw:
                rep.unk(rule, fwhere(f, node), "`%s` tests the arguments as they arrived: inputs for which it does not hold are rejected with an AssertionError; "
                        "whether it holds for every input of the property is not decided" % norm(node)[:90])
    rep.analysed["assert statements inspected"] = n


INDEX_PRODUCERS = ("np.flatnonzero", "numpy.flatnonzero", "np.argwhere", "numpy.argwhere", "np.argsort", "numpy.argsort", "np.arange", "numpy.arange")


def _index_array_expr(e, index_funcs=()):
    """the expression is an array of positions / node labels: np.flatnonzero(m), np.where(m)[k], np.nonzero(m)[k], np.argwhere(m), a call of a repository
    function that returns one of these"""
    if isinstance(e, ast.Call):
        d = dotted_of(e.func) or ""
        if d in INDEX_PRODUCERS:
            return True
        nm = d.split(".")[-1]
        return nm in index_funcs and nm not in ("where", "nonzero")
    if isinstance(e, ast.Subscript) and isinstance(e.value, ast.Call) and (dotted_of(e.value.func) or "") in ("np.where", "numpy.where", "np.nonzero", "numpy.nonzero") and len(e.value.args) == 1:
        return True
    return False


def index_truthiness(rep, prog, qnames, rule="TRAP.any-of-indices"):
    """`.any()` / `.all()` / any() / all() / np.any() of an array of positions: position 0 is falsy, so "is there an element" is answered with "is there an
    element other than node 0" - the emptiness test that was right for the boolean mask is wrong for the index array made from it"""
    # repository functions (by simple name) whose every return hands out an index array
    index_funcs = set()
    for f in prog.funcs.values():
        rets = [n for n in ast.walk(f.node) if isinstance(n, ast.Return) and n.value is not None]
        if rets and all(_index_array_expr(r.value) for r in rets):
            index_funcs.add(f.name)
    n = 0
    for q in sorted(qnames):
        f = prog.funcs.get(q)
        if f is None or f.public_module.name.startswith("drf"):
            continue
        names = set()
        for node in ast.walk(f.node):
            if isinstance(node, ast.Assign) and len(node.targets) == 1 and isinstance(node.targets[0], ast.Name) and _index_array_expr(node.value, index_funcs):
                names.add(node.targets[0].id)
        for node in ast.walk(f.node):
            if not isinstance(node, ast.Call):
                continue
            subject = None
            d = dotted_of(node.func) or ""
            if isinstance(node.func, ast.Attribute) and node.func.attr in ("any", "all") and not node.args and not (isinstance(node.func.value, ast.Name) and node.func.value.id in ("np", "numpy")):
                subject = node.func.value
            elif d in ("any", "all", "np.any", "np.all", "numpy.any", "numpy.all") and len(node.args) == 1:
                subject = node.args[0]
            if subject is None:
                continue
            n += 1
            if (isinstance(subject, ast.Name) and subject.id in names) or _index_array_expr(subject, index_funcs):
                rep.bad(rule, fwhere(f, node), "`%s` asks whether some position is non-zero, not whether there is one: an index array holding only position / node 0 counts as empty" % norm(node)[:80])
    rep.analysed["any()/all() sites inspected for index arrays"] = n


def python_traps(rep, prog, qnames, rule="TRAP"):
    """Python / numpy idioms that run without an error and mean something else, looked for in every function the check analysed:
    np.all / np.any of a generator expression (always True); a value taken from a method that returns None (`x = x.sort()`,
    `rng.shuffle(...)` assigned); `is` / `is not` against a literal other than None / True / False (identity of ints and strings
    is an implementation detail); np.max / np.min called with two arrays (the second is the axis).  Zero findings is the expected
    count; the inspected sites are counted."""
    n = 0
    bad = 0
    for q in sorted(qnames):
        f = prog.funcs.get(q)
        if f is None or f.public_module.name.startswith("drf"):
            continue
        for node in ast.walk(f.node):
            if isinstance(node, ast.Call):
                d = dotted_of(node.func) or ""
                if d in ("np.all", "np.any", "numpy.all", "numpy.any", "np.alltrue", "np.sometrue") and node.args:
                    n += 1
                    if isinstance(node.args[0], ast.GeneratorExp):
                        bad += 1
                        rep.bad(rule + ".all-of-generator", fwhere(f, node), "`%s` is the truth value of a generator object (always True), not of its elements" % norm(node)[:80])
                if d in ("np.max", "np.min", "np.amax", "np.amin", "numpy.max", "numpy.min", "numpy.amax", "numpy.amin") and len(node.args) >= 2:
                    n += 1
                    if not isinstance(node.args[1], (ast.Constant, ast.Name, ast.Tuple, ast.UnaryOp)):
                        bad += 1
                        rep.bad(rule + ".max-of-two", fwhere(f, node), "`%s`: the second positional argument of np.max / np.min is the axis, not another array "
                                "(np.maximum / np.minimum compare two arrays)" % norm(node)[:80])
            if isinstance(node, (ast.Assign, ast.AnnAssign, ast.Return)) and isinstance(getattr(node, "value", None), ast.Call) and isinstance(node.value.func, ast.Attribute) \
                    and node.value.func.attr in NONE_METHODS:
                base = dotted_of(node.value.func.value) or ""
                if base.split(".")[0] in ("np", "numpy", "pd", "pandas", "itertools", "functools", "copy", "warnings", "os") or base in ("np.random", "numpy.random") and node.value.func.attr != "shuffle":
                    continue
                if isinstance(node, ast.Return) and node.value.func.attr in ("update", "add", "append", "remove", "insert", "extend"):
                    # `return self.cache.update(...)`-style returns of None are odd but explicit; only assignments lose a value silently
                    continue
                n += 1
                bad += 1
                rep.bad(rule + ".none-returning", fwhere(f, node), "`%s`: .%s() works in place and returns None - the name on the left is None afterwards" % (
                    norm(node)[:80], node.value.func.attr))
            if isinstance(node, ast.Call) and (dotted_of(node.func) or "").split(".")[-1] == "cartesian":
                n += 1
                if not (any(k.arg in ("dtype", "out") for k in node.keywords) or len(node.args) >= 2 or f.name == "cartesian"):
                    bad += 1
                    rep.bad(rule + ".cartesian-dtype", fwhere(f, node), "cartesian(...) without dtype builds an int8 array (the helper's default is np.byte): values and anything "
                            "computed from them (node labels >= 128, flat indices i * p + j) wrap around silently")
            if isinstance(node, (ast.If, ast.IfExp, ast.While)):
                approx = [c for c in ast.walk(node.test) if isinstance(c, ast.Call) and (dotted_of(c.func) or "").split(".")[-1] in ("isclose", "allclose")]
                if approx:
                    n += 1
                    only_raises = isinstance(node, ast.If) and ((node.body and all(isinstance(x, ast.Raise) for x in node.body)) or
                                                                 (node.orelse and all(isinstance(x, ast.Raise) for x in node.orelse)))
                    if not only_raises:
                        bad += 1
                        rep.bad(rule + ".approx-branch", fwhere(f, node), "`%s` decides which computation runs: inputs that are within the (default: rtol 1e-5, atol 1e-8) tolerance "
                                "but not equal - a variance of 1e-9, data with a large offset - silently take the special case" % norm(approx[0])[:70])
            if isinstance(node, (ast.Assign, ast.AugAssign)):
                # x.reshape(-1)[idx] = v / x.ravel()[idx] = v / x.flatten()[idx] = v: the store lands in x only when the reshaped array is a view
                for tg in (node.targets if isinstance(node, ast.Assign) else [node.target]):
                    if isinstance(tg, ast.Subscript) and isinstance(tg.value, ast.Call) and isinstance(tg.value.func, ast.Attribute) and tg.value.func.attr in ("reshape", "ravel", "flatten"):
                        n += 1
                        src = tg.value.func.value
                        # provably C-contiguous: freshly allocated by numpy in this function (zeros / ones / empty / full / arange) or x.copy() (order='C' by default)
                        fresh = False
                        if isinstance(src, ast.Name):
                            for st2 in ast.walk(f.node):
                                if isinstance(st2, ast.Assign) and any(isinstance(t2, ast.Name) and t2.id == src.id for t2 in st2.targets) and isinstance(st2.value, ast.Call):
                                    d2 = dotted_of(st2.value.func) or ""
                                    fresh = d2 in ("np.zeros", "np.ones", "np.empty", "np.full", "np.arange", "numpy.zeros", "numpy.ones", "numpy.empty", "numpy.full") or \
                                        (isinstance(st2.value.func, ast.Attribute) and st2.value.func.attr == "copy" and not st2.value.args and not st2.value.keywords)
                        if tg.value.func.attr == "flatten" or not fresh:
                            bad += 1
                            rep.bad(rule + ".store-into-reshape", fwhere(f, node), "`%s`: %s - the values are written into a temporary and lost" % (
                                norm(tg)[:70], ".flatten() always returns a copy" if tg.value.func.attr == "flatten" else
                                ".%s() returns a copy, not a view, when the array is not C-contiguous (astype / asarray keep the caller's layout: a Fortran-ordered or transposed input)" % tg.value.func.attr))
            if isinstance(node, ast.Compare):
                for op, c in zip(node.ops, node.comparators):
                    if isinstance(op, (ast.Is, ast.IsNot)):
                        n += 1
                        lit = (isinstance(c, ast.Constant) and c.value is not None and not isinstance(c.value, bool) and c.value is not Ellipsis) or \
                            isinstance(c, (ast.List, ast.Tuple, ast.Dict, ast.Set))
                        if lit:
                            bad += 1
                            rep.bad(rule + ".is-literal", fwhere(f, node), "`%s` compares identity with a literal: whether equal ints / strings / containers are the same object "
                                    "is an implementation detail (small-int cache, interning)" % norm(node)[:80])
    if not bad:
        rep.ok(rule, {"file": "-", "line": 0, "function": "(%d functions)" % len(qnames), "construct": "python / numpy traps"},
               "%d candidate sites in the analysed functions, none is one of the known silent traps" % n)


def inferred_dtype_stores(rep, S, f, rule="DTYPE.inferred-target"):
    """`a[i] = v` / `a[i] += v` into an array built by np.array / np.asarray / np.stack ... from run-time data *without* an explicit
    floating dtype: numpy chose the dtype from what the data happened to be (integer noise draws, boolean masks), and a real-valued
    v is truncated on assignment without a word.  Arrays from np.zeros / np.empty / np.ones / np.full (float by default) and
    arrays with dtype=float are fine."""
    loops = {k: v for k, v in S.loopinfo.items()}
    INFER = ("numpy.array", "numpy.asarray", "numpy.asanyarray", "numpy.stack", "numpy.vstack", "numpy.hstack", "numpy.column_stack", "numpy.concatenate")

    def root(t, depth=0):
        while isinstance(t, tuple) and t and depth < 40:
            depth += 1
            if t[0] == "store" or t[0] == "mut" or t[0] == "shuffled":
                t = t[1]
            elif t[0] == "phi":
                a, b = root(t[2], depth), root(t[3], depth)
                return a if a == b else (a if b is None else b if a is None else a)
            elif t[0] == "mu" and t[1] in loops and t[2] in loops[t[1]]["init"]:
                t = loops[t[1]]["init"][t[2]]
            elif t[0] == "method" and t[2] in ("copy", "view") and not t[3]:
                t = t[1]
            else:
                return t
        return t
    n = 0
    hit = False
    for st in S.select("store", qname=f.qname):
        r = root(st.base)
        n += 1
        if isinstance(r, tuple) and len(r) == 4 and r[0] == "ext" and r[1] in INFER:
            dt = dict((k, v) for k, v in r[3] if k != "$draw").get("dtype")
            if dt in FLOAT_TYPES:
                continue
            data = [x for x in walk(r[2]) if isinstance(x, tuple) and x and x[0] in ("apply", "param", "self")]
            val_lossy = not is_const(st.value)
            if data and val_lossy:
                hit = True
                rep.bad(rule, fwhere(f, st.node), "the value is stored into `%s`, whose dtype numpy inferred from the data it was built from (no dtype=float): when that data "
                        "is integer- or boolean-valued the stored real value is truncated silently" % fmt(r)[:80])
        # a working array shaped like the caller's weight matrix but given an integer / boolean dtype explicitly, receiving that matrix's own entries:
        # real weights are truncated (0.4 -> 0: the edge is gone)
        like_ = isinstance(r, tuple) and len(r) == 4 and r[0] == "ext" and r[1] in ("numpy.zeros_like", "numpy.empty_like", "numpy.full_like", "numpy.ones_like") and r[2] and \
            r[2][0][0] == "param" and r[2][0][1] in WEIGHT_PARAMS
        # the same buffer spelled np.zeros(G.shape, dtype=int) / np.zeros((len(G), len(G)), dtype=int)
        shaped_ = isinstance(r, tuple) and len(r) == 4 and r[0] == "ext" and r[1] in ("numpy.zeros", "numpy.empty", "numpy.ones", "numpy.full") and r[2] and \
            [x for x in walk(r[2][0]) if isinstance(x, tuple) and len(x) == 2 and x[0] == "param" and x[1] in WEIGHT_PARAMS]
        if (like_ or shaped_) and not f.name.startswith("_"):
            dt = dict((k, v) for k, v in r[3] if k != "$draw").get("dtype")
            if dt is None and shaped_ and len(r[2]) >= 2 and r[1] != "numpy.full":
                dt = r[2][1]
            src = r[2][0] if like_ else [x for x in walk(r[2][0]) if isinstance(x, tuple) and len(x) == 2 and x[0] == "param" and x[1] in WEIGHT_PARAMS][0]
            v_ = st.value
            from_src = isinstance(v_, tuple) and ((v_[0] == "sub" and v_[1] == src) or v_ == src)
            if dt is not None and dt not in FLOAT_TYPES and dt in NARROW_INT_TYPES and from_src:
                hit = True
                rep.bad("DTYPE.narrow-target", fwhere(f, st.node), "entries of the caller's matrix `%s` are stored into `%s`: a copy with an integer / boolean dtype truncates real weights "
                        "(0.4 becomes 0 and the edge disappears, -1.7 becomes -1)" % (src[1], fmt(r)[:60]))
    return n, hit


WEIGHT_PARAMS = {"A", "G", "P", "W", "B", "pdag", "graph", "cpdag", "dag"}
NARROW_INT_TYPES = {("extref", "int"), ("extref", "bool"), ("extref", "numpy.int64"), ("extref", "numpy.int32"), ("extref", "numpy.intp"), ("extref", "numpy.int_"), ("extref", "numpy.bool_"),
                    ("extref", "numpy.uint8"), ("extref", "numpy.int8"), ("extref", "numpy.byte"), ("const", "int"), ("const", "bool")}


def dtype_store_sweep(rep, prog, interps, rule="DTYPE.inferred-target"):
    """inferred_dtype_stores over every function in which one of the check's symbolic interpreters recorded an in-place store"""
    from ..sym import Sym as _Sym
    total, any_hit, seen = 0, False, set()
    for it in interps:
        if not isinstance(it, _Sym):
            continue
        for q in sorted({x.qname for x in it.facts if x.kind == "store"}):
            f = prog.funcs.get(q)
            if f is None or f.public_module.name.startswith("drf") or (id(it), q) in seen:
                continue
            seen.add((id(it), q))
            n, hit = inferred_dtype_stores(rep, it, f, rule)
            total += n
            any_hit = any_hit or hit
    if not any_hit:
        rep.ok(rule, {"file": "-", "line": 0, "function": "(analysed functions)", "construct": "in-place stores"},
               "%d in-place stores seen by the symbolic interpreters; none goes into an array whose dtype was inferred from run-time data" % total)


def literals(path):
    """path conditions split into literals: `a and b` taken True is a, b taken True; `a or b` taken False is a, b taken False; negations folded"""
    out = []
    for cnd, pol in path:
        while cnd[0] == "unop" and cnd[1] in ("not", "truth"):
            if cnd[1] == "not":
                pol = not pol
            cnd = cnd[2]
        if cnd[0] == "bool" and ((cnd[1] == "and" and pol) or (cnd[1] == "or" and not pol)):
            out += literals([(x, pol) for x in cnd[2]])
        else:
            out.append((cnd, pol))
    return out
