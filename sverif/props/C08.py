"""C08 - the CPDAG is the essential graph of the equivalence class (narrow structural part).

Decided: (PATTERN) dag_to_cpdag / order_edges depend on a weighted DAG only through its zero pattern;
(LABELS) the label constants agree between writer and reader: label_edges starts every edge at the
'unknown' marker, loops exactly while that marker is present, and otherwise writes only 'compelled' and
'reversible'; dag_to_cpdag tests exactly those two constants - compelled edges are copied as x -> y,
reversible ones written in both directions - so every edge of the DAG lands in the CPDAG (skeleton kept);
order_edges uses one 'unlabelled' marker consistently and assigns positive increasing labels that can never
collide with it; (EXTENSION) pdag_to_cpdag = dag_to_cpdag(pdag_to_dag(pdag)) with the ValueError of the
extension search propagating; (INDEX) in pdag_to_dag the shrinking local matrix and the list of real
node names shrink together under the same condition, and every write into the result uses real names
on both axes; (STEP) the passes of order_edges and label_edges role by role: which edge is selected, column vs
row of every lookup, what each branch writes, the end of a pass, and the compelled / reversible choice as a set
predicate over pa(y), {x}, pa(x) in every admissible world; (PATTERN) also for pdag_to_dag / pdag_to_cpdag (the
extension may carry weights, no decision may read them); lints: truth value of node labels, np.isin with a set.
Not decided: that an algorithm of this shape marks exactly the compelled edges (Chickering's theorem).
"""
import ast
from .common import *
from ..pred import npred

EXPLANATION = __doc__


def consts_in(t):
    return {x[1] for x in walk(t) if isinstance(x, tuple) and len(x) == 2 and x[0] == "const" and isinstance(x[1], (int, float)) and not isinstance(x[1], bool)}


def value_consts(t):
    """constants a stored value can take (phi conditions are not values)"""
    if is_const(t):
        return {t[1]} if isinstance(t[1], (int, float)) and not isinstance(t[1], bool) else set()
    if isinstance(t, tuple) and t and t[0] == "phi":
        return value_consts(t[2]) | value_consts(t[3])
    return consts_in(t)


def eq_consts(t, subject_pred):
    """constants c in sub-terms  (subject == c)"""
    out = set()
    for x in walk(t):
        if isinstance(x, tuple) and len(x) == 4 and x[0] == "cmp" and x[1] == "==" and is_const(x[3]) and subject_pred(x[2]):
            out.add(x[3][1])
    return out


def _rechecks_entry(tree, nm, any_name=False):
    """a test of one scalar entry nm[a, b] against something other than the literal 0 (the "is it still unknown" test)"""
    for n in ast.walk(tree):
        if isinstance(n, ast.Compare) and len(n.comparators) == 1:
            for a, b in ((n.left, n.comparators[0]), (n.comparators[0], n.left)):
                if isinstance(a, ast.Subscript) and isinstance(a.value, ast.Name) and (any_name or a.value.id == nm) and isinstance(a.slice, ast.Tuple) and len(a.slice.elts) == 2 \
                        and not any(isinstance(e, ast.Slice) for e in a.slice.elts) and not (isinstance(b, ast.Constant) and b.value == 0):
                    return True
    return False


def stale_work_list(rep, f, loops):
    """a work list of the unknown edges computed once from the label matrix as it was *before* the loop that changes it: edges that get their
    label on the way are processed again (and edges into a settled node relabelled) - whatever the rest of the loop looks like"""
    for lid_, li_x in loops:
        if li_x["test"] is not None or li_x.get("iter") is None:
            continue
        for nm_, initv in li_x["init"].items():
            if isinstance(initv, tuple) and initv and initv[0] == "binop" and any(
                    isinstance(x, tuple) and len(x) == 4 and x[0] == "cmp" and x[1] == "==" and x[2] == initv and is_const(x[3]) for x in walk(li_x["iter"])):
                if _rechecks_entry(f.node, nm_) or _rechecks_entry(li_x["node"], nm_, any_name=True):        # (inside a fused generator the matrix goes by the generator's own parameter name)
                    # `if labelled[x, y] != UNK: continue` inside the loop is Chickering's own formulation (all edges in order, skip the labelled ones)
                    rep.unk("STEP.shape", fwhere(f, li_x["node"]), "the unknown edges are listed once and each is tested again inside the loop; this formulation of the labelling loop is not read")
                    return True
                rep.bad("STEP.select", fwhere(f, li_x["node"]), "the loop runs over the edges that were unknown in `%s` *before* the loop (%s is computed once): an edge labelled in an "
                        "earlier round is processed again with an earlier parent, and every edge into its head may be relabelled compelled" % (nm_, fmt(li_x["iter"])[:60]))
                return True
    return False


def label_rules(rep, prog):
    q = U + "label_edges"
    f = need(prog, q)
    S = Sym(prog)
    run_function(S, f)
    loops = sorted([(k, v) for k, v in S.loopinfo.items() if v["func"] == q], key=lambda kv: kv[0][1])
    main = [kv for kv in loops if kv[1]["test"] is not None]
    if len(main) != 1:
        if stale_work_list(rep, f, loops):
            return None
        raise Inconclusive("label_edges: expected one `while unknown edges remain` loop", f.node)
    lid, li = main[0]
    names = [k for k in li["init"] if li["init"][k][0] == "binop"]
    if len(names) != 1:
        raise Inconclusive("label_edges: label matrix not initialised as pattern * marker", f.node)
    nm = names[0]
    init = li["init"][nm]
    pat = ("method", ("cmp", "!=", ("param", "ordered"), ("const", 0)), "astype", (("extref", "int"),), ())
    marker = None
    if init[1] == "*" and pat in (init[2], init[3]):
        other = init[3] if init[2] == pat else init[2]
        if is_const(other):
            marker = other[1]
    test = li["test"]
    tested = eq_consts(test, lambda s: s == ("mu", lid, nm))
    ok = marker is not None and tested == {marker} and test[0] == "method" and test[2] == "any"
    rep.check("LABELS.unknown", ok, fwhere(f, li["node"]), "every edge starts as 'unknown' (%s) and the loop runs exactly while an unknown edge remains" % marker,
              "the unknown marker is inconsistent: init %s, loop tests %s" % (fmt(init)[:60], sorted(tested)))
    written = set()
    for st in S.select("store", qname=q):
        if any(isinstance(x, tuple) and x[0] in ("mu", "after") and x[-1] == nm for x in walk(st.base)) or st.base[0] in ("mu", "after") and st.base[-1] == nm:
            written |= value_consts(st.value)
    return marker, written, f


def step_rules(rep, prog, marker, com, rev):
    """The passes of label_edges, role by role (Chickering 1995, LABEL-EDGES, as implemented here and confirmed by reading):
    pick the unknown edge x -> y; for every compelled w -> x: if w is not a parent of y, compel every edge into y and end
    the pass, otherwise compel w -> y; then, unless the pass ended, every still unknown edge into y becomes compelled if some
    parent z of y other than x is not a parent of x, reversible otherwise.  All matrix accesses are [from, to]."""
    from ..setpred import SetAlg
    q = U + "label_edges"
    f = need(prog, q)
    S = Sym(prog, inline=inline_helpers(prog, "sempler.utils"))
    run_function(S, f)
    loops = sorted([(k, v) for k, v in S.loopinfo.items() if v["func"] == q], key=lambda kv: kv[0][1])
    outer = [kv for kv in loops if kv[1]["test"] is not None]
    inner = [kv for kv in loops if kv[1]["test"] is None]
    if len(outer) != 1 or len(inner) != 1:
        if stale_work_list(rep, f, loops):
            return
        rep.unk("STEP.shape", fwhere(f), "label_edges is no longer `while unknown: ... for w in compelled-into-x: ...`; the step rules do not read this idiom")
        return
    (lo, lout), (li_, lin) = outer[0], inner[0]
    names = [k for k in lout["init"] if lout["init"][k][0] == "binop"]
    if len(names) != 1:
        rep.unk("STEP.shape", fwhere(f), "label matrix not identified")
        return
    nm = names[0]
    LAB = ("LAB",)

    def is_state(t):
        if not isinstance(t, tuple) or not t:
            return False
        if t[0] in ("mu", "after") and t[-1] == nm:
            return True
        if t[0] == "store":
            return is_state(t[1])
        if t[0] == "phi":
            return is_state(t[2]) and is_state(t[3])
        return False

    def ab(t):
        """the term with every state of the label matrix replaced by LAB"""
        if is_state(t):
            return LAB
        if isinstance(t, tuple):
            return tuple(ab(x) for x in t)
        return t
    # --- the selected edge
    sel = None
    for fact in S.facts:
        if fact.qname == q and fact.kind == "call" and fact.callkind == "ext" and fact.target == "numpy.unravel_index":
            sel = fact
    if sel is None:
        rep.unk("STEP.select", fwhere(f), "the unknown edge is not selected with np.unravel_index(np.argmax(.), shape)")
        return
    x, y = ("sub", sel.result, ("const", 0)), ("sub", sel.result, ("const", 1))
    am = sel.args[0] if sel.args else ("const", None)
    unk_mask = ("cmp", "==", LAB, ("const", marker))
    okm = am[0] == "ext" and am[1] == "numpy.argmax" and len(am[2]) == 1 and any(z == ("param", "ordered") for z in walk(am[2][0])) and \
        any(z == unk_mask for z in walk(ab(am[2][0])))
    neg_inf = [st for st in S.select("store", qname=q) if not is_state(st.base) and st.value in (("unop", "neg", ("extref", "numpy.inf")), ("unop", "-", ("extref", "numpy.inf")))]
    # the same selection without the float round trip: np.where(labelled == UNK, ordered, c) with c <= 0 (the order numbers are >= 1: ORDER.marker)
    arg_ = ab(am[2][0]) if am[0] == "ext" and am[1] == "numpy.argmax" and len(am[2]) == 1 else None
    where_form = arg_ is not None and arg_[0] == "ext" and arg_[1] == "numpy.where" and len(arg_[2]) == 3 and arg_[2][0] == unk_mask and arg_[2][1] == ("param", "ordered") and \
        ((is_const(arg_[2][2]) and isinstance(arg_[2][2][1], (int, float)) and not isinstance(arg_[2][2][1], bool) and arg_[2][2][1] <= 0) or
         arg_[2][2] in (("unop", "neg", ("extref", "numpy.inf")), ("unop", "-", ("extref", "numpy.inf"))))
    if okm and not (len(neg_inf) == 1 or where_form) and not neg_inf:
        rep.unk("STEP.select", fwhere(f, sel.node), "the arg-max runs over an expression of `ordered` and the unknown mask (%s): how the other entries are excluded is not read" % fmt(arg_)[:80])
    else:
        rep.check("STEP.select", okm and (len(neg_inf) == 1 or where_form), fwhere(f, sel.node), "(x, y) = position of the largest order number among the still unknown edges (others masked out)",
                  "the edge to process is not the arg-max of `ordered` over the unknown edges")
    ax, ay = ab(x), ab(y)
    FULL = ("slice", ("const", None), ("const", None), ("const", None))

    def col_where(node, label):
        return ("sub", ("ext", "numpy.where", (("cmp", "==", ("sub", LAB, ("tuple", (FULL, node))), ("const", label)),), ()), ("const", 0))
    # --- compelled edges into x
    rep.check("STEP.compelled-into-x", ab(lin["iter"]) == col_where(ax, com), fwhere(f, lin["node"]), "w ranges over the nodes with a compelled edge w -> x (column x of the labels)",
              "the inner loop runs over %s, not over the compelled edges into x" % fmt(ab(lin["iter"]))[:90])
    w = ab(("elem", lin["iter"]))
    tests = [t for t in S.select("test", qname=q) if t.loops and t.loops[-1] == li_]
    stores = [st for st in S.select("store", qname=q) if is_state(st.base)]
    in_stores = [st for st in stores if st.loops and st.loops[-1] == li_]
    fin_stores = [st for st in stores if st.loops == (lo,)]
    notpar = ("cmp", "==", ("sub", LAB, ("tuple", (w, ay))), ("const", 0))
    okt = len(tests) == 1 and npred(ab(tests[0].term), True) in (npred(notpar, True), npred(notpar, False))
    rep.check("STEP.parent-test", okt, fwhere(f, tests[0].node if tests else lin["node"]), "each compelled w -> x is tested for `w -> y` by reading labels[w, y]",
              "the test inside the pass is %s, not whether labels[w, y] is an edge" % (fmt(ab(tests[0].term))[:80] if tests else "missing"))
    if okt:
        T0 = tests[0].term
        while isinstance(T0, tuple) and len(T0) == 3 and T0[0] == "unop" and T0[1] == "not":
            T0 = T0[2]                      # path conditions are recorded without leading `not` (the polarity carries it)

        def branch(st, not_parent):
            for cnd, pol in st.path:
                if cnd == T0:
                    return (npred(ab(cnd), pol) == npred(notpar, True)) == not_parent
            return False
        pay = ("call", U + "pa", (ay, LAB), (("A", LAB), ("i", ay)))
        all_in = [st for st in in_stores if branch(st, True)]
        one = [st for st in in_stores if branch(st, False)]
        ok1 = len(all_in) == 1 and ab(all_in[0].idx) in (("tuple", (("ext", "list", (pay,), ()), ay)), ("tuple", (("ext", "sorted", (pay,), ()), ay))) and is_const(all_in[0].value, com)
        rep.check("STEP.compel-all", ok1, fwhere(f, all_in[0].node if all_in else tests[0].node), "w not a parent of y: every edge into y becomes compelled (labels[pa(y), y] = %s)" % com,
                  "the `w is not a parent of y` branch does not compel all edges into y: %s" % (fmt(ab(all_in[0].idx))[:80] if all_in else "no store"))
        ok2 = len(one) == 1 and ab(one[0].idx) == ("tuple", (w, ay)) and is_const(one[0].value, com) and len(in_stores) == 2
        rep.check("STEP.compel-w", ok2, fwhere(f, one[0].node if one else tests[0].node), "otherwise w -> y becomes compelled (labels[w, y] = %s)" % com,
                  "the `w is a parent of y` branch does not compel exactly w -> y: %s" % (fmt(ab(one[0].idx))[:80] if one else "no store"))
        # the pass ends after compel-all: a flag that is False at loop entry and True exactly on the break path guards the last step
        flags = [k for k, v in lin["init"].items() if is_const(v, False) and any(is_const(b.get(k, ("const", None)), True) for b in lin["breaks"])]
        brk = len(lin["breaks"]) == 1 and any((T0, pol) in lin["breaks"][0].get("$path", ()) and (npred(ab(T0), pol) == npred(notpar, True)) for pol in (True, False))
        guarded = bool(fin_stores) and bool(flags) and all(any(npred(cnd, pol) == npred(("after", li_, flags[0]), False) for cnd, pol in st.path) for st in fin_stores)
        if not guarded and fin_stores and getattr(lin["node"], "orelse", None):
            # `for w in ...: ... break` / `else: <last step>`: the else suite runs exactly when the loop was not left by break
            inside = {id(x) for st_ in lin["node"].orelse for x in ast.walk(st_)}
            guarded = all(id(st.node) in inside or any(id(x) in inside for x in ast.walk(st.node)) for st in fin_stores)
        rep.check("STEP.end-of-pass", brk and guarded, fwhere(f, lin["node"]), "after compelling all edges into y the pass ends: the loop is left and the last step is skipped",
                  "the pass is not ended after `compel all edges into y` (break / flag / guard of the last step changed)")
    # --- the last step
    if len(fin_stores) != 1:
        rep.bad_form("STEP.last", fwhere(f), "expected one store for the remaining unknown edges into y, found %d" % len(fin_stores))
        return
    st = fin_stores[0]
    rep.check("STEP.unknown-into-y", ab(st.idx) == ("tuple", (col_where(ay, marker), ay)), fwhere(f, st.node), "the last step relabels exactly the still unknown edges into y (column y)",
              "the last step writes %s" % fmt(ab(st.idx))[:100])
    v = ab(st.value)
    if not (v[0] == "phi" and {v[2], v[3]} == {("const", com), ("const", rev)}):
        rep.bad("STEP.z-exists", fwhere(f, st.node), "the last step does not choose between compelled (%s) and reversible (%s): %s" % (com, rev, fmt(v)[:80]))
        return
    cond, when_true_com = v[1], v[2] == ("const", com)
    pax = ("call", U + "pa", (ax, LAB), (("A", LAB), ("i", ax)))
    pay = ("call", U + "pa", (ay, LAB), (("A", LAB), ("i", ay)))
    sx = ("set", (ax,))
    alg = SetAlg([pay, sx, pax])
    try:
        used = {z for z in walk(cond) if isinstance(z, tuple) and z and (z[0] == "call" or z[0] == "set")}
        if not used <= {pay, sx, pax}:
            raise Inconclusive("uses other sets than pa(y), {x}, pa(x): %s" % [fmt(u)[:30] for u in used - {pay, sx, pax}])
        witness = None
        n = 0
        for wd in alg.worlds():
            # admissible worlds: x is one node, a parent of y (x -> y is the selected edge) and not its own parent
            if not all(wd[r] == (r == (True, True, False)) for r in alg.regions if r[1]):
                continue
            n += 1
            spec = alg.nonempty(("binop", "-", ("binop", "-", pay, sx), pax), wd)
            got = alg.truth(cond, wd)
            if (got if when_true_com else not got) != spec:
                witness = wd
                break
        rep.check("STEP.z-exists", witness is None, fwhere(f, st.node),
                  "unknown edges into y become compelled iff some parent z of y, z != x, is not a parent of x - in all %d admissible worlds of pa(y), {x}, pa(x)" % n,
                  "the compelled / reversible decision deviates from `pa(y) - {x} - pa(x) is non-empty`: %s" % (
                      "; ".join("%s: %s" % ("/".join(("" if m else "not ") + nmz for nmz, m in zip(("pa(y)", "{x}", "pa(x)"), r)), "non-empty" if inh else "empty")
                                for r, inh in (witness or {}).items())))
    except Inconclusive as e:
        rep.unk("STEP.z-exists", fwhere(f, st.node), "the compelled / reversible decision is not a set predicate over pa(y), {x}, pa(x): %s" % e.why)


def assemble_rules(rep, prog, marker, written, flabel):
    q = U + "dag_to_cpdag"
    f = need(prog, q)
    S = Sym(prog)
    summ, _ = run_function(S, f)
    lab = ("call", U + "label_edges", (("call", U + "order_edges", (("param", "G"),), (("G", ("param", "G")),)),),
           (("ordered", ("call", U + "order_edges", (("param", "G"),), (("G", ("param", "G")),))),))
    stores = S.select("store", qname=q)
    masked = [s for s in stores if s.idx[0] == "cmp"]
    pairs = [s for s in stores if s.idx[0] == "tuple"]
    ok, why = False, "assembly not recognised"
    com = rev = None
    if len(masked) == 1 and len(pairs) == 2:
        m = masked[0]
        if m.idx[1] == "==" and m.idx[2] == lab and is_const(m.idx[3]) and m.base == ("ext", "numpy.zeros_like", (lab,), ()):
            com = m.idx[3][1]
            copied = m.value == ("sub", lab, m.idx) and com == 1 or is_const(m.value, 1)
            w = [x for x in walk(pairs[0].idx) if isinstance(x, tuple) and x[0] == "ext" and x[1] == "numpy.where"]
            if w and w[0][2][0][0] == "cmp" and w[0][2][0][2] == lab and is_const(w[0][2][0][3]):
                rev = w[0][2][0][3][1]
                wh = w[0]
                x_, y_ = ("elem", ("sub", wh, ("const", 0))), ("elem", ("sub", wh, ("const", 1)))
                xs_, ys_ = ("sub", wh, ("const", 0)), ("sub", wh, ("const", 1))          # the vectorised form: cpdag[fros, tos] = 1 ; cpdag[tos, fros] = 1
                both = {s.idx for s in pairs} in ({("tuple", (x_, y_)), ("tuple", (y_, x_))}, {("tuple", (xs_, ys_)), ("tuple", (ys_, xs_))}) and all(is_const(s.value, 1) for s in pairs)
                ok = copied and both
                why = "compelled=%s copied=%s reversible=%s both-directions=%s" % (com, copied, rev, both)
    recognised = why != "assembly not recognised"
    if not recognised:
        # every store present is a piece of the form above, but the set of pieces is not the full one: a decided deviation
        def piece(s_):
            if s_.idx[0] == "cmp":
                return s_.idx[1] == "==" and s_.idx[2] == lab and is_const(s_.idx[3])
            w_ = [x for x in walk(s_.idx) if isinstance(x, tuple) and x[0] == "ext" and x[1] == "numpy.where"]
            return s_.idx[0] == "tuple" and bool(w_) and w_[0][2][0][0] == "cmp" and w_[0][2][0][2] == lab
        if all(piece(s_) for s_ in stores) and (len(masked), len(pairs)) in ((0, 2), (1, 1), (1, 0), (0, 1)):
            recognised = True
            why = "assembly incomplete: %d mask store(s) of compelled edges (1 expected), %d index store(s) of reversible edges (2 expected)" % (len(masked), len(pairs))
    if not ok and stores and not pairs and all(s_.aug is None for s_ in stores):
        # mask assignments only, e.g. cpdag[lab == c] = 1 ; cpdag[lab == r] = 1 ; cpdag[(lab == r).T] = 1 (or one store with `|`): the stores are
        # replayed, in order, on every feasible pair of labels (l_ij, l_ji) of a DAG - at most one of the two is an edge
        zl = ("ext", "numpy.zeros_like", (lab,), ())

        def eqc(t_):
            return t_[3][1] if isinstance(t_, tuple) and len(t_) == 4 and t_[0] == "cmp" and t_[1] == "==" and t_[2] == lab and is_const(t_[3]) else None

        def mask_sem(t_):
            """[(label constant, transposed?)]: the entry (i, j) is selected when l_ij (or, transposed, l_ji) equals the constant"""
            if eqc(t_) is not None:
                return [(eqc(t_), False)]
            if isinstance(t_, tuple) and ((t_[0] == "attr" and t_[2] == "T") or (t_[0] == "ext" and t_[1] == "numpy.transpose" and len(t_[2]) == 1 and not t_[3])):
                inner = mask_sem(t_[1] if t_[0] == "attr" else t_[2][0])
                return None if inner is None else [(k_, not tr_) for k_, tr_ in inner]
            if isinstance(t_, tuple) and ((t_[0] == "ext" and t_[1] == "numpy.logical_or" and len(t_[2]) == 2) or (t_[0] == "binop" and t_[1] == "|")):
                a_, b_ = (t_[2] if t_[0] == "ext" else (t_[2], t_[3]))
                ma, mb = mask_sem(a_), mask_sem(b_)
                return None if ma is None or mb is None else ma + mb
            return None
        seq = sorted(stores, key=lambda s_: s_.order)
        sems, vals, chain = [], [], True
        for k_, s_ in enumerate(seq):
            sems.append(mask_sem(s_.idx))
            vals.append(("const", s_.value[1]) if is_const(s_.value) and isinstance(s_.value[1], (int, float)) else ("copy",) if s_.value == ("sub", lab, s_.idx) and eqc(s_.idx) is not None else None)
            chain = chain and (s_.base == zl if k_ == 0 else (s_.base[0] == "store" and s_.base[1] == seq[k_ - 1].base))
        if all(m_ is not None for m_ in sems) and all(v_ is not None for v_ in vals) and chain:
            consts = sorted({k_ for m_ in sems for k_, _ in m_})

            def replay(l_ij, l_ji):
                out = []
                for a_, b_ in ((l_ij, l_ji), (l_ji, l_ij)):
                    v_ = 0
                    for m_, val in zip(sems, vals):
                        if any((b_ if tr_ else a_) == k_ for k_, tr_ in m_):
                            v_ = a_ if val == ("copy",) else val[1]
                    out.append(v_)
                return tuple(out)
            behaviour = {k_: replay(k_, 0) for k_ in consts if k_ != 0}
            coms = [k_ for k_, r_ in behaviour.items() if r_ == (1, 0)]
            revs = [k_ for k_, r_ in behaviour.items() if r_ == (1, 1)]
            recognised = True
            ok = len(coms) == 1 and len(revs) == 1 and len(behaviour) == 2 and replay(0, 0) == (0, 0)
            if ok:
                com, rev = coms[0], revs[0]
            why = "mask form: an edge labelled k gives the entries (x->y, y->x) = %s" % behaviour
    if not ok and not recognised:
        rep.unk("LABELS.assembly", fwhere(f), "the CPDAG is assembled from the labels in a form these rules do not read")
    else:
        rep.check("LABELS.assembly", ok, fwhere(f), "compelled edges are copied as x -> y (entry 1), reversible ones set in both directions",
                  "CPDAG assembly deviates: " + why)
    if ok:
        final = written - {marker}
        rep.check("LABELS.agree", {com, rev} == final and com != rev, fwhere(f), "the assembler reads exactly the labels the labeller writes: compelled=%s, reversible=%s" % (com, rev),
                  "label constants disagree: label_edges writes %s (unknown=%s), dag_to_cpdag reads compelled=%s reversible=%s - edges with an unread label vanish from the CPDAG" % (
                      sorted(final), marker, com, rev))
    rets = S.select("return", qname=q)
    zl_ = ("ext", "numpy.zeros_like", (lab,), ())
    no_labels = [npred(("method", lab, "any", (), ()), False), npred(("ext", "numpy.any", (lab,), ()), False), npred(("cmp", "==", ("method", lab, "sum", (), ()), ("const", 0)), True),
                 npred(("cmp", "==", ("ext", "numpy.count_nonzero", (lab,), ()), ("const", 0)), True)]
    main_rets = [r_ for r_ in rets if not (r_.value == zl_ and r_.path and npred(r_.path[-1][0], r_.path[-1][1]) in no_labels)]      # `if not labelled.any(): return zeros`: the empty graph
    if len(main_rets) == 1 and len(rets) - len(main_rets) <= 1:
        rv_ = main_rets[0].value
        while (rv_[0] == "method" and rv_[2] == "copy" and not rv_[3]) or (rv_[0] == "ext" and rv_[1] in ("numpy.array", "numpy.copy") and len(rv_[2]) == 1 and not rv_[3]):
            rv_ = rv_[1] if rv_[0] == "method" else rv_[2][0]
        if rv_[0] == "after" or (ok and rv_[0] in ("store", "phi")):
            rep.ok("LABELS.result", fwhere(f), "returns the assembled matrix")
        elif rv_ in (lab, zl_, ("param", "G")) or (rv_[0] == "call" and rv_[1] in (U + "order_edges", U + "label_edges")) or is_const(rv_):
            rep.bad("LABELS.result", fwhere(f), "result is not the assembled matrix: %s" % fmt(rv_)[:80])
        else:
            rep.unk("LABELS.result", fwhere(f), "what dag_to_cpdag returns (%s) is not the local matrix the assembly fills: not read" % fmt(rv_)[:80])
    else:
        rep.unk("LABELS.result", fwhere(f), "dag_to_cpdag has %d return statements; which of them hand out the assembled matrix is not read" % len(rets))
    return (com, rev) if ok else (None, None)


def order_rules(rep, prog):
    q = U + "order_edges"
    f = need(prog, q)
    S = Sym(prog)
    run_function(S, f)
    loops = [(k, v) for k, v in S.loopinfo.items() if v["func"] == q and v["test"] is not None]
    if len(loops) != 1:
        raise Inconclusive("order_edges: expected one labelling loop", f.node)
    lid, li = loops[0]
    G = ("param", "G")
    pat = ("method", ("cmp", "!=", G, ("const", 0)), "astype", (("extref", "int"),), ())
    mats = [k for k, v in li["init"].items() if v[0] == "binop" and v[1] == "*" and pat in (v[2], v[3])]
    cnts = [k for k, v in li["init"].items() if is_const(v) and isinstance(v[1], int)]
    if len(mats) != 1 or len(cnts) != 1:
        raise Inconclusive("order_edges: state is not (pattern * marker, counter)", f.node)
    m, c = mats[0], cnts[0]
    init = li["init"][m]
    other = init[3] if init[2] == pat else init[2]
    marker = other[1] if is_const(other) else None
    mu = ("mu", lid, m)
    used = eq_consts(li["test"], lambda s: s == mu)
    for fact in S.facts:
        if fact.qname == q and fact.kind == "call" and lid in fact.loops:
            for a in fact.args:
                used |= eq_consts(a, lambda s: s == mu or (s[0] == "sub" and s[1] == mu))
    start = li["init"][c][1]
    inc = li["next"][c] in (("binop", "+", ("mu", lid, c), ("const", 1)), ("binop", "+", ("const", 1), ("mu", lid, c)))
    st = [s for s in S.select("store", qname=q) if s.base == mu]
    ok = marker is not None and used == {marker} and marker < 0 < start and inc and len(st) == 1 and st[0].value == ("mu", lid, c)
    rep.check("ORDER.marker", ok, fwhere(f, li["node"]), "one 'unlabelled' marker (%s) used consistently; labels are %s, %s+1, ... > 0, never the marker" % (marker, start, start),
              "unlabelled marker / labels inconsistent: marker %s, tests %s, labels start %s, increment by one: %s" % (marker, sorted(used), start, inc))
    topo = [c_ for c_ in S.select("call", qname=q) if c_.target == U + "topological_ordering" and len(c_.args) == 1 and (c_.args[0] == G or derives_patternwise(c_.args[0], "G"))]
    rep.check("ORDER.topological", len(topo) == 1, fwhere(f), "edges are ordered along topological_ordering(G)", "order_edges does not use the topological order of G")
    # --- which edge gets the next label (roles; all accesses are [from, to])
    if len(st) != 1 or len(topo) != 1 or marker is None:
        return
    LAB = ("LAB",)

    def ab(t):
        if t == mu:
            return LAB
        return tuple(ab(z) for z in t) if isinstance(t, tuple) else t
    TO = topo[0].result
    FULL = ("slice", ("const", None), ("const", None), ("const", None))
    idx = ab(st[0].idx)
    if not (idx[0] == "tuple" and len(idx[1]) == 2):
        rep.bad_form("STEP.order-store", fwhere(f, st[0].node), "the label is not stored at a single [x, y] position")
        return
    x, y = idx[1]

    REV = (("ext", "reversed", (TO,), ()), ("sub", TO, ("slice", ("const", None), ("const", None), ("const", -1))),
           ("sub", TO, ("slice", ("const", None), ("const", None), ("unop", "neg", ("const", 1)))))
    REV = REV + tuple(("ext", w_, (r_,), ()) for r_ in REV for w_ in ("list", "tuple", "numpy.array"))
    TOS = (TO, ("ext", "list", (TO,), ()), ("ext", "numpy.array", (TO,), ()), ("ext", "numpy.asarray", (TO,), ()))

    def is_position_map(P):
        """P[node] = position of node in the topological order (the inverse permutation), as a dict or an array"""
        if P[0] == "comp" and P[1] == "dict" and len(P[3]) == 1 and not P[3][0][2] and P[3][0][1] in [("ext", "enumerate", (t_,), ()) for t_ in TOS]:
            t_ = P[3][0][1][2][0]
            return P[2] == ("pair", ("elem", t_), ("idx", t_))
        if P[0] == "store" and P[2] in TOS and P[4] is None and P[1][0] == "ext" and P[1][1] in ("numpy.zeros", "numpy.empty") and P[3][0] == "ext" and \
                P[3][1] in ("numpy.arange", "range") and len(P[3][2]) == 1:
            n_ = [("ext", "len", (t_,), ()) for t_ in TOS]
            return P[3][2][0] in n_ and P[1][2][:1] and P[1][2][0] in n_
        if P[0] == "ext" and P[1] == "numpy.argsort" and len(P[2]) == 1 and not P[3]:
            return P[2][0] in TOS
        return False

    def key_kind(K):
        """'position' | 'order-value' | None for the key function of min / max"""
        if K[0] == "attr" and K[2] in ("__getitem__", "get") and is_position_map(K[1]):
            return "position"
        if K[0] == "attr" and K[2] == "index" and K[1] in TOS[1:2]:
            return "position"
        if K[0] == "attr" and K[2] == "__getitem__" and K[1] in TOS:
            return "order-value"
        if K[0] == "closure":
            from ..sym import CLOSURES
            clo = CLOSURES.get((K[1], K[2]))
            if clo is None:
                return None
            try:
                body = T(S.call_closure(clo, [("$n",)], {}, clo.node, {}, S.module_ctx(f.module)))
            except Inconclusive:
                return None
            body = ab(body)
            if body[0] == "sub" and body[2] == ("$n",):
                if is_position_map(body[1]):
                    return "position"
                if body[1] in TOS:
                    return "order-value"
            if body[0] == "method" and body[2] == "index" and body[3] == (("$n",),) and body[1] in TOS:
                return "position"
        return None

    def choice(t):
        """the node picked out of a candidate list -> (candidates, 'first' | 'last' in topological order) | (candidates, ('bad', why)) | (None, None)"""
        if t[0] == "sub" and is_const(t[2], 0) and t[1][0] == "call" and t[1][1] == U + "sort":
            named = dict(t[1][3])
            o_ = named.get("order")
            return named.get("L"), ("first" if o_ == TO else "last" if o_ in REV else ("bad", "sorted along %s" % fmt(o_)[:60]))
        if t[0] == "ext" and t[1] in ("min", "max") and len(t[2]) == 1 and set(dict(t[3])) == {"key"}:
            kk = key_kind(dict(t[3])["key"])
            if kk == "position":
                return t[2][0], ("first" if t[1] == "min" else "last")
            if kk == "order-value":
                return t[2][0], ("bad", "%s(..., key=order[node]) compares the nodes *found at* positions `node`, not the positions of the nodes" % t[1])
        if t[0] == "sub" and t[2][0] == "ext" and t[2][1] in ("numpy.argmin", "numpy.argmax") and len(t[2][2]) == 1 and not t[2][3]:
            a_ = t[2][2][0]
            if a_[0] == "sub" and a_[2] == t[1] and is_position_map(a_[1]):
                return t[1], ("first" if t[2][1].endswith("argmin") else "last")
            if a_[0] == "sub" and a_[2] == t[1] and a_[1] in TOS:
                return t[1], ("bad", "%s over order[candidates] compares the nodes found at those positions, not the positions of the candidates" % t[2][1].split(".")[-1])
        return None, None
    Ly, endy = choice(y)
    Lx, endx = choice(x)
    unl = ("cmp", "==", LAB, ("const", marker))
    oky = Ly is not None and endy == "last" and any(z == ("ext", "numpy.where", (unl,), ()) for z in walk(Ly)) and \
        ({z[2] for z in walk(Ly) if isinstance(z, tuple) and len(z) == 3 and z[0] == "sub" and z[1] == ("ext", "numpy.where", (unl,), ())} in ({("const", 0), ("const", 1)}, {("const", 1)}))
    if Ly is None:
        rep.unk("STEP.order-y", fwhere(f, st[0].node), "the choice of y is not written as the first / last of a candidate list along the topological order: %s is not read" % fmt(y)[:80])
    else:
        rep.check("STEP.order-y", oky, fwhere(f, st[0].node), "y = the last node, in topological order, with an unlabelled edge",
                  "y is chosen as %s%s" % (fmt(y)[:100], ": " + endy[1] if isinstance(endy, tuple) else ""))
    want_Lx = ("sub", ("ext", "numpy.where", (("cmp", "==", ("sub", LAB, ("tuple", (FULL, y))), ("const", marker)),), ()), ("const", 0))
    okx = Lx == want_Lx and endx == "first"
    if Lx is None:
        rep.unk("STEP.order-x", fwhere(f, st[0].node), "the choice of x is not written as the first / last of a candidate list along the topological order: %s is not read" % fmt(x)[:80])
    else:
        rep.check("STEP.order-x", okx, fwhere(f, st[0].node), "x = the first node, in topological order, among the unlabelled parents of y (column y)",
                  "x is chosen as %s%s" % (fmt(x)[:100], ": " + endx[1] if isinstance(endx, tuple) else ""))


def ordering_typing(rep, prog, qnames):
    """A topological ordering is a map position -> node.  Indexing it with node labels (indices that come out
    of np.where on an adjacency-shaped matrix, or out of pa / ch / neighbors ...) confuses the permutation with
    its inverse; legitimate uses iterate it, reverse it, hand it to sort(L, order) or index it by positions."""
    NODE_SOURCES = {U + n for n in ("pa", "ch", "neighbors", "adj", "na", "ancestors", "descendants")}
    for q in qnames:
        f = need(prog, q)
        S = Sym(prog)
        run_function(S, f)
        topo = {c.result for c in S.select("call", qname=q) if c.target == U + "topological_ordering"}
        if not topo:
            continue

        def is_ordering(t):
            while isinstance(t, tuple) and t and ((t[0] == "ext" and t[1] in ("numpy.array", "numpy.asarray", "list", "tuple", "reversed") and t[2]) or
                                                  (t[0] == "sub" and t[2][0] == "slice")):
                t = t[2][0] if t[0] == "ext" else t[1]
            return t in topo
        bad = []
        terms = []
        for fact in S.facts:
            if fact.qname != q:
                continue
            terms += [getattr(fact, "value", None), getattr(fact, "idx", None)] + list(getattr(fact, "args", []) or [])
        for li in S.loopinfo.values():
            if li["func"] == q:
                terms += list(li["next"].values())
        for t in terms:
            if t is None:
                continue
            for x in walk(t):
                if isinstance(x, tuple) and len(x) == 3 and x[0] == "sub" and is_ordering(x[1]) and x[2][0] != "slice":
                    idx = x[2]
                    nodeish = any(isinstance(y, tuple) and ((y[0] == "ext" and y[1] in ("numpy.where", "numpy.nonzero", "numpy.argwhere")) or
                                                            (y[0] == "call" and y[1] in NODE_SOURCES)) for y in walk(idx))
                    if nodeish:
                        bad.append(x)
        if bad:
            rep.bad("INDEX.ordering", fwhere(f), "the topological ordering (position -> node) is indexed with node labels: %s - the permutation is used as if it were its inverse" % fmt(bad[0])[:120])
        else:
            rep.ok("INDEX.ordering", fwhere(f), "the ordering is only iterated / reversed / passed to sort(L, order) or indexed by positions")


def extension_rules(rep, prog, pipeline=True):
    if pipeline:
        pipeline_rules(rep, prog)
    search_rules(rep, prog)


def pipeline_rules(rep, prog):
    q = U + "pdag_to_cpdag"
    f = need(prog, q)
    S = Sym(prog)
    summ, _ = run_function(S, f)
    pd = ("param", "pdag")
    ext_ = ("call", U + "pdag_to_dag", (pd,), (("P", pd),))
    calls = [c for c in S.select("call", qname=q) if c.target == U + "pdag_to_dag"]
    handled = any(t in ("*", "ValueError", "Exception", "BaseException") for c in calls for _, ts in getattr(c, "in_try", []) for t in ts)
    ok = len(calls) == 1 and not handled and not calls[0].path and T(summ.ret) == ("call", U + "dag_to_cpdag", (ext_,), (("G", ext_),))
    (rep.decide if handled else rep.check)("EXTENSION.pipeline", ok, fwhere(f), "pdag_to_cpdag = dag_to_cpdag(pdag_to_dag(pdag)); the ValueError of the extension search propagates",
              "pdag_to_cpdag swallows the ValueError or does not complete the extension it found")


def _comp_names(t):
    """target names of the comprehensions inside a term (the name is part of a comp term; the rule does not care which it is)"""
    out = {g[0] for x in walk(t) if isinstance(x, tuple) and len(x) == 4 and x[0] == "comp" for g in x[3]} if t is not None else set()
    return sorted(out) or ["j"]


def search_rules(rep, prog):
    """the consistent-extension search pdag_to_dag: one ValueError exit, the local matrix and the list of real node names shrink together, the
    removed sink's undirected edges are oriented towards it under real names (shared with C09)"""
    q2 = U + "pdag_to_dag"
    f2 = need(prog, q2)
    S2 = Sym(prog)
    run_function(S2, f2)
    rs = [r for r in S2.select("raise", qname=q2) if r.exctype == "ValueError"]
    rep.check("EXTENSION.raises", len(rs) == 1, fwhere(f2, rs[0].node if rs else None), "pdag_to_dag raises ValueError when no admissible sink is found", "pdag_to_dag has no ValueError exit")
    # index typing
    loops = sorted([(k, v) for k, v in S2.loopinfo.items() if v["func"] == q2 and v["test"] is not None], key=lambda kv: kv[0][1])
    scan_for = None
    if len(loops) == 1:
        # the scan for a sink written as `for i in range(len(P)): ... break` (with the failure in the loop's else suite) instead of a while with a counter
        lo1 = loops[0][0]
        fl = [(k, v) for k, v in S2.loopinfo.items() if v["func"] == q2 and v["test"] is None and v["iter"] is not None and len(v["breaks"]) == 1 and
              v["iter"][0] == "ext" and v["iter"][1] == "range" and len(v["iter"][2]) == 1 and v["iter"][2][0][0] == "ext" and v["iter"][2][0][1] == "len"]
        if len(fl) == 1:
            scan_for = fl[0]
            loops = [loops[0], fl[0]]
    if len(loops) != 2:
        rep.unk("INDEX.pairing", fwhere(f2), "pdag_to_dag is no longer two nested while loops; the index-typing rule does not read this idiom")
        return
    (lo, outer), (li_, inner) = loops
    P = ("param", "P")
    want_G = ("call", U + "only_directed", (P,), (("P", P),))
    want_I = ("ext", "list", (("ext", "range", (("ext", "len", (P,), ()),), ()),), ())
    by_init = {}
    for k, v in outer["init"].items():
        while v[0] == "method" and v[2] == "copy" and not v[3] and v[1] != P:          # a copy of the directed part is the directed part
            v = v[1]
        by_init.setdefault(v, []).append(k)
    nG, nI, nP = by_init.get(want_G, []), by_init.get(want_I, []), by_init.get(P, [])
    init_ok = len(nG) == 1 and len(nI) == 1 and len(nP) == 1
    if len(nG) == 1 and len(nP) == 1 and not nI:
        rep.bad("INDEX.pairing", fwhere(f2, outer["node"]), "the list of real node names is never updated while the local matrix shrinks: local indices drift away from node names")
        return
    if not init_ok and not (nG or nI or nP):
        # neither the result, the name list nor the shrinking matrix is a local variable carried by the loop (an object keeps the state): not read
        rep.unk("INDEX.init", fwhere(f2), "the state of the extension search (result, real names, remaining matrix) is not kept in local variables of pdag_to_dag: not read")
        return
    if not init_ok:
        # decided only for a start value that is read and wrong: the result carried by the loop starts from something else than the directed part (an
        # empty matrix, P itself), or the name list from something else than 0..p-1.  A result that is not carried by the search loop at all (orientations
        # collected and written after the search) is another form
        others = {k: v for k, v in outer["init"].items() if k not in nG + nI + nP}
        wrongG = [k for k, v in others.items() if not nG and (zeros_of(v, like=(P,)) or (v[0] == "method" and v[2] == "copy" and v[1] == P) or (v[0] == "ext" and v[1] in ("numpy.zeros_like", "numpy.zeros", "numpy.array", "numpy.copy")))]
        wrongI = [k for k, v in others.items() if not nI and v[0] == "ext" and v[1] in ("list", "numpy.arange", "range")]
        # names taken from a *reduced* matrix: G = only_directed(P) is addressed by the original node names, but the name table is 0..len(X)-1 for an X selected
        # out of P before the search (isolated nodes dropped, ...): every name after a dropped node is shifted
        shifted = None
        if len(nG) == 1 and not nI and not nP:
            for k_, v_ in others.items():
                core_ = v_
                while core_[0] == "ext" and core_[1] in ("list", "numpy.array", "numpy.asarray") and len(core_[2]) == 1:
                    core_ = core_[2][0]
                if core_[0] == "ext" and core_[1] in ("range", "numpy.arange") and len(core_[2]) == 1 and core_[2][0][0] == "ext" and core_[2][0][1] == "len":
                    X_ = core_[2][0][2][0]
                    if X_ != P and X_[0] == "sub" and any(z == P for z in walk(X_)) and any(v2 == X_ for v2 in others.values()):
                        shifted = (k_, X_)
        if shifted is not None:
            rep.bad("INDEX.init", fwhere(f2), "the name table `%s` counts the rows of the reduced matrix %s, but the result only_directed(P) is addressed by the original node names: "
                    "after a dropped node every name is shifted" % (shifted[0], fmt(shifted[1])[:60]))
        elif len(nP) == 1 and (wrongG or wrongI):
            rep.check("INDEX.init", False, fwhere(f2), "", "initial state of the extension search changed: %s" % "; ".join("%s = %s" % (k, fmt(others[k])[:50]) for k in wrongG + wrongI))
        else:
            rep.unk("INDEX.init", fwhere(f2), "the result / the real names are not carried by the search loop from only_directed(P) / list(range(len(P))): this form of the search is not read")
        return
    rep.ok("INDEX.init", fwhere(f2), "result starts as only_directed(P); real names = list(range(len(P)))")
    nG, nI, nP = nG[0], nI[0], nP[0]
    # the scan index: the loop-carried integer that starts at 0
    ni = [k for k, v in inner["init"].items() if is_const(v, 0) and not isinstance(v[1], bool)]
    if scan_for is None and len(ni) != 1:
        rep.unk("INDEX.pairing", fwhere(f2), "scan index of the sink search not identified")
        return
    muP, muI = ("mu", li_, nP), ("mu", li_, nI)
    if scan_for is not None:
        # i runs over range(len(P at the start of the scan)); the matrix and the name list change only on the way out (break)
        mui = ("elem", inner["iter"])
        entry_P = inner["init"].get(nP)
        benv = inner["breaks"][0]
        ranged = inner["iter"] == ("ext", "range", (("ext", "len", (entry_P,), ()),), ()) and inner["next"].get(nP) == muP and inner["next"].get(nI) == muI
        cnd = ("$break",)
        nPx = ("phi", cnd, T(benv.get(nP)), muP) if ranged and nP in benv else None
        nIx = ("phi", cnd, T(benv.get(nI)), muI) if ranged and nI in benv else None
    else:
        mui = ("mu", li_, ni[0])
        nPx, nIx = inner["next"].get(nP), inner["next"].get(nI)
    if nPx is None and nIx is None and scan_for is None:
        # neither the matrix nor the name list is updated inside the scan: the accepted node's bookkeeping was moved out of it (after the `if not found: raise`)
        rep.unk("INDEX.pairing", fwhere(f2, inner["node"]), "the remaining matrix and the name list are not updated inside the scan loop: bookkeeping outside the scan is not read")
        rep.unk("INDEX.real-names", fwhere(f2, inner["node"]), "the orientation of the removed node's edges is not written inside the scan loop: not read")
        return
    rng_ = ("ext", "range", (("ext", "len", (muP,), ()),), ())
    allbut = ("ext", "list", (("binop", "-", ("ext", "set", (rng_,), ()), ("set", (mui,))),), ())
    el_ = ("elem", rng_)
    # the same index list, spelled as a comprehension / sorted set difference (all ascending, without i)
    allbuts = [allbut, ("ext", "sorted", (("binop", "-", ("ext", "set", (rng_,), ()), ("set", (mui,))),), ())] + \
              [("comp", "list", el_, ((nm_, rng_, (cnd_,)),)) for nm_ in _comp_names(nPx) for cnd_ in (("cmp", "!=", el_, mui), ("cmp", "!=", mui, el_), ("unop", "not", ("cmp", "==", el_, mui)), ("unop", "not", ("cmp", "==", mui, el_)))]
    FULL = ("slice", ("const", None), ("const", None), ("const", None))
    shrs = [("sub", ("sub", muP, ("tuple", (ab_, FULL))), ("tuple", (FULL, ab_))) for ab_ in allbuts]
    ok = nPx is not None and nIx is not None and nPx[0] == "phi" and nIx[0] == "phi" and nPx[1] == nIx[1] and nPx[2] in shrs and nPx[3] == muP and \
        nIx[2] == ("mut", muI, "remove", (("sub", muI, mui),)) and nIx[3] == muI
    rep.check("INDEX.pairing", ok, fwhere(f2, inner["node"]), "the local matrix drops row/column i exactly when the real-name list drops indexes[i], under the same condition",
              "the local matrix and the real-name list do not shrink together: P' = %s ; indexes' = %s" % (fmt(nPx)[:100] if nPx else None, fmt(nIx)[:100] if nIx else None))
    st = [s for s in S2.select("store", qname=q2)]
    okw = False
    if len(st) == 1 and st[0].idx[0] == "tuple":
        r, c = st[0].idx[1]
        nb = ("call", U + "neighbors", (mui, muP), (("A", muP), ("i", mui)))
        # row: the real name of a neighbour - an element of [indexes[j] for j in n_i], or indexes[j] for j in n_i directly
        row_ok = (r[0] == "elem" and r[1][0] == "comp" and r[1][2] == ("sub", muI, ("elem", nb))) or r == ("sub", muI, ("elem", nb))
        okw = c == ("sub", muI, mui) and row_ok and is_const(st[0].value, 1)
    rep.check("INDEX.real-names", okw, fwhere(f2, st[0].node if st else None), "undirected edges of the removed sink are oriented as G[indexes[nbr], indexes[i]] = 1 (real names on both axes, towards the sink)",
              "the orientation store does not use real node names on both axes / points away from the sink")


def cpdag_core(rep, prog):
    """the construction dag_to_cpdag = assemble(label_edges(order_edges(G))), role by role - what mec / imec / dag_to_icpdag rest on"""
    res = label_rules(rep, prog)
    if res is None:                # the labelling loop is decided wrong as a whole; the rules on its parts have nothing to read
        order_rules(rep, prog)
        return
    marker, written, fl = res
    com, rev = assemble_rules(rep, prog, marker, written, fl)
    if com is not None and marker is not None:
        step_rules(rep, prog, marker, com, rev)
    order_rules(rep, prog)
    ordering_typing(rep, prog, [U + "order_edges"])


def run(prog, rep, tier):
    node_label_truthiness(rep, prog, [U + n_ for n_ in ['pdag_to_dag', 'pdag_to_cpdag', 'dag_to_cpdag', 'order_edges', 'label_edges']])
    isin_over_sets(rep, prog, [U + n_ for n_ in ['pdag_to_dag', 'pdag_to_cpdag', 'dag_to_cpdag', 'order_edges', 'label_edges']])
    pattern_entries(prog, rep, [(U + "dag_to_cpdag", "G"), (U + "order_edges", "G"), (U + "pdag_to_dag", "P"), (U + "pdag_to_cpdag", "pdag")],
                    allow_raw=("pdag_to_dag",))        # the extension keeps the weights of the directed edges; every *decision* must read the pattern only
    cpdag_core(rep, prog)
    extension_rules(rep, prog)
    from .common import inputs_intact
    inputs_intact(rep, prog, [U + n_ for n_ in ['dag_to_cpdag', 'order_edges', 'label_edges', 'pdag_to_dag', 'pdag_to_cpdag']])
    dag_gate(rep, prog, U + "order_edges", "G", rule="GATE")
    rep.require_count("LABELS", 4)
    rep.require_count("PAT.entry", 4)
    rep.require_count("INDEX", 3)
    rep.assume("that the verified steps of Chickering's ordering / labelling algorithm mark exactly the compelled edges is a theorem, not decided here")
