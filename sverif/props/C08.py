"""C08 - the CPDAG is the essential graph of the equivalence class (narrow structural part).

Decided: (PATTERN) dag_to_cpdag / order_edges depend on a weighted DAG only through its zero pattern;
(LABELS) the label constants agree between writer and reader: label_edges starts every edge at the
'unknown' marker, loops exactly while that marker is present, and otherwise writes only 'compelled' and
'reversible'; dag_to_cpdag tests exactly those two constants - compelled edges are copied as x -> y,
reversible ones written in both directions - so every edge of the DAG lands in the CPDAG (skeleton kept);
order_edges uses one 'unlabelled' marker consistently and assigns positive increasing labels that can never
collide with it; (EXTENSION) pdag_to_cpdag = dag_to_cpdag(pdag_to_dag(pdag)) with the ValueError of the
extension search propagating; (INDEX) in pdag_to_dag the shrinking local matrix and the list of real
node names shrink together under the same condition, and every write into the result uses real names
on both axes.
Not decided: which edges Chickering's ordering / labelling marks compelled vs reversible.
"""
from .common import *

EXPLANATION = __doc__


def consts_in(t):
    return {x[1] for x in walk(t) if isinstance(x, tuple) and len(x) == 2 and x[0] == "const" and isinstance(x[1], (int, float)) and not isinstance(x[1], bool)}


def value_consts(t):
    """constants a stored value can take (phi conditions are not values)"""
    if is_const(t):
        return {t[1]} if isinstance(t[1], (int, float)) and not isinstance(t[1], bool) else set()
    if isinstance(t, tuple) and t and t[0] == "phi":
        return value_consts(t[2]) | value_consts(t[3])
    return consts_in(t)


def eq_consts(t, subject_pred):
    """constants c in sub-terms  (subject == c)"""
    out = set()
    for x in walk(t):
        if isinstance(x, tuple) and len(x) == 4 and x[0] == "cmp" and x[1] == "==" and is_const(x[3]) and subject_pred(x[2]):
            out.add(x[3][1])
    return out


def label_rules(rep, prog):
    q = U + "label_edges"
    f = need(prog, q)
    S = Sym(prog)
    run_function(S, f)
    loops = sorted([(k, v) for k, v in S.loopinfo.items() if v["func"] == q], key=lambda kv: kv[0][1])
    main = [kv for kv in loops if kv[1]["test"] is not None]
    if len(main) != 1:
        raise Inconclusive("label_edges: expected one `while unknown edges remain` loop", f.node)
    lid, li = main[0]
    names = [k for k in li["init"] if li["init"][k][0] == "binop"]
    if len(names) != 1:
        raise Inconclusive("label_edges: label matrix not initialised as pattern * marker", f.node)
    nm = names[0]
    init = li["init"][nm]
    pat = ("method", ("cmp", "!=", ("param", "ordered"), ("const", 0)), "astype", (("extref", "int"),), ())
    marker = None
    if init[1] == "*" and pat in (init[2], init[3]):
        other = init[3] if init[2] == pat else init[2]
        if is_const(other):
            marker = other[1]
    test = li["test"]
    tested = eq_consts(test, lambda s: s == ("mu", lid, nm))
    ok = marker is not None and tested == {marker} and test[0] == "method" and test[2] == "any"
    rep.check("LABELS.unknown", ok, fwhere(f, li["node"]), "every edge starts as 'unknown' (%s) and the loop runs exactly while an unknown edge remains" % marker,
              "the unknown marker is inconsistent: init %s, loop tests %s" % (fmt(init)[:60], sorted(tested)))
    written = set()
    for st in S.select("store", qname=q):
        if any(isinstance(x, tuple) and x[0] in ("mu", "after") and x[-1] == nm for x in walk(st.base)) or st.base[0] in ("mu", "after") and st.base[-1] == nm:
            written |= value_consts(st.value)
    return marker, written, f


def assemble_rules(rep, prog, marker, written, flabel):
    q = U + "dag_to_cpdag"
    f = need(prog, q)
    S = Sym(prog)
    summ, _ = run_function(S, f)
    lab = ("call", U + "label_edges", (("call", U + "order_edges", (("param", "G"),), (("G", ("param", "G")),)),),
           (("ordered", ("call", U + "order_edges", (("param", "G"),), (("G", ("param", "G")),))),))
    stores = S.select("store", qname=q)
    masked = [s for s in stores if s.idx[0] == "cmp"]
    pairs = [s for s in stores if s.idx[0] == "tuple"]
    ok, why = False, "assembly not recognised"
    com = rev = None
    if len(masked) == 1 and len(pairs) == 2:
        m = masked[0]
        if m.idx[1] == "==" and m.idx[2] == lab and is_const(m.idx[3]) and m.base == ("ext", "numpy.zeros_like", (lab,), ()):
            com = m.idx[3][1]
            copied = m.value == ("sub", lab, m.idx) and com == 1 or is_const(m.value, 1)
            w = [x for x in walk(pairs[0].idx) if isinstance(x, tuple) and x[0] == "ext" and x[1] == "numpy.where"]
            if w and w[0][2][0][0] == "cmp" and w[0][2][0][2] == lab and is_const(w[0][2][0][3]):
                rev = w[0][2][0][3][1]
                wh = w[0]
                x_, y_ = ("elem", ("sub", wh, ("const", 0))), ("elem", ("sub", wh, ("const", 1)))
                both = {s.idx for s in pairs} == {("tuple", (x_, y_)), ("tuple", (y_, x_))} and all(is_const(s.value, 1) for s in pairs)
                ok = copied and both
                why = "compelled=%s copied=%s reversible=%s both-directions=%s" % (com, copied, rev, both)
    rep.check("LABELS.assembly", ok, fwhere(f), "compelled edges are copied as x -> y (entry 1), reversible ones set in both directions",
              "CPDAG assembly deviates: " + why)
    if ok:
        final = written - {marker}
        rep.check("LABELS.agree", {com, rev} == final and com != rev, fwhere(f), "the assembler reads exactly the labels the labeller writes: compelled=%s, reversible=%s" % (com, rev),
                  "label constants disagree: label_edges writes %s (unknown=%s), dag_to_cpdag reads compelled=%s reversible=%s - edges with an unread label vanish from the CPDAG" % (
                      sorted(final), marker, com, rev))
    rets = S.select("return", qname=q)
    rep.check("LABELS.result", len(rets) == 1 and rets[0].value[0] == "after", fwhere(f), "returns the assembled matrix", "result is not the assembled matrix")


def order_rules(rep, prog):
    q = U + "order_edges"
    f = need(prog, q)
    S = Sym(prog)
    run_function(S, f)
    loops = [(k, v) for k, v in S.loopinfo.items() if v["func"] == q and v["test"] is not None]
    if len(loops) != 1:
        raise Inconclusive("order_edges: expected one labelling loop", f.node)
    lid, li = loops[0]
    G = ("param", "G")
    pat = ("method", ("cmp", "!=", G, ("const", 0)), "astype", (("extref", "int"),), ())
    mats = [k for k, v in li["init"].items() if v[0] == "binop" and v[1] == "*" and pat in (v[2], v[3])]
    cnts = [k for k, v in li["init"].items() if is_const(v) and isinstance(v[1], int)]
    if len(mats) != 1 or len(cnts) != 1:
        raise Inconclusive("order_edges: state is not (pattern * marker, counter)", f.node)
    m, c = mats[0], cnts[0]
    init = li["init"][m]
    other = init[3] if init[2] == pat else init[2]
    marker = other[1] if is_const(other) else None
    mu = ("mu", lid, m)
    used = eq_consts(li["test"], lambda s: s == mu)
    for fact in S.facts:
        if fact.qname == q and fact.kind == "call" and lid in fact.loops:
            for a in fact.args:
                used |= eq_consts(a, lambda s: s == mu or (s[0] == "sub" and s[1] == mu))
    start = li["init"][c][1]
    inc = li["next"][c] in (("binop", "+", ("mu", lid, c), ("const", 1)), ("binop", "+", ("const", 1), ("mu", lid, c)))
    st = [s for s in S.select("store", qname=q) if s.base == mu]
    ok = marker is not None and used == {marker} and marker < 0 < start and inc and len(st) == 1 and st[0].value == ("mu", lid, c)
    rep.check("ORDER.marker", ok, fwhere(f, li["node"]), "one 'unlabelled' marker (%s) used consistently; labels are %s, %s+1, ... > 0, never the marker" % (marker, start, start),
              "unlabelled marker / labels inconsistent: marker %s, tests %s, labels start %s, increment by one: %s" % (marker, sorted(used), start, inc))
    topo = [c_ for c_ in S.select("call", qname=q) if c_.target == U + "topological_ordering" and c_.args == [G]]
    rep.check("ORDER.topological", len(topo) == 1, fwhere(f), "edges are ordered along topological_ordering(G)", "order_edges does not use the topological order of G")


def ordering_typing(rep, prog, qnames):
    """A topological ordering is a map position -> node.  Indexing it with node labels (indices that come out
    of np.where on an adjacency-shaped matrix, or out of pa / ch / neighbors ...) confuses the permutation with
    its inverse; legitimate uses iterate it, reverse it, hand it to sort(L, order) or index it by positions."""
    NODE_SOURCES = {U + n for n in ("pa", "ch", "neighbors", "adj", "na", "ancestors", "descendants")}
    for q in qnames:
        f = need(prog, q)
        S = Sym(prog)
        run_function(S, f)
        topo = {c.result for c in S.select("call", qname=q) if c.target == U + "topological_ordering"}
        if not topo:
            continue

        def is_ordering(t):
            while isinstance(t, tuple) and t and ((t[0] == "ext" and t[1] in ("numpy.array", "numpy.asarray", "list", "tuple", "reversed") and t[2]) or
                                                  (t[0] == "sub" and t[2][0] == "slice")):
                t = t[2][0] if t[0] == "ext" else t[1]
            return t in topo
        bad = []
        terms = []
        for fact in S.facts:
            if fact.qname != q:
                continue
            terms += [getattr(fact, "value", None), getattr(fact, "idx", None)] + list(getattr(fact, "args", []) or [])
        for li in S.loopinfo.values():
            if li["func"] == q:
                terms += list(li["next"].values())
        for t in terms:
            if t is None:
                continue
            for x in walk(t):
                if isinstance(x, tuple) and len(x) == 3 and x[0] == "sub" and is_ordering(x[1]) and x[2][0] != "slice":
                    idx = x[2]
                    nodeish = any(isinstance(y, tuple) and ((y[0] == "ext" and y[1] in ("numpy.where", "numpy.nonzero", "numpy.argwhere")) or
                                                            (y[0] == "call" and y[1] in NODE_SOURCES)) for y in walk(idx))
                    if nodeish:
                        bad.append(x)
        if bad:
            rep.bad("INDEX.ordering", fwhere(f), "the topological ordering (position -> node) is indexed with node labels: %s - the permutation is used as if it were its inverse" % fmt(bad[0])[:120])
        else:
            rep.ok("INDEX.ordering", fwhere(f), "the ordering is only iterated / reversed / passed to sort(L, order) or indexed by positions")


def extension_rules(rep, prog):
    q = U + "pdag_to_cpdag"
    f = need(prog, q)
    S = Sym(prog)
    summ, _ = run_function(S, f)
    pd = ("param", "pdag")
    ext_ = ("call", U + "pdag_to_dag", (pd,), (("P", pd),))
    calls = [c for c in S.select("call", qname=q) if c.target == U + "pdag_to_dag"]
    handled = any(t in ("*", "ValueError", "Exception", "BaseException") for c in calls for _, ts in getattr(c, "in_try", []) for t in ts)
    ok = len(calls) == 1 and not handled and not calls[0].path and T(summ.ret) == ("call", U + "dag_to_cpdag", (ext_,), (("G", ext_),))
    rep.check("EXTENSION.pipeline", ok, fwhere(f), "pdag_to_cpdag = dag_to_cpdag(pdag_to_dag(pdag)); the ValueError of the extension search propagates",
              "pdag_to_cpdag swallows the ValueError or does not complete the extension it found")
    q2 = U + "pdag_to_dag"
    f2 = need(prog, q2)
    S2 = Sym(prog)
    run_function(S2, f2)
    rs = [r for r in S2.select("raise", qname=q2) if r.exctype == "ValueError"]
    rep.check("EXTENSION.raises", len(rs) == 1, fwhere(f2, rs[0].node if rs else None), "pdag_to_dag raises ValueError when no admissible sink is found", "pdag_to_dag has no ValueError exit")
    # index typing
    loops = sorted([(k, v) for k, v in S2.loopinfo.items() if v["func"] == q2 and v["test"] is not None], key=lambda kv: kv[0][1])
    if len(loops) != 2:
        rep.unk("INDEX.pairing", fwhere(f2), "pdag_to_dag is no longer two nested while loops; the index-typing rule does not read this idiom")
        return
    (lo, outer), (li_, inner) = loops
    P = ("param", "P")
    want_G = ("call", U + "only_directed", (P,), (("P", P),))
    want_I = ("ext", "list", (("ext", "range", (("ext", "len", (P,), ()),), ()),), ())
    by_init = {}
    for k, v in outer["init"].items():
        by_init.setdefault(v, []).append(k)
    nG, nI, nP = by_init.get(want_G, []), by_init.get(want_I, []), by_init.get(P, [])
    init_ok = len(nG) == 1 and len(nI) == 1 and len(nP) == 1
    if len(nG) == 1 and len(nP) == 1 and not nI:
        rep.bad("INDEX.pairing", fwhere(f2, outer["node"]), "the list of real node names is never updated while the local matrix shrinks: local indices drift away from node names")
        return
    rep.check("INDEX.init", init_ok, fwhere(f2), "result starts as only_directed(P); real names = list(range(len(P)))", "initial state of the extension search changed")
    if not init_ok:
        return
    nG, nI, nP = nG[0], nI[0], nP[0]
    # the scan index: the loop-carried integer that starts at 0
    ni = [k for k, v in inner["init"].items() if is_const(v, 0) and not isinstance(v[1], bool)]
    if len(ni) != 1:
        rep.unk("INDEX.pairing", fwhere(f2), "scan index of the sink search not identified")
        return
    muP, muI, mui = ("mu", li_, nP), ("mu", li_, nI), ("mu", li_, ni[0])
    nPx, nIx = inner["next"].get(nP), inner["next"].get(nI)
    allbut = ("ext", "list", (("binop", "-", ("ext", "set", (("ext", "range", (("ext", "len", (muP,), ()),), ()),), ()), ("set", (mui,))),), ())
    FULL = ("slice", ("const", None), ("const", None), ("const", None))
    shr = ("sub", ("sub", muP, ("tuple", (allbut, FULL))), ("tuple", (FULL, allbut)))
    ok = nPx is not None and nIx is not None and nPx[0] == "phi" and nIx[0] == "phi" and nPx[1] == nIx[1] and nPx[2] == shr and nPx[3] == muP and \
        nIx[2] == ("mut", muI, "remove", (("sub", muI, mui),)) and nIx[3] == muI
    rep.check("INDEX.pairing", ok, fwhere(f2, inner["node"]), "the local matrix drops row/column i exactly when the real-name list drops indexes[i], under the same condition",
              "the local matrix and the real-name list do not shrink together: P' = %s ; indexes' = %s" % (fmt(nPx)[:100] if nPx else None, fmt(nIx)[:100] if nIx else None))
    st = [s for s in S2.select("store", qname=q2)]
    okw = False
    if len(st) == 1 and st[0].idx[0] == "tuple":
        r, c = st[0].idx[1]
        nb = ("call", U + "neighbors", (mui, muP), (("A", muP), ("i", mui)))
        okw = c == ("sub", muI, mui) and r[0] == "elem" and r[1][0] == "comp" and r[1][2] == ("sub", muI, ("elem", nb)) and is_const(st[0].value, 1)
    rep.check("INDEX.real-names", okw, fwhere(f2, st[0].node if st else None), "undirected edges of the removed sink are oriented as G[indexes[nbr], indexes[i]] = 1 (real names on both axes, towards the sink)",
              "the orientation store does not use real node names on both axes / points away from the sink")


def run(prog, rep, tier):
    pattern_entries(prog, rep, [(U + "dag_to_cpdag", "G"), (U + "order_edges", "G")])
    marker, written, fl = label_rules(rep, prog)
    assemble_rules(rep, prog, marker, written, fl)
    order_rules(rep, prog)
    extension_rules(rep, prog)
    ordering_typing(rep, prog, [U + "order_edges"])
    dag_gate(rep, prog, U + "order_edges", "G", rule="GATE")
    rep.require_count("LABELS", 4)
    rep.require_count("PAT.entry", 2)
    rep.require_count("INDEX", 3)
    rep.assume("which edges are compelled / reversible (Chickering's algorithm) is not decided")
