"""C03 - acyclicity test and topological order are exact for any weights (structural part).

Decided: (PATTERN) every decision taken by is_dag / topological_ordering and by the constructors'
accept/reject verdict depends on the matrix only through its zero pattern - no sum, product or ordered
comparison of raw weights reaches a branch, an index or the result; (WRAP) is_dag is exactly
"topological_ordering returned"; (GATE) each constructor / API gate raises ValueError from that verdict,
on the very matrix it then stores or uses, before storing or using it; (PRECHECK) the self-loop /
two-cycle pre-check tests `a != 0 and b != 0` on every pair including the diagonal.
Also decided: (OWN) deciding acyclicity never writes the matrix it is asked about (Kahn's loop works on its own copy).
Not decided: the inductive correctness of Kahn's loop itself.
"""
from .common import *
from ..sym import Sym, run_function
from ..pred import resolve, conj
from .. import pw as PW

EXPLANATION = __doc__

GATES = [(U + "transitive_closure", "A"), (U + "mec", "A"), (U + "imec", "A"), (U + "is_consistent_extension", "G"),
         (U + "to_factorization", "G"), (U + "order_edges", "G"), (U + "label_edges", "ordered")]


FULL_ = ("slice", ("const", None), ("const", None), ("const", None))


def kahn_rules(rep, prog, f, S):
    """shape of Kahn's algorithm: sources = zero in-degree; pop -> emit once; remove the out-edges of the emitted
    node; a child becomes ready when it has no parent left *in the updated matrix*; leftover edges => ValueError.
    (These are necessary conditions; the inductive argument that they suffice is not mechanised.)"""
    q = f.qname
    helpers = {x.qname for x in S.facts if x.root == q}
    loops = sorted([(k, v) for k, v in S.loopinfo.items() if v["func"] in helpers | {q}], key=lambda kv: kv[0][1])
    whiles = [kv for kv in loops if kv[1]["test"] is not None]
    fors = [kv for kv in loops if kv[1]["test"] is None]
    if len(whiles) != 1 or len(fors) != 1:
        rep.unk("KAHN.shape", fwhere(f), "topological_ordering is no longer a work-list loop with one inner loop over children; the Kahn rules do not read this idiom")
        return "unread"
    (lw, w), (lf, fo) = whiles[0], fors[0]
    state = w["init"]
    def listlike(v):
        # an index list: list(...) / sorted(...) / np.where(...)[0] / np.flatnonzero(...) / x.tolist()
        return (v[0] == "ext" and v[1] in ("list", "sorted", "numpy.flatnonzero", "collections.deque")) or \
            (v[0] == "sub" and v[1][0] == "ext" and v[1][1] in ("numpy.where", "numpy.nonzero")) or (v[0] == "method" and v[2] == "tolist")
    mats = [k for k, v in state.items() if not listlike(v) and (v[0] == "method" and v[2] == "copy" or derives_patternwise(v, "A") and v != ("list", ()))]
    lists = [k for k, v in state.items() if v == ("list", ())]
    work = [k for k in state if k not in mats and k not in lists]
    if len(mats) == 0 and len(lists) == 1 and len(work) == 1:
        rep.bad_form("KAHN.remove-edge", fwhere(f, w["node"]), "the working matrix is never updated inside the loop: visited edges are not removed, so no child ever becomes ready")
        return
    deg_ = None
    if len(mats) == 1 and len(lists) == 1 and len(work) == 2:
        # the textbook variant: an in-degree array, initialised with the column counts of the 0/1 working matrix and decremented
        # whenever an edge into the node is removed, is tested instead of the parent set
        a0 = state[mats[0]]
        b0 = a0[1] if a0[0] == "method" and a0[2] == "copy" else a0
        is01 = b0[0] == "method" and b0[2] == "astype" and b0[1][0] == "cmp" and b0[1][1] == "!=" and is_const(b0[1][3], 0) and b0[3][:1] in ((("extref", "int"),), (("extref", "bool"),))
        ax0 = (("axis", ("const", 0)),)
        counts = [("method", a0, "sum", (), ax0), ("method", a0, "sum", (("const", 0),), ()), ("ext", "numpy.sum", (a0,), ax0), ("ext", "numpy.count_nonzero", (a0,), ax0)]
        cand = [k for k in work if state[k] in counts]
        if is01 and len(cand) == 1:
            deg_ = cand[0]
            work = [k for k in work if k != deg_]
    if len(mats) == 0 and len(lists) == 1 and len(work) == 2:
        r_ = kahn_counters(rep, S, f, q, (lw, w), (lf, fo), state, lists[0], work)
        if r_ is not None:
            return r_
    if len(mats) != 1 or len(lists) != 1 or len(work) != 1:
        rep.unk("KAHN.shape", fwhere(f), "loop state is not (working matrix, work list, output list): %s" % sorted(state))
        return "unread"
    A_, out_, wl_ = mats[0], lists[0], work[0]
    muA, muW, muO = ("mu", lw, A_), ("mu", lw, wl_), ("mu", lw, out_)
    # K1 sources
    src = state[wl_]
    while src[0] == "ext" and src[1] in ("list", "sorted", "collections.deque") and len(src[2]) == 1:
        src = src[2][0]
    ok, why = False, "initial work list is %s" % fmt(state[wl_])[:100]
    cond = None
    if src[0] == "sub" and is_const(src[2], 0) and src[1][0] == "ext" and src[1][1] in ("numpy.where", "numpy.nonzero") and len(src[1][2]) == 1:
        cond = src[1][2][0]
    elif src[0] == "ext" and src[1] == "numpy.flatnonzero" and len(src[2]) == 1:
        cond = src[2][0]
    if cond is not None:
        pn = npred(cond, True)
        # `no non-zero entry in the column`:  ~X.any(axis=0)  /  np.logical_not(X.any(axis=0))  /  X.any(axis=0) == False
        neg_any = None
        c_ = cond
        if c_[0] == "unop" and c_[1] in ("~", "not", "invert"):
            neg_any = c_[2]
        elif c_[0] == "ext" and c_[1] == "numpy.logical_not" and len(c_[2]) == 1:
            neg_any = c_[2][0]
        elif pn[0] == "atom" and pn[2] is False:
            neg_any = pn[1]
        if neg_any is not None:
            try:
                from .. import signs
                good = True
                for pair in PW.ALL9:
                    v = PW.Eval({("param", "A"): PW.M(PW.mat(pair))}, {}).ev(neg_any)
                    if not isinstance(v, PW.CNT) or v.kind not in ("axis0", "any-axis0"):
                        good = False
                        why = "sources are not the nodes without a non-zero entry in their column: %s" % (v.kind if isinstance(v, PW.CNT) else type(v).__name__)
                        break
                    ij, ji = v.m.d["*"]
                    if PW.nzb(ij) is not (pair[0] != signs.Z):
                        good = False
                        why = "the tested indicator is not the edge pattern"
                ok = good
            except Inconclusive as e:
                why = e.why
        if pn[0] == "==0":
            d = dict(pn[1])
            if len(d) == 1 and list(d.values())[0] in (1, -1):
                cnt = list(d)[0][0]
                try:
                    good = True
                    from .. import signs
                    for pair in PW.ALL9:
                        v = PW.Eval({("param", "A"): PW.M(PW.mat(pair))}, {}).ev(cnt)
                        if not isinstance(v, PW.CNT) or v.kind != "axis0":
                            good = False
                            why = "sources are not those with zero column sum (incoming edges): %s" % (v.kind if isinstance(v, PW.CNT) else type(v).__name__)
                            break
                        ij, ji = v.m.d["*"]
                        if PW.nzb(ij) is not (pair[0] != signs.Z) or (isinstance(ij, PW.E) and ij.sign not in (signs.Z, signs.ONE)):
                            good = False
                            why = "the counted indicator is not the 0/1 edge pattern"
                    ok = good
                except Inconclusive as e:
                    why = e.why
    rep.check("KAHN.sources", ok, fwhere(f, w["node"]), "the work list starts with the nodes of zero in-degree (column sums of the 0/1 pattern)", "Kahn start set deviates: " + why)
    # K2 emit once
    popped = None
    nxO = w["next"][out_]
    if nxO[0] == "mut" and nxO[1] == muO and nxO[2] == "append" and len(nxO[3]) == 1:
        popped = nxO[3][0]
    ok = popped is not None and popped[0] == "method" and popped[1] == muW and popped[2] == "pop"
    rep.check("KAHN.emit", ok, fwhere(f, w["node"]), "each round pops one node from the work list and appends exactly that node to the ordering",
              "the emitted node is not the popped node: ordering' = %s" % fmt(nxO)[:100])
    pt = npred(w["test"], True)
    rep.check("KAHN.loop", pt in (("nonempty", muW), ("atom", muW, True)), fwhere(f, w["node"]), "runs while the work list is non-empty", "loop condition is %s" % pred_fmt(pt))
    if not ok:
        return
    # K3 relax
    j = ("elem", fo["iter"])
    okc = fo["iter"] == ("call", U + "ch", (popped, muA), (("A", muA), ("i", popped)))
    rep.check("KAHN.children", okc, fwhere(f, fo["node"]), "visits the children of the emitted node in the current matrix", "inner loop runs over %s" % fmt(fo["iter"])[:100])
    sts_all = [s_ for s_ in S.select("store", root=q) if lf in s_.loops]
    sts = [s_ for s_ in sts_all if deg_ is None or not (s_.base[0] == "mu" and s_.base[2] == deg_)]
    oks = len(sts) == 1 and sts[0].idx == ("tuple", (popped, j)) and is_const(sts[0].value, 0) and sts[0].aug is None
    if not sts:
        # all out-edges of the emitted node removed at once (A[i, :] = 0), the children having been read from the matrix before
        row = [s_ for s_ in S.select("store", root=q) if lw in s_.loops and lf not in s_.loops and s_.idx == ("tuple", (popped, FULL_))
               and is_const(s_.value, 0) and s_.aug is None and s_.base == muA]
        if len(row) == 1 and okc and row[0].order < min([t_.order for t_ in S.select("test", root=q) if lf in t_.loops] or [10**9]):
            sts, oks = row, True
    rep.check("KAHN.remove-edge", oks, fwhere(f, sts[0].node if sts else None), "the edge (emitted node -> child) is removed from the working matrix", "the visited edge is not removed as A[i, j] = 0")
    if oks:
        updated = ("store", sts[0].base, sts[0].idx, sts[0].value, None)
        apps = [c for c in S.select("call", root=q) if c.callkind == "method" and c.target == ".append" and lf in c.loops]
        pa_j = ("call", U + "pa", (j, updated), (("A", updated), ("i", j)))
        col = ("sub", updated, ("tuple", (FULL_, j)))
        # `no parent left`: the parent set is empty, or column j of the (0/1, updated) matrix has no non-zero entry
        ready_forms = [("empty", pa_j), ("atom", pa_j, False), ("atom", ("method", col, "any", (), ()), False), ("atom", ("ext", "numpy.any", (col,), ()), False),
                       ("==0", (((("method", col, "sum", (), ()),), 1),)), ("==0", (((("ext", "numpy.sum", (col,), ()),), 1),)),
                       ("==0", (((("ext", "numpy.count_nonzero", (col,), ()),), 1),))]
        row = ("sub", updated, ("tuple", (j, FULL_)))
        for a_, b_ in ((("cmp", "!=", col, ("const", 0)), ("cmp", "==", row, ("const", 0))), (("cmp", "==", row, ("const", 0)), ("cmp", "!=", col, ("const", 0)))):
            for both in (("ext", "numpy.logical_and", (a_, b_), ()), ("binop", "&", a_, b_)):
                # pa(j, A) written out: some k with A[k, j] != 0 and A[j, k] == 0
                ready_forms += [("atom", ("ext", "numpy.any", (both,), ()), False), ("atom", ("method", both, "any", (), ()), False),
                                ("==0", (((("ext", "numpy.count_nonzero", (both,), ()),), 1),)), ("==0", (((("method", both, "sum", (), ()),), 1),))]
        okr = len(apps) == 1 and apps[0].args == [j] and apps[0].recv[0] == "mu" and apps[0].recv[2] == wl_ and apps[0].path and \
            npred(apps[0].path[-1][0], apps[0].path[-1][1]) in ready_forms
        if deg_ is not None:
            # in-degree form: exactly one `deg[j] -= 1` next to the one `A[i, j] = 0` (same conditions), and `deg[j] == 0` read after it
            dsts = [s_ for s_ in sts_all if s_.base[0] == "mu" and s_.base[2] == deg_]
            paired = len(dsts) == 1 and dsts[0].idx == j and dsts[0].aug == "-" and is_const(dsts[0].value, 1) and tuple(dsts[0].path) == tuple(sts[0].path) and \
                dsts[0].loops == sts[0].loops
            if paired:
                dupd = ("store", dsts[0].base, dsts[0].idx, dsts[0].value, "-")
                okr = len(apps) == 1 and apps[0].args == [j] and apps[0].recv[0] == "mu" and apps[0].recv[2] == wl_ and apps[0].path and \
                    npred(apps[0].path[-1][0], apps[0].path[-1][1]) in (("==0", (((("sub", dupd, j),), 1),)), ("==0", (((("sub", dupd, j),), -1),))) and \
                    tuple(apps[0].path[:-1]) == tuple(dsts[0].path)
                rep.check("KAHN.ready", okr, fwhere(f, apps[0].node if apps else None),
                          "in-degree form: deg = column counts of the 0/1 matrix, one `deg[j] -= 1` per removed edge into j, j joins the work list exactly when deg[j] reaches 0",
                          "readiness test is not `deg[j] == 0` on the decremented in-degree followed by sinks.append(j)")
            else:
                rep.bad("KAHN.ready", fwhere(f, fo["node"]), "the in-degree array is not decremented exactly once (deg[j] -= 1) with each removed edge i -> j: it no longer counts the parents left")
            okr = None
    if oks and okr is not None:
        rep.check("KAHN.ready", okr, fwhere(f, apps[0].node if apps else None), "a child joins the work list exactly when it has no parent left in the *updated* matrix",
                  "readiness test is not `len(pa(j, updated A)) == 0` followed by sinks.append(j)")
    # K4 leftover: either "entries are left in the working matrix" or "fewer nodes emitted than there are"
    kind = None
    node = None
    rets = [r_ for r_ in S.select("return", root=q) if r_.value[0] == "after"]
    for r in [r for r in S.select("raise", root=q) if r.exctype == "ValueError" and not r.loops and r.path]:
        c, pol = r.path[-1]
        pn = npred(c, pol)
        aA, aO = ("after", lw, A_), ("after", lw, out_)
        ssum = ("method", aA, "sum", (), ())
        if pn in ((">0", (((ssum,), 1),)), ("!=0", (((ssum,), 1),)), ("atom", ("method", aA, "any", (), ()), True),
                  (">0", (((("ext", "numpy.sum", (aA,), ()),), 1),)), ("atom", ("ext", "numpy.any", (aA,), ()), True)):
            k_ = "entries"
        else:
            k_ = None
            if pn[0] in (">0", "!=0"):
                d = dict(pn[1])
                lo = ("ext", "len", (aO,), ())
                sizes = [("ext", "len", (("param", "A"),), ()), ("ext", "len", (state[A_],), ()), ("sub", ("attr", ("param", "A"), "shape"), ("const", 0)),
                         ("ext", "len", (aA,), ()), ("sub", ("attr", aA, "shape"), ("const", 0))]
                for sz in sizes:
                    if d == {(sz,): 1, (lo,): -1} or (pn[0] == "!=0" and d in ({(sz,): -1, (lo,): 1}, {(sz,): 1, (lo,): -1})):
                        k_ = "count"
        if k_ and rets and all(r_.value == ("after", lw, out_) for r_ in rets) and any((c, not pol) in r_.path for r_ in rets):
            kind, node = k_, r.node
    rep.check("KAHN.leftover", kind is not None, fwhere(f, node), "after the loop: %s => ValueError; otherwise the ordering is returned" % (
        "entries left in the working matrix" if kind == "entries" else "fewer nodes emitted than the graph has"),
        "the leftover (cycle) check is missing or does not guard the return")
    return kind


def kahn_counters(rep, S, f, q, wl, fl, state, out_, work):
    """Kahn's algorithm as most textbooks state it: no edge is deleted; every node keeps the number of its parents that have not
    been emitted yet (the column counts of the 0/1 pattern to start with), each emitted node decrements the counter of each of its
    children once, a child whose counter reaches 0 joins the work list, and whatever has a positive counter at the end lies on or
    behind a cycle.  (The form is recognised by its state - counters, work list, output - before any rule is applied, so what the rules then find is
    decided: `rep.decide`, not the shape-gated `rep.check`.)  Self-loops and two-cycles are counted in the columns but never decremented (ch() excludes both), so their
    nodes never become ready: the leftover test catches them whichever way it is written.  -> leftover kind, or None (not this form)"""
    (lw, w), (lf, fo) = wl, fl
    ax0 = (("axis", ("const", 0)),)

    def counted(v):
        if v[0] == "method" and v[2] == "sum" and (v[4] == ax0 or v[3] == (("const", 0),)) and not (v[3] and v[4]):
            return v[1]
        if v[0] == "ext" and v[1] in ("numpy.sum", "numpy.count_nonzero") and len(v[2]) == 1 and v[3] == ax0:
            return v[2][0]
        return None

    def pattern01(m):
        b = m
        while b[0] == "method" and b[2] == "copy" and not b[3]:
            b = b[1]
        if b[0] == "method" and b[2] == "astype" and b[3][:1] in ((("extref", "int"),), (("extref", "bool"),)) and b[1][0] == "cmp" and b[1][1] == "!=" and is_const(b[1][3], 0):
            return derives_patternwise(b[1][2], "A")
        return b[0] == "cmp" and b[1] == "!=" and is_const(b[3], 0) and derives_patternwise(b[2], "A")
    cand = [(k, counted(state[k])) for k in work if counted(state[k]) is not None]
    cand = [(k, m) for k, m in cand if pattern01(m) or (state[k][0] == "ext" and state[k][1] == "numpy.count_nonzero" and derives_patternwise(m, "A"))]
    if len(cand) != 1:
        ax1 = (("axis", ("const", 1)),)
        rowwise = [k for k in work if (state[k][0] == "method" and state[k][2] == "sum" and state[k][4] == ax1 and pattern01(state[k][1])) or
                   (state[k][0] == "ext" and state[k][1] in ("numpy.sum", "numpy.count_nonzero") and len(state[k][2]) == 1 and state[k][3] == ax1 and pattern01(state[k][2][0]))]
        if len(rowwise) == 1 and not cand:
            rep.bad("KAHN.sources", fwhere(f, w["node"]), "the counters start as row counts (axis=1, the number of children), not as the number of parents: the nodes emitted first are the sinks")
            return "entries"
        return None
    deg_, M = cand[0]
    wl_ = [k for k in work if k != deg_][0]
    muW, muO, muD = ("mu", lw, wl_), ("mu", lw, out_), ("mu", lw, deg_)
    # sources: the nodes whose counter is 0 to start with
    src = state[wl_]
    while src[0] == "ext" and src[1] in ("list", "sorted", "collections.deque") and len(src[2]) == 1:
        src = src[2][0]
    cond = None
    if src[0] == "sub" and is_const(src[2], 0) and src[1][0] == "ext" and src[1][1] in ("numpy.where", "numpy.nonzero") and len(src[1][2]) == 1:
        cond = src[1][2][0]
    elif src[0] == "ext" and src[1] == "numpy.flatnonzero" and len(src[2]) == 1:
        cond = src[2][0]
    oks = cond is not None and npred(cond, True) in (npred(("cmp", "==", state[deg_], ("const", 0)), True),)
    rep.decide("KAHN.sources", oks, fwhere(f, w["node"]), "the work list starts with the nodes whose parent counter is 0", "Kahn start set deviates: initial work list is %s" % fmt(state[wl_])[:100])
    popped = None
    nxO = w["next"][out_]
    if nxO[0] == "mut" and nxO[1] == muO and nxO[2] == "append" and len(nxO[3]) == 1:
        popped = nxO[3][0]
    ok = popped is not None and popped[0] == "method" and popped[1] == muW and popped[2] == "pop"
    rep.decide("KAHN.emit", ok, fwhere(f, w["node"]), "each round pops one node from the work list and appends exactly that node to the ordering",
              "the emitted node is not the popped node: ordering' = %s" % fmt(nxO)[:100])
    pt = npred(w["test"], True)
    rep.decide("KAHN.loop", pt in (("nonempty", muW), ("atom", muW, True)), fwhere(f, w["node"]), "runs while the work list is non-empty", "loop condition is %s" % pred_fmt(pt))
    if not ok:
        return "entries"
    j = ("elem", fo["iter"])
    same_pattern = [M, ("param", "A")]
    b = M
    while b[0] == "method" and b[2] in ("copy", "astype"):
        b = b[1]
        same_pattern.append(b)
    okc = fo["iter"][0] == "call" and fo["iter"][1] == U + "ch" and fo["iter"][2][:1] == (popped,) and fo["iter"][2][1] in same_pattern
    it_ = fo["iter"]
    core_ = it_
    while core_[0] == "ext" and core_[1] in ("set", "list", "sorted", "tuple") and len(core_[2]) == 1:
        core_ = core_[2][0]
    rowcases = []
    for M_ in same_pattern:
        row = ("sub", M_, ("tuple", (popped, FULL_)))
        row1 = ("sub", M_, popped)
        for r_ in (row, row1):
            nz = ("cmp", "!=", r_, ("const", 0))
            rowcases += [("sub", ("ext", "numpy.where", (nz,), ()), ("const", 0)), ("sub", ("ext", "numpy.nonzero", (nz,), ()), ("const", 0)), ("ext", "numpy.flatnonzero", (nz,), ()),
                         ("ext", "numpy.flatnonzero", (r_,), ()), ("sub", ("ext", "numpy.nonzero", (r_,), ()), ("const", 0))]
    if okc:
        rep.ok("KAHN.children", fwhere(f, fo["node"]), "visits the children of the emitted node (in the unchanged pattern)")
    elif core_ in rowcases:
        # the non-zero entries of row i of the 0/1 pattern: the children, given that the pre-check has excluded two-cycles (a self-loop keeps its
        # own counter positive, so its node is never emitted)
        rep.ok("KAHN.children", fwhere(f, fo["node"]), "visits the non-zero entries of the emitted node's row of the unchanged pattern (its children: two-cycles were rejected before)")
    elif it_[0] == "call" and it_[1].startswith(U):
        rep.bad("KAHN.children", fwhere(f, fo["node"]), "inner loop runs over %s" % fmt(it_)[:100])
    else:
        rep.unk("KAHN.children", fwhere(f, fo["node"]), "inner loop runs over %s: whether these are the children of the emitted node is not read" % fmt(it_)[:100])
    sts = [s_ for s_ in S.select("store", root=q) if lf in s_.loops]
    loopfact = [x for x in S.select("loop", root=q) if x.lid == lf]
    once = len(sts) == 1 and sts[0].base == ("mu", lf, deg_) and sts[0].idx == j and sts[0].aug == "-" and is_const(sts[0].value, 1) and \
        bool(loopfact) and resolve(conj(sts[0].path)) == resolve(conj(loopfact[0].path))
    if not once and len(sts) == 1 and sts[0].base[0] == "mu" and sts[0].base[2] == deg_:
        once = sts[0].idx == j and sts[0].aug == "-" and is_const(sts[0].value, 1) and not [c for c in sts[0].path if c not in (loopfact[0].path if loopfact else ())]
    rep.decide("KAHN.remove-edge", once, fwhere(f, sts[0].node if sts else fo["node"]), "every visited edge i -> j takes one off the counter of j (deg[j] -= 1, unconditionally)",
              "the counter of a child is not decremented exactly once per visited edge")
    if once:
        dupd = ("store", sts[0].base, sts[0].idx, sts[0].value, "-")
        apps = [c for c in S.select("call", root=q) if c.callkind == "method" and c.target == ".append" and lf in c.loops]
        okr = len(apps) == 1 and apps[0].args == [j] and apps[0].recv[0] == "mu" and apps[0].recv[2] == wl_ and apps[0].path and \
            npred(apps[0].path[-1][0], apps[0].path[-1][1]) in (("==0", (((("sub", dupd, j),), 1),)), ("==0", (((("sub", dupd, j),), -1),)), ("atom", ("sub", dupd, j), False)) and \
            tuple(apps[0].path[:-1]) == tuple(sts[0].path) and apps[0].order > sts[0].order
        rep.decide("KAHN.ready", okr, fwhere(f, apps[0].node if apps else None), "a child joins the work list exactly when its counter reaches 0, tested after the decrement",
                  "readiness test is not `deg[j] == 0` on the decremented counter followed by sinks.append(j)")
    kind, node = None, None
    rets = [r_ for r_ in S.select("return", root=q) if r_.value[0] == "after"]
    aD, aO = ("after", lw, deg_), ("after", lw, out_)
    for r in [r for r in S.select("raise", root=q) if r.exctype == "ValueError" and not r.loops and r.path]:
        c, pol = r.path[-1]
        pn = npred(c, pol)
        k_ = None
        if pn in ((">0", (((("method", aD, "sum", (), ()),), 1),)), ("!=0", (((("method", aD, "sum", (), ()),), 1),)), ("atom", ("method", aD, "any", (), ()), True),
                  (">0", (((("ext", "numpy.sum", (aD,), ()),), 1),)), ("atom", ("ext", "numpy.any", (aD,), ()), True),
                  ("atom", ("method", ("cmp", ">", aD, ("const", 0)), "any", (), ()), True), ("atom", ("ext", "numpy.any", (("cmp", ">", aD, ("const", 0)),), ()), True)):
            k_ = "entries"
        elif pn[0] in (">0", "!=0"):
            d = dict(pn[1])
            lo = ("ext", "len", (aO,), ())
            for sz in (("ext", "len", (("param", "A"),), ()), ("ext", "len", (M,), ()), ("sub", ("attr", ("param", "A"), "shape"), ("const", 0)), ("ext", "len", (aD,), ()), ("ext", "len", (state[deg_],), ())):
                if d == {(sz,): 1, (lo,): -1} or (pn[0] == "!=0" and d in ({(sz,): -1, (lo,): 1}, {(sz,): 1, (lo,): -1})):
                    k_ = "entries"          # fewer nodes emitted than there are: nodes on self-loops / two-cycles never become ready in this form
        if k_ and rets and all(r_.value == aO for r_ in rets) and any((c, not pol) in r_.path for r_ in rets):
            kind, node = k_, r.node
    rep.decide("KAHN.leftover", kind is not None, fwhere(f, node), "after the loop: a positive counter is left (or fewer nodes emitted than the graph has) => ValueError; otherwise the ordering is returned",
              "the leftover (cycle) check is missing or does not guard the return")
    return kind


def erased_self_loops(prog, f, S):
    """Even when the loop as a whole is not read, three facts about it can be: (1) a store in the work-list loop clears the whole row of the node just taken
    from the work list (`A[i, :] = 0`, `A[i] = 0`) - its diagonal entry included; (2) readiness of a node is decided by pa(., <working matrix>);
    (3) pa() does not count a self-loop (its pointwise table is False where both A[j, i] and A[i, j] are non-zero, which is the diagonal).
    Then a node with a self-loop and other parents becomes ready once those are emitted, is emitted, and its self-loop is erased with its row: nothing is
    left for any test after the loop.  -> the offending store, or None"""
    q = f.qname
    whiles = [(k, v) for k, v in S.loopinfo.items() if v["func"] == q and v["test"] is not None]
    if len(whiles) != 1:
        return None
    lw, w = whiles[0]
    hit = None
    for st in S.select("store", root=q):
        if lw not in st.loops or not is_const(st.value, 0) or st.base[0] != "mu" or st.base[1] != lw:
            continue
        row = st.idx[1][0] if st.idx[0] == "tuple" and len(st.idx[1]) == 2 and st.idx[1][1] == FULL_ else (st.idx if st.idx[0] != "tuple" else None)
        if row is not None and row[0] == "method" and row[2] in ("pop", "popleft") and row[1][0] == "mu" and row[1][1] == lw:
            hit = st
    if hit is None:
        return None
    terms = list(w["next"].values()) + [c for x in S.facts if x.root == q and lw in getattr(x, "loops", ()) for c, _ in x.path]
    by_pa = any(isinstance(y, tuple) and len(y) == 4 and y[0] == "call" and y[1] == U + "pa" and any(z == hit.base or (isinstance(z, tuple) and z[:1] == ("store",) and z[1] == hit.base) for z in walk(y))
                for t_ in terms for y in walk(t_))
    if not by_pa:
        return None
    try:
        from .C15 import eval_relation, strip_list
        fpa = need(prog, U + "pa")
        Sp = Sym(prog)
        sp, _ = run_function(Sp, fpa)
        rows = eval_relation(strip_list(T(sp.ret)), ("param", "i"), "A")
    except Inconclusive:
        return None
    from .. import signs as _sg
    both = [v for k_, v in rows.items() if k_[0] == k_[1] and k_[0] != _sg.Z]
    return hit if both and not any(both) else None


def cycle_rules(rep, prog, f, leftover, S=None):
    """every kind of cycle is rejected by the pre-check or by the leftover check - whatever the signs"""
    fpre, cov = PW.precheck_coverage(prog)
    w = fwhere(f, cov["node"]) if cov["node"] is not None else fwhere(f)
    if leftover == "unread" and S is not None and not cov["diag"]:
        st_ = erased_self_loops(prog, f, S)
        if st_ is not None:
            rep.bad("CYCLES.self-loop", fwhere(f, st_.node), "a self-loop on a node with other parents is accepted: the pre-check skips the diagonal (%s), pa() does not count a self-loop, so the "
                    "node becomes ready after its other parents, and this store clears its whole row - the self-loop with it - before any test after the loop" % cov["why"][:100])
            for nm_, covered in (("CYCLES.two-cycle", cov["pairs"]),):
                (rep.ok if covered else rep.unk)(nm_, w, "rejected by the pre-check" if covered else "not covered by the pre-check, and the loop after it is not read")
            rep.unk("CYCLES.longer", w, "whether longer cycles are caught depends on the loop, which is not read")
            return
    if leftover == "unread":
        # the loop is written in a form the Kahn rules do not read: what the leftover test catches is not known either
        if cov["false_rejections"]:
            rep.bad("CYCLES.false-rejection", w, "the pre-check also fires on acyclic patterns (entry pairs %s): valid DAGs are rejected" % cov["false_rejections"][:4])
        for nm_, covered in (("CYCLES.self-loop", cov["diag"]), ("CYCLES.two-cycle", cov["pairs"])):
            if covered:
                rep.ok(nm_, w, "rejected by the pre-check")
            else:
                rep.unk(nm_, w, "not covered by the pre-check, and the loop after it is not read")
        rep.unk("CYCLES.longer", w, "whether longer cycles are caught depends on the loop, which is not read")
        return
    if cov["false_rejections"]:
        rep.bad("CYCLES.false-rejection", w, "the pre-check also fires on acyclic patterns (entry pairs %s): valid DAGs are rejected" % cov["false_rejections"][:4])
    # entries on the diagonal / of two-cycles are never removed by Kahn's loop (it only clears edges to *children*, and
    # ch() excludes both - C15's table), so an "entries left" test after the loop catches them as well
    rep.check("CYCLES.self-loop", cov["diag"] or leftover == "entries", w,
              "self-loops of any sign are rejected (%s)" % ("pre-check covers the diagonal" if cov["diag"] else "their entry survives to the leftover test"),
              "a self-loop on a node with other parents is accepted: the pre-check skips the diagonal (%s) and the final test only counts emitted nodes" % cov["why"][:120])
    rep.check("CYCLES.two-cycle", cov["pairs"] or leftover == "entries", w,
              "two-cycles of any sign are rejected (%s)" % ("pre-check: both entries non-zero" if cov["pairs"] else "their entries survive to the leftover test"),
              "a two-cycle can be accepted: %s" % (cov["why"][:160] or "no pre-check and a count-based final test"))
    rep.check("CYCLES.longer", leftover in ("entries", "count"), w, "longer cycles never drain and are caught after the loop", "nothing rejects cycles of length >= 3")


def strip_conv(c):
    """len(np.asarray(A)) / len((A != 0).astype(int)) -> len(A): conversions keep the number of nodes"""
    def rec(t):
        if not isinstance(t, tuple) or not t or not isinstance(t[0], str):
            return tuple(rec(x) for x in t) if isinstance(t, tuple) else t
        if t[0] == "ext" and t[1] in ("numpy.asarray", "numpy.array", "numpy.atleast_2d") and len(t[2]) == 1:
            return rec(t[2][0])
        if t[0] == "method" and t[2] in ("astype", "copy"):
            return rec(t[1])
        if t[0] == "cmp" and t[1] == "!=" and is_const(t[3], 0) and isinstance(t[2], tuple) and t[2][:1] == ("param",):
            return t[2] if False else t
        return tuple(rec(x) for x in t)
    def lens(t):
        # len(<pattern of A>) -> len(A)
        if isinstance(t, tuple) and len(t) == 4 and t[0] == "ext" and t[1] == "len" and len(t[2]) == 1:
            x = t[2][0]
            while isinstance(x, tuple) and len(x) > 2 and ((x[0] == "method" and x[2] in ("astype", "copy")) or (x[0] == "cmp" and x[1] == "!=" and is_const(x[3], 0))):
                x = x[1] if x[0] == "method" else x[2]
            return ("ext", "len", (x,), ())
        if isinstance(t, tuple):
            return tuple(lens(x) for x in t)
        return t
    return lens(rec(c))


def acyclicity_core(rep, prog):
    """what every `graph is not a DAG -> ValueError` clause of the library rests on: is_dag is exactly "topological_ordering
    returned", Kahn's loop has its shape, and every kind of cycle is rejected by the pre-check or the leftover test"""
    # 2. is_dag == "topological_ordering returns"
    wrapper_predicate(rep, prog, U + "is_dag", U + "topological_ordering", "A")

    # 3. topological_ordering itself: rejects by ValueError, result derives from A
    f = need(prog, U + "topological_ordering")
    S = Sym(prog, inline=inline_helpers(prog, "sempler.utils"))
    summ, _ = run_function(S, f)
    rs = [r for r in S.select("raise", root=f.qname)]
    rep.check("TOPO.raises", len(rs) >= 1 and all(r.exctype == "ValueError" for r in rs), fwhere(f),
              "%d rejection sites, all ValueError" % len(rs), "rejections are not ValueError raises: %s" % [r.exctype for r in rs])
    rets = S.select("return", qname=f.qname)
    rep.check("TOPO.returns", bool(rets) and all(not is_const(r.value) and r.value not in (("list", ()), ("tuple", ())) for r in rets), fwhere(f),
              "returns the computed ordering", "returns a constant")
    # a return that is not reached through Kahn's loop (a "trivial graph" fast path) skips the pre-check and the leftover test:
    # it may only concern the graph without nodes - a 1 x 1 matrix can hold a self-loop
    loops_q = [v for k, v in S.loopinfo.items() if v["func"] == f.qname or v["func"] in {x.qname for x in S.facts if x.root == f.qname}]
    first_loop = min([getattr(v["node"], "lineno", 10**9) for v in loops_q] or [10**9])
    A_ = ("param", "A")
    empty_forms = []
    for ln_ in (("ext", "len", (A_,), ()), ("sub", ("attr", A_, "shape"), ("const", 0)), ("attr", A_, "size")):
        empty_forms += [npred(("cmp", "==", ln_, ("const", 0)), True), npred(("cmp", "<", ln_, ("const", 1)), True), npred(("cmp", "<=", ln_, ("const", 0)), True)]
    def after_loop(r):
        # reached through the work-list loop: its path (or its value) mentions a loop result
        return any(isinstance(x, tuple) and x and x[0] == "after" for c, _ in r.path for x in walk(c)) or \
            any(isinstance(x, tuple) and x and x[0] == "after" for x in walk(r.value))
    for r in rets:
        if not after_loop(r):
            conds = [npred(strip_conv(c), pol) for c, pol in r.path]
            pat_forms = [("cmp", "!=", A_, ("const", 0)), ("method", ("cmp", "!=", A_, ("const", 0)), "astype", (("extref", "int"),), ()),
                         ("method", ("cmp", "!=", A_, ("const", 0)), "astype", (("extref", "bool"),), ()), ("method", A_, "astype", (("extref", "bool"),), ())]
            edgeless = []
            for pt_ in pat_forms:
                edgeless += [npred(("method", pt_, "any", (), ()), False), npred(("cmp", "==", ("method", pt_, "sum", (), ()), ("const", 0)), True),
                             npred(("cmp", "==", ("ext", "numpy.count_nonzero", (pt_,), ()), ("const", 0)), True), npred(("ext", "numpy.any", (pt_,), ()), False)]
            edgeless += [npred(("cmp", "==", ("ext", "numpy.count_nonzero", (A_,), ()), ("const", 0)), True)]
            raw_conds = [npred(c, pol) for c, pol in r.path]

            def size_only(c_, pol_):
                # the condition reads nothing of the matrix but its size
                sizes = (("ext", "len", (A_,), ()), ("attr", A_, "shape"), ("attr", A_, "size"), ("attr", A_, "ndim"))
                stripped = strip_conv(c_)
                mentions_A = [x for x in walk(stripped) if x == A_]
                inside = [x for x in walk(stripped) if x in sizes]
                return bool(mentions_A) and len(mentions_A) == len(inside)
            if any(c in empty_forms for c in conds):
                rep.ok("TOPO.fast-path", fwhere(f, r.node), "early return for the graph without nodes only")
            elif any(c in edgeless for c in raw_conds):
                # no non-zero entry at all: nothing to reject; the value must still list every node
                allnodes = any(isinstance(x, tuple) and len(x) == 4 and x[0] == "ext" and x[1] in ("numpy.where", "numpy.flatnonzero", "range", "numpy.arange") for x in walk(r.value))
                if allnodes:
                    rep.ok("TOPO.fast-path", fwhere(f, r.node), "early return for the graph without edges only (every node is a source; any order is topological)")
                else:
                    rep.unk("TOPO.fast-path", fwhere(f, r.node), "early return for the graph without edges: whether %s lists every node is not read" % fmt(r.value)[:60])
            elif r.path and all(size_only(c, pol) for c, pol in r.path if not any(isinstance(x, tuple) and x[:2] == ("call", U + "only_undirected") for x in walk(c))):
                rep.bad("TOPO.fast-path", fwhere(f, r.node), "an ordering is returned before the cycle checks under `%s`: a graph this condition admits (e.g. the 1 x 1 matrix "
                        "with a non-zero entry, a self-loop) is accepted without being tested" % "; ".join(pred_fmt(c) for c in conds)[:120])
            else:
                rep.unk("TOPO.fast-path", fwhere(f, r.node), "an ordering is returned before the work-list loop under `%s`: whether this condition admits a graph with a cycle is not decided" %
                        "; ".join(pred_fmt(c) for c in conds)[:120])
    leftover = kahn_rules(rep, prog, f, S)
    cycle_rules(rep, prog, f, leftover, S)
    # is_dag turns *every* ValueError of topological_ordering into "not a DAG": a rejection that looks at the element type of the
    # matrix (dtype / kind / issubdtype) rather than at its edges makes is_dag answer False - and the constructors raise - for
    # acyclic matrices of the types it leaves out (unsigned integers, ...).  Shape checks concern non-matrices and are fine.
    typed = []
    for r in rs:
        for cnd, pol in r.path:
            if any(isinstance(x, tuple) and ((x[0] == "attr" and x[2] in ("dtype", "kind", "itemsize")) or
                                               (x[0] == "ext" and x[1] in ("numpy.issubdtype", "numpy.can_cast", "numpy.isrealobj", "numpy.iscomplexobj", "numpy.result_type")))
                   for x in walk(cnd)):
                typed.append(r)
                break
    if typed:
        rep.bad("TOPO.type-rejection", fwhere(f, typed[0].node), "a ValueError depends on the dtype of the matrix: is_dag (which maps every ValueError to False) and the "
                "constructors then reject acyclic matrices of the dtypes the test leaves out")
    else:
        rep.ok("TOPO.type-rejection", fwhere(f), "no rejection depends on the element type of the matrix")


def run(prog, rep, tier):
    # 1. PATTERN
    entries = [(U + "is_dag", "A"), (U + "topological_ordering", "A"),
               ("sempler.lganm.LGANM.__init__", "W"), ("sempler.anm.ANM.__init__", "A"),
               ("sempler.semi.BayesianNetwork.__init__", "graph"), ("sempler.semi.DRFNet.__init__", "graph")]
    P, objs = pattern_entries(prog, rep, entries, any_graph=True)       # what is tested for acyclicity may be any weighted graph
    for q, attr in (("sempler.anm.ANM.__init__", "ordering"), ("sempler.semi.BayesianNetwork.__init__", "_ordering")):
        obj = objs.get(q)
        if obj is None:
            continue
        f = need(prog, q)
        if attr not in obj.attrs:
            rep.bad_form("PAT.ordering", fwhere(f), "constructor no longer stores a topological ordering in self.%s" % attr)
        else:
            lvl = PT.lvl_of(obj.attrs[attr])
            rep.check("PAT.ordering", lvl <= PT.PAT, fwhere(f), "stored ordering self.%s is pattern-only" % attr,
                      "stored ordering self.%s depends on weight values" % attr)
    rep.require_count("PAT.entry", 6)

    acyclicity_core(rep, prog)

    # 4. gates of the three constructors
    S1 = dag_gate(rep, prog, "sempler.lganm.LGANM.__init__", "W")
    f1 = need(prog, "sempler.lganm.LGANM.__init__")
    calls = [c for r in S1.select("raise", qname=f1.qname) for c, pol in gate_atoms(r.path, U + "is_dag") if pol is False]
    if calls:
        uses_same_matrix(rep, S1, f1, calls[0], "W", "GATE")
    S2 = dag_gate(rep, prog, "sempler.semi.BayesianNetwork.__init__", "graph")
    f2 = need(prog, "sempler.semi.BayesianNetwork.__init__")
    calls = [c for r in S2.select("raise", qname=f2.qname) for c, pol in gate_atoms(r.path, U + "is_dag") if pol is False]
    if calls:
        uses_same_matrix(rep, S2, f2, calls[0], "graph", "GATE")
    # ANM: direct call, no handler, before any store
    f3 = need(prog, "sempler.anm.ANM.__init__")
    S3 = Sym(prog)
    run_function(S3, f3)
    cs = [c for c in S3.select("call", qname=f3.qname) if c.target == U + "topological_ordering"
          and c.args and derives_patternwise(c.args[0], "A")]
    if not cs:
        rep.bad_form("GATE.anm", fwhere(f3), "ANM.__init__ does not run topological_ordering on A")
    else:
        c = cs[0]
        handled = any(t in ("*", "ValueError", "Exception", "BaseException") for _, ts in getattr(c, "in_try", []) for t in ts)
        (rep.decide if handled else rep.check)("GATE.anm", not handled and not c.path, fwhere(f3, c.node),
                  "topological_ordering(A) is called unconditionally and its ValueError propagates",
                  "the ValueError of topological_ordering(A) is swallowed or the call is conditional")
        stores = S3.select("attrstore", qname=f3.qname)
        # attributes stored before an unconditional check are harmless in a constructor: when it raises, no object exists
        def size_only(v):          # len(A) / A.shape[k]: a size, not the matrix
            return (v[0] == "ext" and v[1] == "len") or (v[0] == "sub" and v[1][0] == "attr" and v[1][2] == "shape") or (v[0] == "attr" and v[2] == "shape")
        st = [s for s in stores if ("param", "A") in atoms(s.value) and s.attr != "ordering" and not size_only(s.value)]
        # the matrix the sampler reads is self.A; other attributes computed from A (cached parent lists, counts) are not "the stored matrix"
        stA = [s for s in st if s.attr == "A"]
        if stA:
            rep.decide("GATE.anm.stored", all(derives_patternwise(s.value, "A") for s in stA),
                       fwhere(f3), "the stored matrix is (a copy of) the checked one", "the stored matrix is not the checked one")
        elif st:
            rep.unk("GATE.anm.stored", fwhere(f3), "no attribute `A` is stored; which of %s is the matrix the sampler reads is not decided" % sorted({s.attr for s in st}))
        else:
            rep.bad_form("GATE.anm.stored", fwhere(f3), "the constructor stores nothing derived from the checked matrix")
    # DRFNet delegates to BayesianNetwork.__init__ with the same graph, first thing
    f4 = need(prog, "sempler.semi.DRFNet.__init__")
    S4 = Sym(prog)
    run_function(S4, f4)
    sup = [c for c in S4.select("call", qname=f4.qname) if c.target == "sempler.semi.BayesianNetwork.__init__"]
    first_other = [x for x in S4.facts if x.qname == f4.qname and x.kind in ("attrstore", "store")]
    ok = bool(sup) and sup[0].args and sup[0].args[0] == ("param", "graph") and not sup[0].path and \
        all(x.order > sup[0].order for x in first_other)
    rep.check("GATE.drfnet", ok, fwhere(f4), "super().__init__(graph, ...) runs first, unconditionally",
              "DRFNet.__init__ does not delegate the graph check to BayesianNetwork.__init__ before fitting")

    # 5. API gates
    # deciding acyclicity must not change the matrix it is asked about (Kahn's loop works on its own copy)
    from .common import no_foreign_writes
    no_foreign_writes(rep, prog, U + "topological_ordering", rule="OWN.kahn")
    no_foreign_writes(rep, prog, U + "is_dag", rule="OWN.is_dag")
    for q, p in GATES:
        dag_gate(rep, prog, q, p, rule="GATE.api")
    rep.require_count("GATE", 20)
    rep.assume("Kahn's loop (each node once, every edge forward) is not decided statically; see DESIGN.md C03")
    rep.analysed["sym.facts"] = len(S1.facts) + len(S2.facts)
