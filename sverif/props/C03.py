"""C03 - acyclicity test and topological order are exact for any weights (structural part).

Decided: (PATTERN) every decision taken by is_dag / topological_ordering and by the constructors'
accept/reject verdict depends on the matrix only through its zero pattern - no sum, product or ordered
comparison of raw weights reaches a branch, an index or the result; (WRAP) is_dag is exactly
"topological_ordering returned"; (GATE) each constructor / API gate raises ValueError from that verdict,
on the very matrix it then stores or uses, before storing or using it; (PRECHECK) the self-loop /
two-cycle pre-check tests `a != 0 and b != 0` on every pair including the diagonal.
Not decided: the inductive correctness of Kahn's loop itself.
"""
from .common import *
from ..sym import Sym, run_function
from .. import pw as PW

EXPLANATION = __doc__

GATES = [(U + "transitive_closure", "A"), (U + "mec", "A"), (U + "imec", "A"), (U + "is_consistent_extension", "G"),
         (U + "to_factorization", "G"), (U + "order_edges", "G"), (U + "label_edges", "ordered")]


def run(prog, rep, tier):
    # 1. PATTERN
    entries = [(U + "is_dag", "A"), (U + "topological_ordering", "A"),
               ("sempler.lganm.LGANM.__init__", "W"), ("sempler.anm.ANM.__init__", "A"),
               ("sempler.semi.BayesianNetwork.__init__", "graph"), ("sempler.semi.DRFNet.__init__", "graph")]
    P, objs = pattern_entries(prog, rep, entries)
    for q, attr in (("sempler.anm.ANM.__init__", "ordering"), ("sempler.semi.BayesianNetwork.__init__", "_ordering")):
        obj = objs.get(q)
        if obj is None:
            continue
        f = need(prog, q)
        if attr not in obj.attrs:
            rep.bad("PAT.ordering", fwhere(f), "constructor no longer stores a topological ordering in self.%s" % attr)
        else:
            lvl = PT.lvl_of(obj.attrs[attr])
            rep.check("PAT.ordering", lvl <= PT.PAT, fwhere(f), "stored ordering self.%s is pattern-only" % attr,
                      "stored ordering self.%s depends on weight values" % attr)
    rep.require_count("PAT.entry", 6)

    # 2. is_dag == "topological_ordering returns"
    wrapper_predicate(rep, prog, U + "is_dag", U + "topological_ordering", "A")

    # 3. topological_ordering itself: rejects by ValueError, result derives from A
    f = need(prog, U + "topological_ordering")
    S = Sym(prog)
    summ, _ = run_function(S, f)
    rs = [r for r in S.select("raise", qname=f.qname)]
    rep.check("TOPO.raises", len(rs) >= 2 and all(r.exctype == "ValueError" for r in rs), fwhere(f),
              "%d rejection sites, all ValueError" % len(rs), "rejection sites are not (at least two) ValueError raises: %s" %
              [r.exctype for r in rs])
    rets = S.select("return", qname=f.qname)
    rep.check("TOPO.returns", bool(rets) and all(not is_const(r.value) for r in rets), fwhere(f),
              "returns the computed ordering", "returns a constant")
    PW.precheck_rule(prog, rep)

    # 4. gates of the three constructors
    S1 = dag_gate(rep, prog, "sempler.lganm.LGANM.__init__", "W")
    f1 = need(prog, "sempler.lganm.LGANM.__init__")
    calls = [c for r in S1.select("raise", qname=f1.qname) for c, pol in gate_atoms(r.path, U + "is_dag") if pol is False]
    if calls:
        uses_same_matrix(rep, S1, f1, calls[0], "W", "GATE")
    S2 = dag_gate(rep, prog, "sempler.semi.BayesianNetwork.__init__", "graph")
    f2 = need(prog, "sempler.semi.BayesianNetwork.__init__")
    calls = [c for r in S2.select("raise", qname=f2.qname) for c, pol in gate_atoms(r.path, U + "is_dag") if pol is False]
    if calls:
        uses_same_matrix(rep, S2, f2, calls[0], "graph", "GATE")
    # ANM: direct call, no handler, before any store
    f3 = need(prog, "sempler.anm.ANM.__init__")
    S3 = Sym(prog)
    run_function(S3, f3)
    cs = [c for c in S3.select("call", qname=f3.qname) if c.target == U + "topological_ordering"
          and c.args and derives_patternwise(c.args[0], "A")]
    if not cs:
        rep.bad("GATE.anm", fwhere(f3), "ANM.__init__ does not run topological_ordering on A")
    else:
        c = cs[0]
        handled = any(t in ("*", "ValueError", "Exception", "BaseException") for _, ts in getattr(c, "in_try", []) for t in ts)
        rep.check("GATE.anm", not handled and not c.path, fwhere(f3, c.node),
                  "topological_ordering(A) is called unconditionally and its ValueError propagates",
                  "the ValueError of topological_ordering(A) is swallowed or the call is conditional")
        stores = S3.select("attrstore", qname=f3.qname)
        early = [s for s in stores if s.order < c.order]
        rep.check("GATE.anm.order", not early, fwhere(f3, c.node), "no attribute is stored before the check",
                  "attributes are stored before the acyclicity check")
        st = [s for s in stores if ("param", "A") in atoms(s.value) and s.attr != "ordering"]
        rep.check("GATE.anm.stored", bool(st) and all(derives_patternwise(s.value, "A") or s.value[0] == "ext" for s in st),
                  fwhere(f3), "the stored matrix is (a copy of) the checked one", "the stored matrix is not the checked one")
    # DRFNet delegates to BayesianNetwork.__init__ with the same graph, first thing
    f4 = need(prog, "sempler.semi.DRFNet.__init__")
    S4 = Sym(prog)
    run_function(S4, f4)
    sup = [c for c in S4.select("call", qname=f4.qname) if c.target == "sempler.semi.BayesianNetwork.__init__"]
    first_other = [x for x in S4.facts if x.qname == f4.qname and x.kind in ("attrstore", "store")]
    ok = bool(sup) and sup[0].args and sup[0].args[0] == ("param", "graph") and not sup[0].path and \
        all(x.order > sup[0].order for x in first_other)
    rep.check("GATE.drfnet", ok, fwhere(f4), "super().__init__(graph, ...) runs first, unconditionally",
              "DRFNet.__init__ does not delegate the graph check to BayesianNetwork.__init__ before fitting")

    # 5. API gates
    for q, p in GATES:
        dag_gate(rep, prog, q, p, rule="GATE.api")
    rep.require_count("GATE", 20)
    rep.assume("Kahn's loop (each node once, every edge forward) is not decided statically; see DESIGN.md C03")
    rep.analysed["sym.facts"] = len(S.facts) + len(S1.facts) + len(S2.facts)
