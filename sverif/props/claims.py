"""What each check claims (MANIFEST level text / notes / technique).  One place, regenerated into
MANIFEST.json by tools/gen_manifest.py."""

NOT_APPLICABLE = {}

_T = "sound structural necessary conditions of the property, decided exhaustively over the current source of /repo " \
     "(every rule instance listed in the evidence); not a behavioural proof. An entry point behind user-defined decorators is " \
     "analysed through its wrappers, once per way of passing the arguments (DECOR.slots / .signature / .state / .cache-key); " \
     "monkeypatched or rebound names, class decorators and stateful decorators make the check inconclusive, never silent. " \
     "Every function a check analyses is also searched for silent Python / numpy traps (TRAP.*: np.all of a generator, a None-returning " \
     "method assigned, `is` against a literal, np.max of two arrays). " \
     "A rule reports a violation only for a deviation it reads; a construct in a form it does not read, and any failed form rule in a function " \
     "that was restructured since the rule instances were confirmed (new helpers, five or more rewritten statements: sverif/shape.py), " \
     "is reported as ANALYSIS-ERROR (exit 2), never as VIOLATION and never as a pass. "

CLAIMS = {
    "C01": dict(
        text=_T + "Decides the per-target outcome table of do/noise/shift (precedence, add vs replace, incoming edges "
             "cut column-wise), the record layout between _parse_interventions and LGANM.sample, lossless (float) dtype "
             "of the working arrays, scalar => variance 0, range sampling slots, and equality of the population formulas "
             "with (I-W^T)^-1 mu and A diag(v) A^T over the reals (differing normal forms are refuted by exact rational evaluation), that "
             "the whole weight matrix enters the computation, that no decision depends on weight values, nothing but own "
             "allocations is written, and the result reads no attribute of the model other than W / means / variances / p (no caches)."
             " Also: W / means / variances stored by the constructor are the object's own copies (CTOR.own).",
        note="Not decided: floating-point error of the inverse; numpy's uniform respecting its bounds (trusted API model). "
             "Trusted: Python semantics of the subset used, sverif/api.py.",
        technique="static analysis: predicate-abstraction case tables + symbolic value numbering with matrix normal form + dtype/slot dataflow over the AST"),
    "C02": dict(
        text=_T + "Decides the 8-row outcome table of ANM.sample (do / shift / noise / none and overlaps), that parent "
             "columns are selected by the boolean mask of column i of the stored matrix, that the loop runs over the "
             "ordering computed once in the constructor from the same matrix, None -> null -> 0, the n x p result, no hidden model state, "
             "one reseed per call before the loop, and that constructor and sampler write nothing they do not own."
             " Also: index tables the constructor prepares per node (self._parents[i]) are read as the expression they hold: parents must come in increasing index (sorted / flatnonzero / integer array), not in set-iteration order.",
        note="Not decided: that topological_ordering returns a topological order (C03's undecided core); numpy broadcasting.",
        technique="static analysis: case tables by predicate abstraction over symbolic terms, dependence (REL) rules"),
    "C03": dict(
        text=_T + "Decides that every acyclicity/ordering decision depends on the matrix only through its zero pattern "
             "(no sum/product/ordered comparison of raw weights reaches a branch, index or result), that is_dag is exactly "
             "'topological_ordering returned', that the self-loop/two-cycle pre-check counts a pair iff both entries are "
             "non-zero on all 9 sign pairs and the diagonal, and that each constructor/API gate raises ValueError from that "
             "verdict on the matrix it then stores, before storing it. Also decides the shape of Kahn's loop (sources = zero "
             "in-degree of the pattern, pop -> emit once, remove the emitted node's out-edges, child ready iff no parent left in the "
             "updated matrix, leftover test guards the return) and that every kind of cycle is rejected by the pre-check or by the "
             "leftover test, and that deciding acyclicity never writes the matrix it is asked about.",
        note="Not decided: the inductive argument that Kahn's loop with this shape emits every node exactly once in a forward order.",
        technique="static analysis: zero-pattern taint (abstract interpretation, interprocedural), sign-domain pointwise tables, guard dominance over symbolic path conditions"),
    "C04": dict(
        text=_T + "Decides that the finite-sample path draws from the very distribution object returned in population "
             "mode, that (mean, cov, size=n) reach numpy's multivariate_normal in the right slots, that n and "
             "random_state are forwarded, that noise.normal hands a standard deviation (var**0.5), and that neither sampler reads or writes "
             "model state beyond its defining attributes.",
        note="Not decided: anything statistical (rates, i.i.d.); numpy's sampler is the trusted base.",
        technique="static analysis: slot/role dataflow over symbolic terms"),
    "C05": dict(
        text=_T + "Decides that the requested index order reaches every indexing site through order-keeping operations "
             "only, that the conditional/marginal formulas equal the Schur-complement references over the reals (matrix "
             "normal form), and that the three ValueError guards exist, test the right quantities and precede the first "
             "inverse.",
        note="Not decided: floating-point accuracy; the metamorphic identities follow from exactness and are not separately checked.",
        technique="static analysis: matrix-algebra normal form of symbolic terms, order-class dataflow, guard dominance"),
    "C06": dict(
        text=_T + "Decides that coefficients, intercept and MSE equal the normal-equation references over the reals, that "
             "coefficients are written only at (a re-ordering of) S over a zero base with value and positions in the same order, and that mse "
             "does not depend on the means; differing forms are refuted by exact rational evaluation at a point with S in cyclic order.",
        note="Not decided: monotonicity/invariance corollaries; the LGANM causal link (a theorem combining C01 and the normal equations).",
        technique="static analysis: matrix normal form, write-set and must-not-depend rules over symbolic terms"),
    "C07": dict(
        text=_T + "Narrow: decides zero-pattern dependence of mec / is_consistent_extension, the DAG gates, canonical v-structure triples, that the "
             "membership predicate depends on all three defining conditions, that every element all_dags returns passed "
             "both filters and derives from a copy of the input with only undirected-edge entries cleared, that the loop "
             "runs over {True,False}^u with complementary masks and swapped columns for the two orientations, the dispatch "
             "between shortcut and general path (the chain test must be the exact value test), and the chain shortcut's "
             "interval partition."
             " Also: the reference chain is_chain_graph compares with is built afresh on every call (CHAIN.test.reference).",
        note="Not decided: completeness/uniqueness of the 2^u enumeration; equality of the chain shortcut and the general path.",
        technique="static analysis: zero-pattern taint, must-depend (REL) and dominance rules over symbolic terms"),
    "C08": dict(
        text=_T + "Narrow: decides zero-pattern dependence of dag_to_cpdag / order_edges / pdag_to_dag / pdag_to_cpdag, agreement of the label constants "
             "between labeller and assembler, that every labelled edge lands in the CPDAG (skeleton kept), that the "
             "extension search's ValueError propagates through pdag_to_cpdag, and the passes of order_edges / label_edges role by role "
             "(which edge is selected, column vs row of every lookup, what each branch writes, end of pass, and the compelled/reversible "
             "choice as a set predicate over pa(y), {x}, pa(x) in all admissible worlds).",
        note="Not decided: that an algorithm of this shape marks exactly the compelled edges (Chickering's theorem).",
        technique="static analysis: zero-pattern taint, writer/reader constant agreement, exception propagation"),
    "C09": dict(
        text=_T + "Narrow: decides that the code *is* Dor-Tarsi's search and Meek's rules, clause by clause - not the theorems about them. "
             "pdag_to_dag: the node removed in a round is childless in the remaining graph (set predicate over ch(i, P), both worlds) and, for "
             "every neighbour y (quantifier and domain read from the comprehension), adj(i) - {y} <= adj(y) (every admissible Venn world of adj(i), "
             "{y}, adj(y), neighbors(i)), both joined by `and`; the scan tries every remaining node (from 0, one step exactly when not admissible, "
             "while i < len(P)); ValueError exactly when a scan fails while nodes remain (path condition of the raise); result = directed part + the "
             "sink's undirected edges towards it, under real node names while matrix and name list shrink together. has_consistent_extension: the "
             "2-row table True <=> the search returns, False <=> it raises ValueError, nothing else caught. maximally_orient: fails first for PDAGs "
             "without extension, works on a copy, candidates = undirected edges, a branch guarded by rule_1..4(a, b, P) clears exactly P[b, a], all four "
             "rules in both directions, repeated until a pass orients nothing; rule_1 / rule_2 equal Meek's rules as set predicates in every Venn world "
             "(also against the other node relations when the code uses those), rule_3 / rule_4 role by role; pa / ch / neighbors / adj by their pointwise tables.",
        note="Not decided: that Dor-Tarsi's condition characterises extendability, that rules 1-4 are sound and complete with background knowledge (the "
             "theorems the property rests on), and termination; these need a proof or exhaustive evaluation, which is another technique family.",
        technique="static analysis: exhaustive Venn-world tables of set predicates extracted from symbolic terms, path-condition (dominance) rules, index-orientation agreement, pointwise sign tables",
        design_ref="DESIGN.md §4 C09, §10.26"),
    "C10": dict(
        text=_T + "Narrow: decides zero-pattern dependence of imec/dag_to_icpdag, the I ⊆ [p] and undirected-edge-at-target "
             "guards, orientation agreement of the edges cleared at targets and in maximally_orient, that the chain filter "
             "compares parent columns, that results depend on I, that I = {} degenerates to the CPDAG path, that rule_1 / "
             "rule_2 equal their set-theoretic definitions in every world of the two sets involved (exhaustive Venn-region tables), and "
             "rule_3 / rule_4 role by role (witness sets as set expressions, distinctness, the non-adjacency test)."
             " Also: the pass flag of maximally_orient is raised on the path of every orienting store and never recomputed per edge; rule_3 / rule_4 return no computed answer from inside their search loops; the reference chain of is_chain_graph is built afresh.",
        note="Not decided: exactness of the class and of the essential graph; the soundness/completeness of the rule set itself (C09).",
        technique="static analysis: zero-pattern taint, guard dominance, index-orientation agreement over symbolic terms"),
    "C11": dict(
        text=_T + "Decides strict upper triangle, the same random permutation on both axes, ordering = argsort(permutation), "
             "weights uniform(w_min, w_max) masked by 0/1, edge probability k/(p-1) with a Bernoulli threshold idiom, "
             "generator seeded from random_state; on every return path (fast paths included) the ordering comes from a draw."
             " Also: a relabelling drawn by choice without replace=False is decided (not a permutation); the generators write only arrays they allocated (FRESH.*: no memoised mask written in place).",
        note="Not decided: distributional facts beyond the idiom (numpy's generator is trusted).",
        technique="static analysis: index-space typing and slot dataflow over symbolic terms, scalar normal form"),
    "C12": dict(
        text=_T + "Decides K iterations x one append, replace=False inside each intervention, inclusive upper size bound, "
             "shrinking pool when replace=False, that the three guards' predicates equal the stated ones (boundary exact), and that building "
             "an error message cannot itself raise (% formatting of a possibly-tuple argument)."
             " Also: no branch or default takes the truth value of K / size / p (0 is a legal value: FALSY.zero).",
        note="Not decided: 'over seeds every size and variable occurs' (statistical).",
        technique="static analysis: predicate normal forms, slot dataflow, loop-carried dependence"),
    "C13": dict(
        text=_T + "Decides for every API with a random_state that each reachable draw comes from default_rng(random_state) "
             "built once, or from the global stream after an `is not None`-guarded reseed with that very parameter; no "
             "fallback seed; unseeded sampling never seeds; no seeded API writes into its arguments, the model or module state."
             " Also: a generator chosen by a test the seeded mode does not decide (isinstance(seed, int) - false for numpy integers) is 'either of two'; a seeded / unseeded mixture is reported.",
        note="Trusted: numpy generators are deterministic functions of their seed; user callables may read the global stream.",
        technique="static analysis: interprocedural randomness-provenance/effect analysis (abstract interpretation with must-seeded state) + ownership analysis"),
    "C14": dict(
        text=_T + "Decides that no write reaches an object reachable from a parameter or (outside __init__) from self, that "
             "constructors store fresh copies, that nothing returned aliases caller or model storage, and that default "
             "arguments and module state are never written.",
        note="Frozen exceptions: cartesian(out=) (documented buffer), matrix_block judged at its call sites. User callables are assumed not to mutate their arguments.",
        technique="static analysis: ownership / alias / mutation abstract interpretation with an API alias model"),
    "C15": dict(
        text=_T + "Decides the truth tables of pa/ch/neighbors/adj/na over the sign domain, that reachability functions "
             "use the right primitive relation with a transitivity witness and the stated start-node convention, the "
             "successor relation and visited-exclusion of the path search, and the separates guard.",
        note="Not decided: that the explicit-stack search enumerates every simple path exactly once.",
        technique="static analysis: pointwise sign-domain tables (exhaustive over 8 admissible pairs), must-depend rules"),
    "C16": dict(
        text=_T + "Decides exact pointwise tables of only_directed, only_undirected (sum = input), skeleton, edge lists, "
             "edge_weights, induced_subgraph; counting identities of is_clique/is_complete/degrees; the v-structure "
             "condition; moral graph = skeleton + married parents.",
        note="Tables are exhaustive over the 8 admissible entry pairs (x boolean atoms); loops over colliders are judged by their per-iteration condition.",
        technique="static analysis: pointwise sign-domain tables (exhaustive), case tables"),
    "C17": dict(
        text=_T + "Decides that the remainder branch is reachable exactly for the last fold, slices are contiguous with the "
             "cursor advanced by the slice length, no possibly-undefined read, folds come from the environment's shuffled "
             "copy, the ratio-sum test is tolerance based (1e-12 <= tol <= 1e-6), and the shuffle is seeded.",
        note="Not decided: uniformity of the shuffle (numpy).",
        technique="static analysis: interval/range reasoning on loop indices, definite assignment, predicate normal forms"),
    "C18": dict(
        text=_T + "Decides that the 0/1 pattern is taken first, copies are used, the generator is seeded, "
             "choice(edges, no_edges, replace=False), candidates are non-adjacent non-loop pairs in both orientations, a "
             "candidate becomes the result only under is_dag, and the guards' predicates are boundary exact.",
        note="Assumed (graph argument, not a code fact): trying every non-adjacent ordered pair reaches the complete DAG.",
        technique="static analysis: zero-pattern taint, predicate normal forms, dominance and slot dataflow"),
    "C19": dict(
        text=_T + "Decides writer/reader agreement of the (node, environment) forest slots and of sorted parent columns, "
             "one forest object per slot (allocated inside both loops), children generated from synthetic parent columns in topological order, one generator per seeded call with "
             "the global stream reseeded before forest draws, a guard per documented TypeError/ValueError clause, and in drf.predict('sample') "
             "that the drawn id, its population, its weights row and the training row read back agree.",
        note="Not decided: that the R forest's weights are meaningful (external). semi.py cannot be imported here (no R): static analysis needs neither.",
        technique="static analysis: RNG effect analysis, index agreement and guard rules over symbolic terms"),
    "C20": dict(
        text=_T + "Decides that each factory's closure passes its parameters to the matching numpy slot with size <- n, "
             "normal converts variance to standard deviation, draws use the global legacy stream and stay on it under ANM's deepcopy "
             "(no partial over a bound method of the global RandomState), every n >= 0 of any integer type is served, zero/null are constant 0."
             " Also: a factory written as a + b * Z of one standard draw of its family is decided on the law's parameters as polynomials (LAW.*: mean / standard deviation, support, scale); a reduction of the draw without a size test is decided (n = 0 raises).",
        note="Not decided: the distributional laws themselves (numpy).",
        technique="static analysis: closure evaluation to symbolic terms, slot/unit rules"),
}
